"""Theory of small container values (C19: as_list / as_tuple, lens, zipper, loops._wrapped).

A Python value is a term v of the uninterpreted sort Val with
    tag(v)  in NONE, LIST, TUPLE, RNG (range / dict_keys / dict_values / zip), DICT, OTHER      (which builtin container it is)
    seq(v)  : L     the elements in iteration order, in the (len, at) style: len(l), vat(l, p)   (meaningful for LIST, TUPLE, RNG; for DICT: the keys)
Symbolic values handed to the executor:
    SV('cv', t)                 a value
    SV('seqlit', items=[...])   a list / tuple display [a, b] or (a, b) built by the code (tag in .tag)
    SV('cvs', n, at)            a sequence of n values known element-wise (the *args tuple, a comprehension over it)
Sequence views (seq_len, seq_at) work structurally on all of them, so obligations stay quantifier-light."""
import ast
import z3
from z3 import And, Or, Not, If, Implies, BoolVal, IntVal, Int, Function, IntSort, BoolSort, Const, ForAll, Exists, simplify, is_true, is_false

from .front import OutOfSubset
from .sv import SV, I, B, T, NONE, fresh_int, fresh_name, zi
from .th_tree import Val, L, LEN, VA

TAG = Function('tag', Val, IntSort())
SEQ = Function('seq', Val, L)
LEN0 = Function('len0', Val, IntSort())
ISSTRV = Function('is_a_str', Val, BoolSort())              # the value is a str (its tag is OTHER)
SIZEDV = Function('range_like_has_len', Val, BoolSort())    # a range-like value with __len__ (range, dict_keys, dict_values - not a zip object)
UNIVERSE_NOTE = ('universe:a value tagged OTHER is a string or a scalar that is neither Iterable nor sized (sets, frozensets, bytes, generators are outside the '
                 'value datatype); None is neither; of the range-like values range / dict_keys / dict_values have __len__, zip objects do not')
LEN0_NOTE = ('callee contract:len0(x) is len(x) for a list, tuple, dict and a sized range-like x (range, dict_keys, dict_values) and 0 for None, strings, other '
             'scalars and zip objects (body verified in C19 len0.*)')
ITER_NOTE = ('callee contract:is_iterable(x) holds for list, tuple, range-like and dict values, not for None, strings and other scalars '
             '(body verified in C19 is_iterable.*)')


def sized(v):
    """x has __len__ and is not a string: the values for which len0 is len"""
    return Or(TAG(v) == T_LIST, TAG(v) == T_TUPLE, TAG(v) == T_DICT, And(TAG(v) == T_RNG, SIZEDV(v)))


def len0_spec(v):
    return If(sized(v), LEN(SEQ(v)), 0)
T_NONE, T_LIST, T_TUPLE, T_RNG, T_DICT, T_OTHER = 0, 1, 2, 3, 4, 5
TAG_OF = {'list': (T_LIST,), 'tuple': (T_TUPLE,), 'range': (T_RNG,), 'dict_keys': (T_RNG,), 'dict_values': (T_RNG,), 'zip': (T_RNG,), 'dict': (T_DICT,),
          'type(None)': (T_NONE,)}
NEVER = ('pd.DataFrame', 'pd.Series', 'np.ndarray', 'pd.Index')


def CV(t):
    return SV('cv', t)


def fresh_cv(prefix='x'):
    return CV(Const(fresh_name(prefix), Val))


def is_seq_tag(t):
    return Or(TAG(t) == T_LIST, TAG(t) == T_TUPLE, TAG(t) == T_RNG)


# ---- sequence views
def seq_tag(sv):
    if sv.kind == 'cv':
        return TAG(sv.t)
    if sv.kind == 'seqlit':
        return IntVal(sv.tag)
    if sv.kind == 'tuple':
        return IntVal(T_TUPLE)
    if sv.kind == 'copyof':
        return IntVal(sv.tag)
    if sv.kind == 'ite':
        return If(sv.c, seq_tag(sv.a), seq_tag(sv.b))
    raise OutOfSubset('tag of %s' % sv.kind)


def seq_len(sv):
    if sv.kind == 'cv':
        return LEN(SEQ(sv.t))
    if sv.kind == 'seqlit':
        return IntVal(len(sv.items))
    if sv.kind == 'tuple':
        return IntVal(len(sv.items))
    if sv.kind == 'copyof':
        return seq_len(sv.src)
    if sv.kind == 'repeat':
        return seq_len(sv.src) * sv.times if z3.is_int_value(simplify(seq_len(sv.src))) else sv.times   # only used for length-1 sources
    if sv.kind == 'ite':
        return If(sv.c, seq_len(sv.a), seq_len(sv.b))
    if sv.kind == 'cvs':
        return sv.n
    raise OutOfSubset('length of %s' % sv.kind)


def seq_at(sv, p):
    """p-th element as a Val term"""
    p = zi(p)
    if sv.kind == 'cv':
        return VA(SEQ(sv.t), p)
    if sv.kind in ('seqlit', 'tuple'):
        items = sv.items
        if not items:
            return Const(fresh_name('undef'), Val)
        r = val_of(items[-1])
        for k in range(len(items) - 2, -1, -1):
            r = If(p == k, val_of(items[k]), r)
        return r
    if sv.kind == 'copyof':
        return seq_at(sv.src, p)
    if sv.kind == 'repeat':
        return seq_at(sv.src, 0)
    if sv.kind == 'ite':
        return If(sv.c, seq_at(sv.a, p), seq_at(sv.b, p))
    if sv.kind == 'cvs':
        return val_of(sv.at(None, p))
    raise OutOfSubset('element of %s' % sv.kind)


_BOX = Function('box', IntSort(), Val)       # python ints as values (only equality is used)


def val_of(sv):
    if sv.kind == 'cv':
        return sv.t
    if sv.kind == 'int':
        return _BOX(sv.t)
    if sv.kind == 'ite' and sv.a.kind == 'cv' and sv.b.kind == 'cv':
        return If(sv.c, sv.a.t, sv.b.t)
    if sv.kind in ('seqlit', 'tuple', 'copyof', 'ite', 'repeat', 'none', 'str', 'bool'):
        return Const(fresh_name('opaque_' + sv.kind), Val)       # a nested display: an unconstrained value (sound: fewer facts)
    raise OutOfSubset('element of kind %s is not a plain value' % sv.kind)


def same_seq(a, b, j):
    """two sequence views denote equal containers: same tag, same length, same element at the (free) index j"""
    return And(seq_tag(a) == seq_tag(b), seq_len(a) == seq_len(b), Implies(And(0 <= j, j < seq_len(a)), seq_at(a, j) == seq_at(b, j)))


def is_iter(sv):
    """is_iterable on the value universe: list, tuple, range-like and dict are iterable, None and scalars (strings included) are not"""
    if sv.kind == 'cv':
        t = TAG(sv.t)
        return Or(t == T_LIST, t == T_TUPLE, t == T_RNG, t == T_DICT)
    if sv.kind in ('seqlit', 'copyof', 'tuple', 'repeat'):
        return BoolVal(True)
    if sv.kind == 'ite':
        return If(sv.c, is_iter(sv.a), is_iter(sv.b))
    raise OutOfSubset('is_iterable of %s' % sv.kind)


def lens_contract(ex, st, n_values, len_at):
    """callee contract of lens (proved from its body in C19.lens.*): raises ValueError iff two lengths other than 1 differ; otherwise returns 0 for no
    values, the common length other than 1 if there is one, and 1 when every length is 1.  len_at(j) -> z3 Int (length of the j-th value)"""
    p, q, k = Int(fresh_name('p!lens')), Int(fresh_name('q!lens')), Int(fresh_name('k!lens'))
    differ = Exists([p, q], And(0 <= p, p < n_values, 0 <= q, q < n_values, len_at(p) != 1, len_at(q) != 1, len_at(p) != len_at(q)))
    ex.raise_if(st, differ, 'ValueError')
    r = fresh_int('lens')
    ex.use('contract:lens (C19.lens.* obligations)')
    st.assume(Implies(n_values == 0, r == 0))
    st.assume(ForAll([k], Implies(And(0 <= k, k < n_values, len_at(k) != 1), r == len_at(k))))
    st.assume(Implies(And(n_values > 0, ForAll([k], Implies(And(0 <= k, k < n_values), len_at(k) == 1))), r == 1))
    return I(r)


class Conts:
    def __init__(self, len0_contract=True, len_raises=False):
        self.len0_contract = len0_contract
        self.len_raises = len_raises         # len(x) on a symbolic value raises TypeError unless x has __len__ (off: call sites guard len by isinstance)

    def len0_of(self, ex, sv):
        if sv.kind == 'cv':
            v = Const('v!len0', Val)
            ex.fact(ForAll([v], And(LEN0(v) >= 0, Implies(sized(v), LEN0(v) == LEN(SEQ(v))), Implies(Not(sized(v)), LEN0(v) == 0))))
            return LEN0(sv.t)
        if sv.kind == 'ite':
            return If(sv.c, self.len0_of(ex, sv.a), self.len0_of(ex, sv.b))
        return seq_len(sv)

    # -- displays
    def expr(self, ex, st, e):
        if isinstance(e, ast.List):
            return SV('seqlit', None, items=[ex.eval(st, x) for x in e.elts], tag=T_LIST)
        if isinstance(e, ast.Set) and all(isinstance(x, ast.Constant) and isinstance(x.value, int) for x in e.elts):
            vals = [x.value for x in e.elts]
            return SV('intset', None, mem=lambda z: Or(*[z == v for v in vals]))
        return NotImplemented

    def pre_call(self, ex, st, e):
        if isinstance(e.func, ast.Name) and e.func.id in ('lens', 'zip') and len(e.args) == 1 and isinstance(e.args[0], ast.Starred) and not e.keywords:
            seqs = ex.eval(st, e.args[0].value)
            if seqs.kind not in ('lazylist', 'cvs'):
                raise OutOfSubset('%s(*%s)' % (e.func.id, seqs.kind))
            n, at = (seqs.n, seqs.at)
            if e.func.id == 'zip':
                ex.use('axiom:zip(*seqs) yields min(len) tuples (none for no sequences), the k-th holding the k-th element of every sequence')
                return SV('zipof', None, n=n, at=at)
            ex.use(LEN0_NOTE)
            return lens_contract(ex, st, n, lambda j: self.len0_of(ex, at(st.fork(), j)))
        if isinstance(e.func, ast.Name) and e.func.id == 'isinstance' and len(e.args) == 2:
            tn = e.args[1]
            names = [ast.unparse(x) for x in tn.elts] if isinstance(tn, ast.Tuple) else [ast.unparse(tn)]
            if all(n in NEVER or n.startswith(('pd.', 'np.')) for n in names):
                ex.use('path precondition: no value is a pandas / numpy object')
                return B(False)
            v = ex.eval(st, e.args[0])
            if v.kind == 'cv' and (names == ['Iterable'] or set(names) <= {'str', 'np.str_'}):
                ex.use(UNIVERSE_NOTE)
                ex.fact(Implies(ISSTRV(v.t), TAG(v.t) == T_OTHER))
                if names == ['Iterable']:
                    return B(Or(is_iter(v), ISSTRV(v.t)))
                return B(ISSTRV(v.t))
            if v.kind in ('cv', 'seqlit', 'tuple', 'copyof', 'ite') and all(n in TAG_OF for n in names):
                tags = sorted({t for n in names for t in TAG_OF[n]})
                ex.use('model:isinstance against list / tuple / range / dict views / zip / dict is a test of the container tag')
                tg = seq_tag(v)
                return B(Or(*[tg == t for t in tags]))
        return NotImplemented

    def call(self, ex, st, e, fname, args, kwargs):
        if fname == 'len' and len(args) == 1 and args[0].kind in ('cv', 'seqlit', 'copyof', 'ite', 'repeat', 'cvs'):
            if args[0].kind == 'cv' and self.len_raises:
                h = args[0].t
                ex.use(UNIVERSE_NOTE)
                ex.fact(Implies(ISSTRV(h), TAG(h) == T_OTHER))
                ex.fact(LEN(SEQ(h)) >= 0)
                ex.raise_if(st, Not(Or(sized(h), ISSTRV(h))), 'TypeError')
                return I(If(sized(h), LEN(SEQ(h)), Function('str_len', Val, IntSort())(h)))
            if args[0].kind == 'cv':
                ex.fact(LEN(SEQ(args[0].t)) >= 0)
            return I(seq_len(args[0]))
        if fname in ('list', 'tuple') and len(args) == 1 and args[0].kind in ('cv', 'seqlit', 'tuple', 'copyof', 'ite'):
            ex.use('axiom:list(x) / tuple(x) is a new list / tuple with the elements of x in order')
            return SV('copyof', None, src=args[0], tag=T_LIST if fname == 'list' else T_TUPLE)
        if fname == 'tuple' and len(args) == 1 and args[0].kind == 'cvs':
            return args[0]
        if fname == 'len0' and len(args) == 1 and self.len0_contract and 'len0' not in ex.inline:
            ex.use(LEN0_NOTE)
            a = args[0]
            if a.kind == 'cvs':
                return I(a.n)
            if a.kind == 'cv':
                ex.fact(LEN0(a.t) >= 0)
                ex.fact(Implies(sized(a.t), LEN0(a.t) == LEN(SEQ(a.t))))
                ex.fact(Implies(Not(sized(a.t)), LEN0(a.t) == 0))
                return I(LEN0(a.t))
            return I(seq_len(a))
        if fname == 'is_iterable' and len(args) == 1 and args[0].kind in ('cv', 'seqlit', 'copyof', 'tuple', 'ite', 'repeat') and 'is_iterable' not in ex.inline:
            ex.use(ITER_NOTE)
            return B(is_iter(args[0]))
        if fname == 'is_str' and len(args) == 1 and args[0].kind == 'cv' and 'is_str' in ex.inline:
            return ex.call_inline_expr(st, 'is_str', args, kwargs)          # the real body (an isinstance test), not the by-kind shortcut of TypePreds
        if fname == 'getattr' and len(args) == 3 and args[0].kind == 'cv' and args[1].kind == 'str' and args[1].t is None and args[1].lit == '__len__':
            return SV('lenfn', args[0].t, default=args[2])
        if fname == 'set' and len(args) == 1 and args[0].kind == 'lazylist':
            ll = args[0]
            ex.use('axiom:set(xs) contains exactly the elements of xs')

            def mem(z, ll=ll, st=st):
                j = Int(fresh_name('j!set'))
                return Exists([j], And(0 <= j, j < ll.n, ll.at(st.fork(), j).t == z))
            return SV('intset', None, mem=mem)
        if fname == 'len' and len(args) == 1 and args[0].kind == 'intset':
            return SV('card', None, s=args[0])
        if fname == 'list' and len(args) == 1 and args[0].kind == 'intset':
            return SV('setlist', None, s=args[0])
        return NotImplemented

    def call_value(self, ex, st, e, fn, args, kwargs):
        if fn.kind == 'lenfn' and not args and not kwargs:
            h, default = fn.t, fn.f['default']
            ex.use(UNIVERSE_NOTE)
            ex.use('axiom:getattr(x, "__len__", default)() is len(x) for a value that has __len__ (list, tuple, dict, str, sized range-like) and default() otherwise; '
                   'len of these never raises')
            ex.fact(Implies(ISSTRV(h), TAG(h) == T_OTHER))
            ex.fact(LEN(SEQ(h)) >= 0)
            has = Or(sized(h), ISSTRV(h))
            if default.kind != 'func':
                raise OutOfSubset('getattr default of kind %s called' % default.kind)
            st.guards.append(Not(has))
            try:
                dv = ex.call_func(st, default, [], {})
            finally:
                st.guards.pop()
            if dv.kind != 'int':
                raise OutOfSubset('__len__ default returns %s' % dv.kind)
            STRLEN = Function('str_len', Val, IntSort())
            return I(If(sized(h), LEN(SEQ(h)), If(ISSTRV(h), STRLEN(h), dv.t)))
        return NotImplemented

    def binop(self, ex, st, e, op, a, b):
        if op == 'Sub' and a.kind == 'intset' and b.kind == 'intset':
            return SV('intset', None, mem=lambda z, a=a, b=b: And(a.mem(z), Not(b.mem(z))))
        if op == 'Mult' and a.kind in ('copyof', 'seqlit', 'cv') and b.kind == 'int':
            ex.use('axiom:a one-element list times n is n copies of the element')
            ex.oblige(st, 'list_repeat.source_has_one_element', seq_len(a) == 1, kind='pre')
            return SV('repeat', None, src=a, times=b.t, tag=T_LIST)
        return NotImplemented

    def compare(self, ex, st, e, op, a, b):
        if a.kind == 'card' and b.kind == 'int' and op in ('Gt', 'GtE', 'Eq'):
            k = simplify(b.t)
            x, y = Int(fresh_name('x!card')), Int(fresh_name('y!card'))
            if z3.is_int_value(k) and op in ('Gt', 'GtE') and 0 <= k.as_long() + (1 if op == 'Gt' else 0) <= 4:
                need = k.as_long() + (1 if op == 'Gt' else 0)
                ex.use('axiom:len(s) >= k for a set s iff it has k pairwise different members')
                if need == 0:
                    return BoolVal(True)
                xs = [Int(fresh_name('x!card')) for _ in range(need)]
                return Exists(xs, And(*([a.s.mem(v) for v in xs] + [xs[i] != xs[j2] for i in range(need) for j2 in range(i + 1, need)])))
        return NotImplemented

    def truth(self, ex, st, v):
        if v.kind == 'intset':
            x = Int(fresh_name('x!ne'))
            return Exists([x], v.mem(x))
        if v.kind in ('cv',):
            return NotImplemented
        return NotImplemented

    def subscript(self, ex, st, e, recv, idx):
        if recv.kind in ('cv', 'seqlit', 'copyof', 'ite') and idx.kind == 'int':
            k = simplify(idx.t)
            n = seq_len(recv)
            pos = If(idx.t < 0, n + idx.t, idx.t) if not z3.is_int_value(k) else (n + k.as_long() if k.as_long() < 0 else idx.t)
            ex.raise_if(st, Not(And(0 <= pos, pos < n)), 'IndexError')
            el = seq_at(recv, pos)
            if recv.kind == 'cv':
                ex.use('axiom:containers are finite trees - an element is strictly less deep than its container')
                ex.fact(Implies(And(0 <= pos, pos < n), And(DEPTHV(el) < DEPTHV(recv.t), DEPTHV(el) >= 0)))
            return CV(el)
        if recv.kind == 'setlist' and idx.kind == 'int':
            ex.use('axiom:list(s)[0] is a member of the non-empty set s')
            r = fresh_int('member')
            x = Int(fresh_name('x!m'))
            ex.raise_if(st, Not(Exists([x], recv.s.mem(x))), 'IndexError')
            st.assume(recv.s.mem(r))
            return I(r)
        if recv.kind == 'cvs' and idx.kind == 'int':
            return recv.at(st, idx.t)
        if recv.kind == 'cvs' and idx.kind == 'slice' and idx.f.get('hi') is None and idx.f.get('step') is None and idx.f.get('lo') is not None \
                and idx.f['lo'].kind == 'int' and z3.is_int_value(simplify(idx.f['lo'].t)) and simplify(idx.f['lo'].t).as_long() >= 0:
            k = simplify(idx.f['lo'].t).as_long()
            ex.use('axiom:xs[k:] of a tuple holds the items from position k on (none when len(xs) <= k)')
            return SV('cvs', None, n=If(recv.n >= k, recv.n - k, 0), at=lambda st2, j, recv=recv, k=k: recv.at(st2, zi(j) + k))
        return NotImplemented

    def iterate(self, ex, st, it):
        if it.kind == 'cvs':
            return it.n, it.at
        if it.kind in ('cv', 'seqlit', 'copyof'):
            return seq_len(it), (lambda st2, j: CV(seq_at(it, j)))
        return NotImplemented

    def merge(self, ex, st, c, a, b):
        kinds = ('cv', 'seqlit', 'tuple', 'copyof', 'ite', 'repeat')
        if a.kind in kinds and b.kind in kinds:
            return SV('ite', None, c=c, a=a, b=b)
        return NotImplemented

    def is_none(self, ex, st, v):
        if v.kind == 'cv':
            return TAG(v.t) == T_NONE
        if v.kind in ('seqlit', 'copyof', 'tuple', 'cvs', 'repeat'):
            return BoolVal(False)
        if v.kind == 'ite':
            return If(v.c, self.is_none(ex, st, v.a), self.is_none(ex, st, v.b))
        return NotImplemented

    def fresh_like(self, ex, st, name, v):
        if v.kind == 'cv':
            return fresh_cv(name)
        return NotImplemented


# ================================================================================================ container lifting (loops._wrapped)
from z3 import DeclareSort, substitute
Args = DeclareSort('Args')                 # a tuple of positional companions
Kw = DeclareSort('Kw')                     # a dict of keyword companions
ALEN = Function('alen', Args, IntSort())
AAT = Function('aat', Args, IntSort(), Val)
KWHAS = Function('kwhas', Kw, Val, BoolSort())
KWGET = Function('kwget', Kw, Val, Val)
TYPEOFV = Function('typeofv', Val, IntSort())
INTYPES = Function('in_types', IntSort(), BoolSort())      # type(x) in self.types
ISINSTV = Function('isinst_types', Val, BoolSort())        # isinstance(x, self.types)
DHAS = Function('dhas', Val, Val, BoolSort())              # key in d
DGET = Function('dget', Val, Val, Val)                     # d[key]
SK = Function('sorted_keys', Val, L)                       # sorted(d.keys()) as an abstract list
DEPTHV = Function('depthv', Val, IntSort())
IBI = Function('item_by_i', Val, IntSort(), IntSort(), Val)
IBK = Function('item_by_key', Val, Val, L, Val)
WRAP = Function('wrapped', Val, Args, Kw, Val)
APPLY = Function('apply_function', Val, Args, Kw, Val)


def seq_type(sv):
    """class identity of a sequence view"""
    if sv.kind == 'cv':
        return TYPEOFV(sv.t)
    if sv.kind in ('mapped', 'dictmapped'):
        return sv.typ
    raise OutOfSubset('type of %s' % sv.kind)


class Lift:
    """what loops._wrapped, _item_by_i and _item_by_key need beyond Conts: dict values, `type(x)(...)`, generator expressions and dict
    comprehensions over companions, and the calls taken by contract (recorded in .calls for the contract module to state obligations on)."""

    def __init__(self, by_contract=('_item_by_i', '_item_by_key', '_wrapped', 'function'), root=None):
        self.by_contract = set(by_contract)
        self.calls = []          # (name, state, argument SVs)
        self.root = root

    # -- abstraction of companion containers
    def args_term(self, ex, st, sv):
        if sv.kind == 'args':
            return sv.t
        if sv.kind in ('lazylist', 'cvs'):
            A = Const(fresh_name('A'), Args)
            j = Int(fresh_name('j!a'))
            el = sv.at(st.fork(), j)
            st.pc.append(And(ALEN(A) == sv.n, ForAll([j], Implies(And(0 <= j, j < sv.n), AAT(A, j) == val_of(el)))))
            return A
        raise OutOfSubset('positional companions of kind %s' % sv.kind)

    def kw_term(self, ex, st, sv):
        if sv.kind == 'kwmap':
            return sv.t
        if sv.kind == 'kwmapped':
            K = Const(fresh_name('K'), Kw)
            k = Const(fresh_name('k!kw'), Val)
            st.pc.append(ForAll([k], And(KWHAS(K, k) == KWHAS(sv.src, k), Implies(KWHAS(sv.src, k), KWGET(K, k) == sv.fn(k)))))
            return K
        raise OutOfSubset('keyword companions of kind %s' % sv.kind)

    # -- expressions
    def expr(self, ex, st, e):
        if isinstance(e, ast.GeneratorExp):
            ex.use('axiom:a generator expression consumed once yields the elements of the corresponding list comprehension')
            return ex.e_ListComp(st, e)
        if isinstance(e, ast.DictComp) and len(e.generators) == 1 and not e.generators[0].ifs and isinstance(e.generators[0].iter, ast.Call) \
                and isinstance(e.generators[0].iter.func, ast.Attribute) and e.generators[0].iter.func.attr in ('items', 'keys') and not e.generators[0].iter.args:
            g = e.generators[0]
            src = ex.eval(st, g.iter.func.value)
            over_items = g.iter.func.attr == 'items'
            if src.kind == 'kwmap' and over_items and isinstance(g.target, ast.Tuple) and len(g.target.elts) == 2 and isinstance(e.key, ast.Name) \
                    and isinstance(g.target.elts[0], ast.Name) and e.key.id == g.target.elts[0].id:
                kq = Const(fresh_name('kq'), Val)
                sub = st.fork()
                sub.pc.append(KWHAS(src.t, kq))
                ex.assign(sub, g.target, T([CV(kq), CV(KWGET(src.t, kq))]), None)
                v = ex.eval(sub, e.value)
                st.pending.extend(sub.pending)
                term = val_of(v)
                ex.use('model:{k: f(v) for k, v in kwargs.items()} has the keys of kwargs and f(kwargs[k]) under k')
                return SV('kwmapped', None, src=src.t, fn=lambda k, term=term, kq=kq: substitute(term, (kq, k)))
            if src.kind == 'cv':
                d = src.t
                ex.use('model:a dict comprehension over d.keys() / d.items() keeps the keys of d in order')
                closure = dict(st.env)

                def value_at(st2, j, d=d):
                    sub = st2.fork(); sub.env = dict(closure); sub.pending = []
                    key = CV(VA(SEQ(d), j))
                    sub.pc.append(Implies(And(0 <= j, j < LEN(SEQ(d))), DHAS(d, key.t)))
                    ex.assign(sub, g.target, T([key, CV(DGET(d, key.t))]) if over_items else key, None)
                    kv = ex.eval(sub, e.key)
                    v = ex.eval(sub, e.value)
                    st2.pc = sub.pc
                    return kv, v, sub.pending
                return SV('dictmap', None, src=d, n=LEN(SEQ(d)), at=value_at)
        return NotImplemented

    def dictcomp(self, ex, st, e):
        """the executor hands dict comprehensions to theories through this hook"""
        return self.expr(ex, st, e)

    def attr(self, ex, st, e, recv, name):
        if recv.kind == 'obj' and name == 'types':
            return SV('typeset')
        if recv.kind == 'obj' and name == 'first':
            ex.use('uninterpreted:self.first (the name of the first parameter of the lifted function, a property over getargs) is an opaque value')
            return CV(Const('FIRST_PARAMETER', Val))
        return NotImplemented

    def pre_call(self, ex, st, e):
        f = e.func
        if isinstance(f, ast.Name) and f.id == 'isinstance' and len(e.args) == 2 and ast.unparse(e.args[1]) == 'self.types':
            v = ex.eval(st, e.args[0])
            if v.kind == 'cv':
                ex.use('model:isinstance(x, self.types) is a predicate of x; type(x) in self.types implies it')
                ex.fact(Implies(INTYPES(TYPEOFV(v.t)), ISINSTV(v.t)))
                ex.use('path precondition: the types a function is lifted over are list, tuple, dict and dict subclasses - an instance that is not a dict is a list or a tuple')
                ex.fact(Implies(And(ISINSTV(v.t), TAG(v.t) != T_DICT), Or(TAG(v.t) == T_LIST, TAG(v.t) == T_TUPLE)))
                return B(ISINSTV(v.t))
        if isinstance(f, ast.Attribute) and isinstance(f.value, ast.Name) and f.value.id == 'self' and f.attr == 'function' and 'function' in self.by_contract:
            pos, star, kws, dstar = [], None, {}, None
            for a in e.args:
                if isinstance(a, ast.Starred):
                    star = ex.eval(st, a.value)
                else:
                    pos.append(ex.eval(st, a))
            for kw in e.keywords:
                if kw.arg is None:
                    dstar = ex.eval(st, kw.value)
                else:
                    kws[kw.arg] = ex.eval(st, kw.value)
            if len(pos) != 1 or star is None or dstar is None or kws:
                raise OutOfSubset('call of self.function with an unexpected argument shape')
            A, K = self.args_term(ex, st, star), self.kw_term(ex, st, dstar)
            self.calls.append(('function', st.fork(), dict(arg=pos[0], args=star, kwargs=dstar, A=A, K=K)))
            ex.use('the lifted function is an uninterpreted function of (first argument, positional companions, keyword companions)')
            return CV(APPLY(val_of(pos[0]), A, K))
        return NotImplemented

    def call(self, ex, st, e, fname, args, kwargs):
        if fname == 'type' and len(args) == 1 and args[0].kind == 'cv':
            return SV('typeof', TYPEOFV(args[0].t), of=args[0])
        if fname in ('is_df', 'is_array', 'is_series', 'is_ts', 'is_pd', 'is_arr') and len(args) == 1:
            ex.use('path precondition: no value is a pandas / numpy object')
            return B(False)
        if fname == 'sorted' and len(args) == 1 and args[0].kind == 'keysview':
            return SV('sortedkeys', SK(args[0].d))
        if fname == '_item_by_i' and fname in self.by_contract and len(args) == 3 and args[0].kind == 'cv' and args[1].kind == 'int' and args[2].kind == 'int':
            self.calls.append((fname, st.fork(), dict(value=args[0], i=args[1], n=args[2])))
            ex.use('contract:_item_by_i (C19._item_by_i.* obligations)')
            return CV(IBI(args[0].t, args[1].t, args[2].t))
        if fname == '_item_by_key' and fname in self.by_contract and 3 <= len(args) <= 4 and args[0].kind == 'cv' and args[2].kind == 'sortedkeys':
            if len(args) == 4 and args[3].kind != 'none':
                raise OutOfSubset('_item_by_key with a positional index')
            self.calls.append((fname, st.fork(), dict(value=args[0], key=args[1], keys=args[2])))
            ex.use('contract:_item_by_key (C19._item_by_key.* obligations)')
            return CV(IBK(args[0].t, val_of(args[1]), args[2].t))
        return NotImplemented

    def call_value(self, ex, st, e, fn, args, kwargs):
        if fn.kind == 'typeof' and len(args) == 1 and not kwargs and args[0].kind in ('lazylist', 'dictmap'):
            ex.use('axiom:type(x)(elements) builds a container of the class of x from the elements, in order (list, tuple, dict and dict subclasses)')
            a = args[0]
            if a.kind == 'lazylist':
                return SV('mapped', None, typ=fn.t, tagterm=TAG(fn.of.t), n=a.n, at=a.at)
            return SV('dictmapped', None, typ=fn.t, src=a.src, n=a.n, at=a.at)
        return NotImplemented

    def method(self, ex, st, e, recv, mname, args, kwargs):
        if recv.kind == 'cv' and mname in ('keys', 'items') and not args:
            ex.oblige(st, 'dict_method.receiver_is_a_dict', TAG(recv.t) == T_DICT, kind='pre')
            return SV('keysview', None, d=recv.t, items=(mname == 'items'))
        if recv.kind == 'kwmap' and mname == 'pop' and len(args) == 2 and args[0].kind == 'str':
            ex.use("path precondition: the keyword '%s' is not among the keyword companions (it addresses pandas / numpy axes)" % args[0].lit)
            return args[1]
        if recv.kind == 'kwmap' and mname == 'items' and not args:
            return SV('kwitems', None, src=recv.t)
        if recv.kind == 'obj' and mname == '_wrapped' and '_wrapped' in self.by_contract and len(args) == 3 and not kwargs:
            x = args[0]
            A, K = self.args_term(ex, st, args[1]), self.kw_term(ex, st, args[2])
            if self.root is not None:
                ex.oblige(st, 'call._wrapped.measure_decreases', And(DEPTHV(val_of(x)) < DEPTHV(self.root), DEPTHV(val_of(x)) >= 0), kind='variant')
            self.calls.append(('_wrapped', st.fork(), dict(arg=x, args=args[1], kwargs=args[2], A=A, K=K)))
            ex.use("recursion: loops._wrapped on an element is taken by the function's own contract (structural induction on the nesting depth)")
            return CV(WRAP(val_of(x), A, K))
        return NotImplemented

    def compare(self, ex, st, e, op, a, b):
        if op in ('In', 'NotIn') and a.kind == 'typeof' and b.kind == 'typeset':
            r = INTYPES(a.t)
            return r if op == 'In' else Not(r)
        if op in ('In', 'NotIn') and a.kind == 'cv' and b.kind == 'kwmap':
            r = KWHAS(b.t, a.t)
            return r if op == 'In' else Not(r)
        if op in ('Eq', 'NotEq') and a.kind == 'sortedkeys' and b.kind == 'sortedkeys':
            ex.use('model:two sorted key lists are equal iff they are the same abstract list; dicts with equal sorted key lists have the same keys')
            return (a.t == b.t) if op == 'Eq' else (a.t != b.t)
        return NotImplemented

    def iterate(self, ex, st, it):
        if it.kind == 'keysview' and not it.items:
            d = it.d
            return LEN(SEQ(d)), (lambda st2, j: CV(VA(SEQ(d), j)))
        return NotImplemented

    def subscript(self, ex, st, e, recv, idx):
        if recv.kind == 'cv' and idx.kind == 'cv':
            ex.raise_if(st, Not(DHAS(recv.t, idx.t)), 'KeyError')
            c = DGET(recv.t, idx.t)
            ex.use('axiom:containers are finite trees - an element is strictly less deep than its container')
            ex.fact(Implies(DHAS(recv.t, idx.t), And(DEPTHV(c) < DEPTHV(recv.t), DEPTHV(c) >= 0)))
            return CV(c)
        return NotImplemented

    def is_none(self, ex, st, v):
        if v.kind in ('mapped', 'dictmapped', 'kwmap', 'args', 'typeset', 'obj', 'sortedkeys'):
            return BoolVal(False)
        return NotImplemented
