"""Theory of small container values (C19: as_list / as_tuple, lens, zipper, loops._wrapped).

A Python value is a term v of the uninterpreted sort Val with
    tag(v)  in NONE, LIST, TUPLE, RNG (range / dict_keys / dict_values / zip), DICT, OTHER      (which builtin container it is)
    seq(v)  : L     the elements in iteration order, in the (len, at) style: len(l), vat(l, p)   (meaningful for LIST, TUPLE, RNG; for DICT: the keys)
Symbolic values handed to the executor:
    SV('cv', t)                 a value
    SV('seqlit', items=[...])   a list / tuple display [a, b] or (a, b) built by the code (tag in .tag)
    SV('cvs', n, at)            a sequence of n values known element-wise (the *args tuple, a comprehension over it)
Sequence views (seq_len, seq_at) work structurally on all of them, so obligations stay quantifier-light."""
import ast
import z3
from z3 import And, Or, Not, If, Implies, BoolVal, IntVal, Int, Function, IntSort, BoolSort, Const, ForAll, Exists, simplify, is_true, is_false

from .front import OutOfSubset
from .sv import SV, I, B, T, NONE, fresh_int, fresh_name, zi
from .th_tree import Val, L, LEN, VA

TAG = Function('tag', Val, IntSort())
SEQ = Function('seq', Val, L)
LEN0 = Function('len0', Val, IntSort())
T_NONE, T_LIST, T_TUPLE, T_RNG, T_DICT, T_OTHER = 0, 1, 2, 3, 4, 5
TAG_OF = {'list': (T_LIST,), 'tuple': (T_TUPLE,), 'range': (T_RNG,), 'dict_keys': (T_RNG,), 'dict_values': (T_RNG,), 'zip': (T_RNG,), 'dict': (T_DICT,),
          'type(None)': (T_NONE,)}
NEVER = ('pd.DataFrame', 'pd.Series', 'np.ndarray', 'pd.Index')


def CV(t):
    return SV('cv', t)


def fresh_cv(prefix='x'):
    return CV(Const(fresh_name(prefix), Val))


def is_seq_tag(t):
    return Or(TAG(t) == T_LIST, TAG(t) == T_TUPLE, TAG(t) == T_RNG)


# ---- sequence views
def seq_tag(sv):
    if sv.kind == 'cv':
        return TAG(sv.t)
    if sv.kind == 'seqlit':
        return IntVal(sv.tag)
    if sv.kind == 'tuple':
        return IntVal(T_TUPLE)
    if sv.kind == 'copyof':
        return IntVal(sv.tag)
    if sv.kind == 'ite':
        return If(sv.c, seq_tag(sv.a), seq_tag(sv.b))
    raise OutOfSubset('tag of %s' % sv.kind)


def seq_len(sv):
    if sv.kind == 'cv':
        return LEN(SEQ(sv.t))
    if sv.kind == 'seqlit':
        return IntVal(len(sv.items))
    if sv.kind == 'tuple':
        return IntVal(len(sv.items))
    if sv.kind == 'copyof':
        return seq_len(sv.src)
    if sv.kind == 'repeat':
        return seq_len(sv.src) * sv.times if z3.is_int_value(simplify(seq_len(sv.src))) else sv.times   # only used for length-1 sources
    if sv.kind == 'ite':
        return If(sv.c, seq_len(sv.a), seq_len(sv.b))
    if sv.kind == 'cvs':
        return sv.n
    raise OutOfSubset('length of %s' % sv.kind)


def seq_at(sv, p):
    """p-th element as a Val term"""
    p = zi(p)
    if sv.kind == 'cv':
        return VA(SEQ(sv.t), p)
    if sv.kind in ('seqlit', 'tuple'):
        items = sv.items
        if not items:
            return Const(fresh_name('undef'), Val)
        r = val_of(items[-1])
        for k in range(len(items) - 2, -1, -1):
            r = If(p == k, val_of(items[k]), r)
        return r
    if sv.kind == 'copyof':
        return seq_at(sv.src, p)
    if sv.kind == 'repeat':
        return seq_at(sv.src, 0)
    if sv.kind == 'ite':
        return If(sv.c, seq_at(sv.a, p), seq_at(sv.b, p))
    if sv.kind == 'cvs':
        return val_of(sv.at(None, p))
    raise OutOfSubset('element of %s' % sv.kind)


_BOX = Function('box', IntSort(), Val)       # python ints as values (only equality is used)


def val_of(sv):
    if sv.kind == 'cv':
        return sv.t
    if sv.kind == 'int':
        return _BOX(sv.t)
    if sv.kind == 'ite' and sv.a.kind == 'cv' and sv.b.kind == 'cv':
        return If(sv.c, sv.a.t, sv.b.t)
    if sv.kind in ('seqlit', 'tuple', 'copyof', 'ite', 'repeat', 'none', 'str', 'bool'):
        return Const(fresh_name('opaque_' + sv.kind), Val)       # a nested display: an unconstrained value (sound: fewer facts)
    raise OutOfSubset('element of kind %s is not a plain value' % sv.kind)


def same_seq(a, b, j):
    """two sequence views denote equal containers: same tag, same length, same element at the (free) index j"""
    return And(seq_tag(a) == seq_tag(b), seq_len(a) == seq_len(b), Implies(And(0 <= j, j < seq_len(a)), seq_at(a, j) == seq_at(b, j)))


def is_iter(sv):
    """is_iterable on the value universe: list, tuple, range-like and dict are iterable, None and scalars (strings included) are not"""
    if sv.kind == 'cv':
        t = TAG(sv.t)
        return Or(t == T_LIST, t == T_TUPLE, t == T_RNG, t == T_DICT)
    if sv.kind in ('seqlit', 'copyof', 'tuple', 'repeat'):
        return BoolVal(True)
    if sv.kind == 'ite':
        return If(sv.c, is_iter(sv.a), is_iter(sv.b))
    raise OutOfSubset('is_iterable of %s' % sv.kind)


def lens_contract(ex, st, n_values, len_at):
    """callee contract of lens (proved from its body in C19.lens.*): raises ValueError iff two lengths other than 1 differ; otherwise returns 0 for no
    values, the common length other than 1 if there is one, and 1 when every length is 1.  len_at(j) -> z3 Int (length of the j-th value)"""
    p, q, k = Int(fresh_name('p!lens')), Int(fresh_name('q!lens')), Int(fresh_name('k!lens'))
    differ = Exists([p, q], And(0 <= p, p < n_values, 0 <= q, q < n_values, len_at(p) != 1, len_at(q) != 1, len_at(p) != len_at(q)))
    ex.raise_if(st, differ, 'ValueError')
    r = fresh_int('lens')
    ex.use('contract:lens (C19.lens.* obligations)')
    st.assume(Implies(n_values == 0, r == 0))
    st.assume(ForAll([k], Implies(And(0 <= k, k < n_values, len_at(k) != 1), r == len_at(k))))
    st.assume(Implies(And(n_values > 0, ForAll([k], Implies(And(0 <= k, k < n_values), len_at(k) == 1))), r == 1))
    return I(r)


class Conts:
    def __init__(self, len0_contract=True):
        self.len0_contract = len0_contract

    def len0_of(self, ex, sv):
        if sv.kind == 'cv':
            v = Const('v!len0', Val)
            ex.fact(ForAll([v], And(LEN0(v) >= 0, Implies(Or(is_seq_tag(v), TAG(v) == T_DICT), LEN0(v) == LEN(SEQ(v))),
                                    Implies(Or(TAG(v) == T_NONE, TAG(v) == T_OTHER), LEN0(v) == 0))))
            return LEN0(sv.t)
        if sv.kind == 'ite':
            return If(sv.c, self.len0_of(ex, sv.a), self.len0_of(ex, sv.b))
        return seq_len(sv)

    # -- displays
    def expr(self, ex, st, e):
        if isinstance(e, ast.List):
            return SV('seqlit', None, items=[ex.eval(st, x) for x in e.elts], tag=T_LIST)
        if isinstance(e, ast.Set) and all(isinstance(x, ast.Constant) and isinstance(x.value, int) for x in e.elts):
            vals = [x.value for x in e.elts]
            return SV('intset', None, mem=lambda z: Or(*[z == v for v in vals]))
        return NotImplemented

    def pre_call(self, ex, st, e):
        if isinstance(e.func, ast.Name) and e.func.id in ('lens', 'zip') and len(e.args) == 1 and isinstance(e.args[0], ast.Starred) and not e.keywords:
            seqs = ex.eval(st, e.args[0].value)
            if seqs.kind not in ('lazylist', 'cvs'):
                raise OutOfSubset('%s(*%s)' % (e.func.id, seqs.kind))
            n, at = (seqs.n, seqs.at)
            if e.func.id == 'zip':
                ex.use('axiom:zip(*seqs) yields min(len) tuples (none for no sequences), the k-th holding the k-th element of every sequence')
                return SV('zipof', None, n=n, at=at)
            ex.use('assumed contract:len0(x) is len(x) for a sized non-string x and 0 otherwise (bounded-checked)')
            return lens_contract(ex, st, n, lambda j: self.len0_of(ex, at(st.fork(), j)))
        if isinstance(e.func, ast.Name) and e.func.id == 'isinstance' and len(e.args) == 2:
            tn = e.args[1]
            names = [ast.unparse(x) for x in tn.elts] if isinstance(tn, ast.Tuple) else [ast.unparse(tn)]
            if all(n in NEVER or n.startswith(('pd.', 'np.')) for n in names):
                ex.use('path precondition: no value is a pandas / numpy object')
                return B(False)
            v = ex.eval(st, e.args[0])
            if v.kind in ('cv', 'seqlit', 'tuple', 'copyof', 'ite') and all(n in TAG_OF for n in names):
                tags = sorted({t for n in names for t in TAG_OF[n]})
                ex.use('model:isinstance against list / tuple / range / dict views / zip / dict is a test of the container tag')
                tg = seq_tag(v)
                return B(Or(*[tg == t for t in tags]))
        return NotImplemented

    def call(self, ex, st, e, fname, args, kwargs):
        if fname == 'len' and len(args) == 1 and args[0].kind in ('cv', 'seqlit', 'copyof', 'ite', 'repeat', 'cvs'):
            if args[0].kind == 'cv':
                ex.fact(LEN(SEQ(args[0].t)) >= 0)
            return I(seq_len(args[0]))
        if fname in ('list', 'tuple') and len(args) == 1 and args[0].kind in ('cv', 'seqlit', 'tuple', 'copyof', 'ite'):
            ex.use('axiom:list(x) / tuple(x) is a new list / tuple with the elements of x in order')
            return SV('copyof', None, src=args[0], tag=T_LIST if fname == 'list' else T_TUPLE)
        if fname == 'tuple' and len(args) == 1 and args[0].kind == 'cvs':
            return args[0]
        if fname == 'len0' and len(args) == 1 and self.len0_contract:
            ex.use('assumed contract:len0(x) is len(x) for a sized non-string x and 0 otherwise (bounded-checked)')
            a = args[0]
            if a.kind == 'cvs':
                return I(a.n)
            if a.kind == 'cv':
                ex.fact(LEN0(a.t) >= 0)
                ex.fact(Implies(is_seq_tag(a.t), LEN0(a.t) == LEN(SEQ(a.t))))
                return I(LEN0(a.t))
            return I(seq_len(a))
        if fname == 'is_iterable' and len(args) == 1 and args[0].kind in ('cv', 'seqlit', 'copyof', 'tuple', 'ite', 'repeat'):
            ex.use('assumed contract:is_iterable(x) holds for list, tuple, range-like and dict values, not for None, strings and other scalars')
            return B(is_iter(args[0]))
        if fname == 'set' and len(args) == 1 and args[0].kind == 'lazylist':
            ll = args[0]
            ex.use('axiom:set(xs) contains exactly the elements of xs')

            def mem(z, ll=ll, st=st):
                j = Int(fresh_name('j!set'))
                return Exists([j], And(0 <= j, j < ll.n, ll.at(st.fork(), j).t == z))
            return SV('intset', None, mem=mem)
        if fname == 'len' and len(args) == 1 and args[0].kind == 'intset':
            return SV('card', None, s=args[0])
        if fname == 'list' and len(args) == 1 and args[0].kind == 'intset':
            return SV('setlist', None, s=args[0])
        return NotImplemented

    def binop(self, ex, st, e, op, a, b):
        if op == 'Sub' and a.kind == 'intset' and b.kind == 'intset':
            return SV('intset', None, mem=lambda z, a=a, b=b: And(a.mem(z), Not(b.mem(z))))
        if op == 'Mult' and a.kind in ('copyof', 'seqlit', 'cv') and b.kind == 'int':
            ex.use('axiom:a one-element list times n is n copies of the element')
            ex.oblige(st, 'list_repeat.source_has_one_element', seq_len(a) == 1, kind='pre')
            return SV('repeat', None, src=a, times=b.t, tag=T_LIST)
        return NotImplemented

    def compare(self, ex, st, e, op, a, b):
        if a.kind == 'card' and b.kind == 'int' and op in ('Gt', 'GtE', 'Eq'):
            k = simplify(b.t)
            x, y = Int(fresh_name('x!card')), Int(fresh_name('y!card'))
            if z3.is_int_value(k) and op in ('Gt', 'GtE') and 0 <= k.as_long() + (1 if op == 'Gt' else 0) <= 4:
                need = k.as_long() + (1 if op == 'Gt' else 0)
                ex.use('axiom:len(s) >= k for a set s iff it has k pairwise different members')
                if need == 0:
                    return BoolVal(True)
                xs = [Int(fresh_name('x!card')) for _ in range(need)]
                return Exists(xs, And(*([a.s.mem(v) for v in xs] + [xs[i] != xs[j2] for i in range(need) for j2 in range(i + 1, need)])))
        return NotImplemented

    def truth(self, ex, st, v):
        if v.kind == 'intset':
            x = Int(fresh_name('x!ne'))
            return Exists([x], v.mem(x))
        if v.kind in ('cv',):
            return NotImplemented
        return NotImplemented

    def subscript(self, ex, st, e, recv, idx):
        if recv.kind in ('cv', 'seqlit', 'copyof', 'ite') and idx.kind == 'int':
            k = simplify(idx.t)
            n = seq_len(recv)
            pos = If(idx.t < 0, n + idx.t, idx.t) if not z3.is_int_value(k) else (n + k.as_long() if k.as_long() < 0 else idx.t)
            ex.raise_if(st, Not(And(0 <= pos, pos < n)), 'IndexError')
            return CV(seq_at(recv, pos))
        if recv.kind == 'setlist' and idx.kind == 'int':
            ex.use('axiom:list(s)[0] is a member of the non-empty set s')
            r = fresh_int('member')
            x = Int(fresh_name('x!m'))
            ex.raise_if(st, Not(Exists([x], recv.s.mem(x))), 'IndexError')
            st.assume(recv.s.mem(r))
            return I(r)
        if recv.kind == 'cvs' and idx.kind == 'int':
            return recv.at(st, idx.t)
        return NotImplemented

    def iterate(self, ex, st, it):
        if it.kind == 'cvs':
            return it.n, it.at
        if it.kind in ('cv', 'seqlit', 'copyof'):
            return seq_len(it), (lambda st2, j: CV(seq_at(it, j)))
        return NotImplemented

    def merge(self, ex, st, c, a, b):
        kinds = ('cv', 'seqlit', 'tuple', 'copyof', 'ite', 'repeat')
        if a.kind in kinds and b.kind in kinds:
            return SV('ite', None, c=c, a=a, b=b)
        return NotImplemented

    def is_none(self, ex, st, v):
        if v.kind == 'cv':
            return TAG(v.t) == T_NONE
        if v.kind in ('seqlit', 'copyof', 'tuple', 'cvs', 'repeat'):
            return BoolVal(False)
        if v.kind == 'ite':
            return If(v.c, self.is_none(ex, st, v.a), self.is_none(ex, st, v.b))
        return NotImplemented

    def fresh_like(self, ex, st, name, v):
        if v.kind == 'cv':
            return fresh_cv(name)
        return NotImplemented
