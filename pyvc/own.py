"""Ownership / frame checker and iterator-linearity checker (DESIGN 3.5).  No SMT: a flow-sensitive abstract
interpretation of the *real* AST of /repo/src/pyg_base (read through pyvc.front on every run).

Levels of an object as seen from the function being analysed
    DEEP     created here and everything reachable from it created here (or immutable)
    BRANCH   created here, and every *branch* reachable through branches (a branch = a value v with isinstance(v, T) for
             the `types` expression T the level is relative to) created here; leaves may be shared
    SHALLOW  top object created here (copy(x), dict(x), a comprehension, type(x)(...)); children possibly shared
    SHARED   a parameter, a global, or anything read out of a container that is not DEEP
A SHARED value carries its origins: pairs (parameter, depth) with depth TOP (the parameter object itself), BR (a branch node
below it) or ANY (anything reachable).  Fresh values carry the origins of the shared parts they may contain.

Effects.  Every mutation site (subscript / attribute store, del, augmented assignment, mutating method, call of a function
whose summary has effects) is an obligation: the target is fresh enough, or it lies in a region the function's own
`modifies` clause allows.  Summaries of callees are *inferred* from their bodies (fixpoint over recursion), unless a contract
is declared for them, in which case the declared contract is used at the call site and the callee body is checked against it
by check_function.  Stores of non-fresh values into fresh containers lower the container's level (and that of every local
that may alias or contain it).

Linearity.  Every parameter (except self / *args / **kwargs) and every generator expression is a one-shot token until it
is rebound to a materialised collection.  Consuming a token twice on a path, or inside a loop / comprehension that was
entered after the token was created, or taking its len(), makes `reiterable(token)` a precondition; a call site that
passes a generator expression to a parameter with that precondition is a violation.

What is assumed (listed in every report, kind='assumed'): callees that cannot be resolved (callbacks, numpy / pandas /
stdlib functions outside the table below) do not mutate their arguments and consume iterator arguments at most once;
implicit protocol methods (__getitem__, __len__, __iter__, __contains__, __eq__, __getattr__, property getters) of a
receiver whose class is not known do not mutate it; methods are resolved statically in the class the analysed function belongs to
(or the class learnt from `type(x) == type(self)` / `isinstance(x, C)`), i.e. no overriding in subclasses; an augmented assignment with a
syntactically numeric right-hand side acts on a number (not a numpy array); mutable default arguments are not tracked; exception handlers
start from the join of the states before and after the `try` body.  With frame_report(..., protocol=True) the protocol methods of the classes
involved are checked to be effect-free instead of being assumed.
"""
import ast, os
from . import front
from .front import SelectorError

DEEP, BRANCH, SHALLOW, SHARED = 3, 2, 1, 0
LVL = {3: 'DEEP', 2: 'BRANCH-DEEP', 1: 'SHALLOW', 0: 'SHARED'}
TOP, BR, ANY, CH = 0, 1, 2, 3            # CH: the direct elements of the parameter (TOP < CH < ANY, TOP < BR < ANY)
DEPTH = {0: 'top', 1: 'branches', 2: 'deep', 3: 'elements'}
NEED = {TOP: SHALLOW, BR: BRANCH, ANY: DEEP, CH: DEEP}


def covers(m, d):
    """does a modifies depth m allow a write at depth d"""
    return m == ANY or m == d or d == TOP
EXT = '<global>'
MANY = 2

MUTATORS = {'append', 'extend', 'update', 'pop', 'clear', 'insert', 'remove', 'setdefault', 'sort', 'popitem', 'add',
            'discard', 'reverse', '__setitem__', '__delitem__', '__setattr__', '__delattr__', '__iadd__',
            'difference_update', 'intersection_update', 'symmetric_difference_update', 'fill', 'resize', 'put', 'itemset'}
# methods of builtin containers / str / numpy / pandas that do not mutate the receiver; the result is a new object whose
# elements may be the receiver's elements
PURE_METHODS = {'keys', 'values', 'items', 'get', 'copy', 'split', 'join', 'startswith', 'endswith', 'lower', 'upper', 'strip',
                'replace', 'format', 'index', 'count', 'search', 'match', 'group', 'groups', 'union', 'intersection', 'difference',
                'issubset', 'issuperset', 'isdisjoint', 'total_seconds', 'weekday', 'toordinal', 'date', 'time', 'astype', 'tolist',
                'lstrip', 'rstrip', 'title', 'capitalize', 'encode', 'decode', 'isdigit', 'isalpha', 'find', 'rfind', 'splitlines',
                'zfill', 'partition', 'rpartition', 'most_common', 'mro', '__getitem__', '__contains__', '__len__', '__iter__',
                '__or__', '__and__', '__dir__', '__eq__', '__ne__', '__hash__', '__repr__', '__str__', '__init__', 'fromkeys',
                'isoformat', 'strftime', 'timestamp', 'rename', 'reindex', 'iloc', 'loc', 'sum', 'min', 'max', 'mean', 'any', 'all',
                'reshape', 'transpose', 'flatten', 'ravel', 'to_dict', 'to_list', 'to_numpy', 'dropna', 'fillna', 'ffill', 'bfill'}
IMMUTABLE_FUNCS = {'len', 'isinstance', 'issubclass', 'type', 'str', 'int', 'float', 'bool', 'repr', 'hash', 'id', 'callable', 'hasattr',
                   'abs', 'round', 'range', 'ord', 'chr', 'any', 'all', 'divmod', 'pow', 'format', 'bytes', 'complex', 'slice', 'print',
                   'super', 'object', 'ValueError', 'KeyError', 'TypeError', 'AttributeError', 'IndexError', 'Exception',
                   'NotImplementedError', 'RuntimeError', 'StopIteration', 'AssertionError', 'frozenset'}
FRESH_CONTAINER_FUNCS = {'dict', 'list', 'tuple', 'set', 'sorted', 'OrderedDict', 'copy', 'copy.copy', 'defaultdict', 'Counter',
                         'collections.OrderedDict', 'sum', 'reduce', 'functools.reduce'}
ONESHOT_FUNCS = {'zip', 'enumerate', 'map', 'filter', 'reversed', 'iter', 'itertools.chain', 'itertools.product'}
ELEMENT_FUNCS = {'min', 'max', 'next', 'getattr'}
DEEP_FUNCS = {'deepcopy', 'copy.deepcopy'}
CONSUMERS = FRESH_CONTAINER_FUNCS | ONESHOT_FUNCS | {'min', 'max', 'next', 'any', 'all', 'frozenset'}
PROTOCOL = ('__getitem__', '__len__', '__iter__', '__contains__', '__eq__', '__getattr__')


# ====================================================================================================== values
class AV:
    """abstract value.  org: origins of the shared parts (of the value itself when lvl == SHARED); cells: alias class of a fresh
    object (every local that may alias, contain or be contained in it shares a cell id); tok: one-shot iterator token;
    cls: ClassInfo when the class of the object is known (self, self.copy(), type(self)(...)); btypes: what BRANCH is relative to"""
    __slots__ = ('lvl', 'org', 'cells', 'tok', 'cls', 'btypes', 'const', 'func', 'elem', 'me')

    def __init__(self, lvl, org=frozenset(), cells=frozenset(), tok=None, cls=None, btypes=None, const=None, func=None, elem=None, me=None):
        self.lvl, self.org, self.cells, self.tok, self.cls, self.btypes, self.const, self.func, self.elem, self.me = \
            lvl, frozenset(org), frozenset(cells), tok, cls, btypes, const, func, elem, me          # me: the creation site instance (aliases share it)

    def but(self, **kw):
        d = {k: getattr(self, k) for k in self.__slots__}
        d.update(kw)
        return AV(**d)

    def key(self):
        return (self.lvl, self.org, self.cells, self.tok, self.cls.key if self.cls else None, self.btypes, self.const,
                id(self.func) if self.func is not None else None, self.elem.key() if self.elem is not None else None, self.me)

    def __repr__(self):
        o = ','.join('%s:%s' % (p, DEPTH[d]) for p, d in sorted(self.org))
        return '%s{%s}%s' % (LVL[self.lvl], o, '~' + str(self.tok) if self.tok else '')


_CTORS = ('class', 'typeof', 'ctor')
IMM = AV(DEEP)                                    # immutable or fresh-all-the-way: can be stored anywhere without harm
GLOBAL = AV(SHARED, [(EXT, ANY)])
MEMO_DECORATORS = ('cache', 'lru_cache', 'cached', 'memoize', 'cache_func')


def deepen(org, to=ANY):
    return frozenset((p, ANY) for p, d in org)


def join(a, b):
    if a is b:
        return a
    lvl = min(a.lvl, b.lvl)
    bt = a.btypes if a.btypes == b.btypes else None
    if lvl == BRANCH and bt is None and not (a.lvl == DEEP or b.lvl == DEEP):
        lvl = SHALLOW
    if lvl == BRANCH and bt is None:
        bt = a.btypes or b.btypes
    el = None
    ea = a.elem if a.elem is not None else (AV(DEEP, (), a.cells) if a.lvl == DEEP else None)
    eb = b.elem if b.elem is not None else (AV(DEEP, (), b.cells) if b.lvl == DEEP else None)
    if ea is not None and eb is not None and (a.elem is not None or b.elem is not None):
        el = join(ea, eb)
    fn = a.func if a.func is b.func else None
    if fn is None and a.func is not None and b.func is not None and a.func[0] in _CTORS and b.func[0] in _CTORS:
        fn = ('ctor', '?')
    return AV(lvl, a.org | b.org, a.cells | b.cells, a.tok if a.tok == b.tok else (a.tok or b.tok),
              a.cls if (a.cls is b.cls) else None, bt, a.const if a.const == b.const else None, fn, el,
              a.me if a.me == b.me else None)


def child(a, branch=False):
    """value read out of `a` (subscript, attribute, iteration element); branch: the element is known to be a branch"""
    if a.elem is not None and not branch:
        return a.elem
    if a.lvl == DEEP:
        return AV(DEEP, (), a.cells)
    if a.lvl == BRANCH and branch:
        return AV(BRANCH, a.org, a.cells, btypes=a.btypes)
    if a.lvl >= SHALLOW:
        return AV(SHARED, deepen(a.org)) if a.org else AV(DEEP, (), a.cells)
    if branch:
        return AV(SHARED, frozenset((p, BR if d in (TOP, BR) else ANY) for p, d in a.org))
    return AV(SHARED, frozenset((p, CH if d == TOP else ANY) for p, d in a.org))


def storable(v):
    """True when storing v into a container cannot make the container less owned"""
    return v.lvl == DEEP


# ====================================================================================================== program index
class ClassInfo:
    def __init__(self, mi, node):
        self.mi, self.node, self.name = mi, node, node.name
        self.key = '%s:%s' % (mi.name, node.name)
        self.methods, self.props, self.attrs = {}, set(), {}
        for n in node.body:
            if isinstance(n, (ast.FunctionDef, ast.AsyncFunctionDef)):
                self.methods[n.name] = n
                if any(ast.unparse(d) in ('property', 'functools.cached_property') for d in n.decorator_list):
                    self.props.add(n.name)
            elif isinstance(n, ast.Assign) and len(n.targets) == 1 and isinstance(n.targets[0], ast.Name) \
                    and isinstance(n.value, ast.Name) and n.value.id in self.methods:
                self.methods[n.targets[0].id] = self.methods[n.value.id]          # __radd__ = __add__
            elif isinstance(n, ast.Assign) and len(n.targets) == 1 and isinstance(n.targets[0], ast.Name) and isinstance(n.value, ast.Name):
                self.attrs[n.targets[0].id] = n.value.id                         # _dict = Dict
        self.bases = [ast.unparse(b) for b in node.bases]


class ModInfo:
    def __init__(self, name):
        self.name = name
        self.mod = front.module(name)
        self.funcs, self.classes, self.imports, self.globals = {}, {}, {}, set()
        for n in self.mod.tree.body:
            self._top(n)

    def _top(self, n):
        if isinstance(n, (ast.FunctionDef, ast.AsyncFunctionDef)):
            self.funcs[n.name] = n
        elif isinstance(n, ast.ClassDef):
            self.classes[n.name] = ClassInfo(self, n)
        elif isinstance(n, ast.ImportFrom) and n.module:
            for a in n.names:
                if n.module.startswith('pyg_base.') and a.name != '*':
                    self.imports[a.asname or a.name] = (n.module.split('.', 1)[1], a.name)
                else:
                    self.imports[a.asname or a.name] = ('!' + n.module, a.name)
        elif isinstance(n, ast.Import):
            for a in n.names:
                self.imports[(a.asname or a.name).split('.')[0]] = ('!' + a.name, None)
        elif isinstance(n, ast.Assign):
            for t in n.targets:
                if isinstance(t, ast.Name):
                    self.globals.add(t.id)
        elif isinstance(n, (ast.If, ast.Try)):
            for sub in ast.iter_child_nodes(n):
                if isinstance(sub, ast.stmt):
                    self._top(sub)


class Index:
    def __init__(self):
        self.mods = {}

    def mod(self, name):
        if name not in self.mods:
            self.mods[name] = ModInfo(name)
        return self.mods[name]

    def resolve(self, mi, name, depth=0):
        """('func', ModInfo, node, qual) | ('class', ClassInfo) | ('ext', dotted) | ('global', name) | None"""
        if name in mi.funcs:
            return ('func', mi, mi.funcs[name], name)
        if name in mi.classes:
            return ('class', mi.classes[name])
        if name in mi.imports and depth < 6:
            m, n = mi.imports[name]
            if m.startswith('!'):
                return ('ext', '%s.%s' % (m[1:], n) if n else m[1:])
            try:
                return self.resolve(self.mod(m), n, depth + 1)
            except SelectorError:
                return None
        if name in mi.globals:
            return ('global', name)
        return None

    def mro(self, ci, seen=None):
        """depth-first, left-to-right linearisation (the repo's hierarchies are chains); builtin bases appear as strings"""
        seen = seen if seen is not None else set()
        out = [ci]
        seen.add(ci.key)
        for b in ci.bases:
            r = self.resolve(ci.mi, b) if b.isidentifier() else None
            if r and r[0] == 'class':
                if r[1].key not in seen:
                    out += self.mro(r[1], seen)
            else:
                out.append(b)
        return out

    def lookup(self, ci, mname, after=None):
        """method `mname` for an instance of ci -> (ClassInfo, node) | ('builtin', basename) | None.
        after: start behind that class in the MRO (super(after, self))"""
        chain = self.mro(ci)
        if after is not None:
            keys = [c.key if isinstance(c, ClassInfo) else c for c in chain]
            chain = chain[keys.index(after.key) + 1:] if after.key in keys else chain
        for c in chain:
            if isinstance(c, ClassInfo):
                if mname in c.methods:
                    return (c, c.methods[mname])
            elif c in ('dict', 'list', 'set', 'object', 'tuple', 'OrderedDict'):
                return ('builtin', c)
        return None


# ====================================================================================================== results / summaries
class Res:
    def __init__(self, name, ok, detail, where, kind='frame', assumed=False):
        self.name, self.ok, self.detail, self.where, self.kind, self.assumed = name, ok, detail, where, kind, assumed

    def as_dict(self):
        return dict(name=self.name, ok=self.ok, detail=self.detail, where=self.where, kind=self.kind, assumed=self.assumed)

    def __repr__(self):
        return '%s %s %s [%s] %s' % ('ok  ' if self.ok else 'FAIL', self.kind, self.name, self.where, self.detail)


class Summary:
    def __init__(self):
        self.mut = {}            # (param, depth) -> description of one site
        self.ext = []            # descriptions of sites mutating globals / objects of unknown origin
        self.captures = set()    # (src_param, dst_param, 'leaf' | 'any')
        self.result = IMM        # in terms of the callee's parameters
        self.iters = {}          # param -> 1 | MANY  (how often the parameter, taken as a one-shot iterator, is consumed)
        self.brparam = None      # the parameter that BR depths / a BRANCH result are relative to
        self.assumed = set()
        self.is_gen = False
        self.constructors = set()  # parameters that must be classes / constructors returning a new, empty object

    def key(self):
        return (tuple(sorted(self.mut)), bool(self.ext), tuple(sorted(self.captures)), self.result.key(), tuple(sorted(self.iters.items())),
                self.brparam, self.is_gen)


def parse_modifies(spec):
    """{} | None | 'top(self)' | ['branches(tree)', 'deep(x)'] | {'tree': 'branches'}  ->  {param: depth}"""
    names = {'top': TOP, 'branches': BR, 'branch': BR, 'deep': ANY, 'elements': CH}
    if not spec:
        return {}
    if isinstance(spec, dict):
        return {p: (names[d] if isinstance(d, str) else d) for p, d in spec.items()}
    if isinstance(spec, str):
        spec = [spec]
    out = {}
    for s in spec:
        s = s.strip()
        f, _, rest = s.partition('(')
        out[rest.rstrip(')').strip()] = names[f.strip()]
    return out


def show_modifies(m):
    return ', '.join('%s(%s)' % (DEPTH[d], p) for p, d in sorted(m.items())) or 'nothing'


# ====================================================================================================== analysis state
class St:
    def __init__(self):
        self.env, self.known, self.ver, self.cnt, self.tokdepth = {}, {}, {}, {}, {}
        self.depth, self.dead = 0, False

    def fork(self):
        s = St()
        s.env, s.known, s.ver, s.cnt, s.tokdepth = dict(self.env), dict(self.known), dict(self.ver), dict(self.cnt), dict(self.tokdepth)
        s.depth, s.dead = self.depth, self.dead
        return s

    def key(self):
        return (tuple(sorted((k, v.key()) for k, v in self.env.items())), tuple(sorted((k, v[0].key()) for k, v in self.known.items())),
                tuple(sorted((str(k), v) for k, v in self.cnt.items())), self.dead)

    def take(self, o):
        self.env, self.known, self.ver, self.cnt, self.tokdepth, self.dead = o.env, o.known, o.ver, o.cnt, o.tokdepth, o.dead


def close_cells(st):
    """entries whose alias classes intersect get the union (classes stay closed after joins)"""
    changed = True
    while changed:
        changed = False
        items = [(n, a) for n, a in st.env.items() if a.cells]
        for i, (n, a) in enumerate(items):
            for m, b in items[i + 1:]:
                if a.cells & b.cells and a.cells != b.cells:
                    u = a.cells | b.cells
                    st.env[n] = st.env[n].but(cells=u)
                    st.env[m] = st.env[m].but(cells=u)
                    changed = True
            if changed:
                break


def join_states(a, b):
    if a.dead and not b.dead:
        return b.fork()
    if b.dead:
        return a.fork()
    s = St()
    s.depth = a.depth
    for n in set(a.env) | set(b.env):
        if n in a.env and n in b.env:
            s.env[n] = join(a.env[n], b.env[n])
        else:
            s.env[n] = a.env.get(n) or b.env.get(n)
    for k in set(a.known) & set(b.known):
        s.known[k] = (join(a.known[k][0], b.known[k][0]), a.known[k][1])
    for n in set(a.ver) | set(b.ver):
        s.ver[n] = max(a.ver.get(n, 0), b.ver.get(n, 0))
    for t in set(a.cnt) | set(b.cnt):
        s.cnt[t] = max(a.cnt.get(t, 0), b.cnt.get(t, 0))
    for t in set(a.tokdepth) | set(b.tokdepth):
        s.tokdepth[t] = min(a.tokdepth.get(t, 99), b.tokdepth.get(t, 99))
    close_cells(s)
    return s


_cell = [0]


def new_cell():
    _cell[0] += 1
    return frozenset([_cell[0]])


def fresh(lvl, org=(), cells=frozenset(), **kw):
    org = frozenset(org)
    if lvl < DEEP and not org:
        lvl = DEEP                                # nothing shared can be reached
    c = new_cell()
    return AV(lvl, org, c | cells, me=min(c), **kw)


def _names(e):
    return frozenset(n.id for n in ast.walk(e) if isinstance(n, ast.Name))


def _simple(e):
    """expressions facts may be keyed on: names, attribute chains, subscripts of simple expressions with simple indices"""
    if isinstance(e, (ast.Name, ast.Constant)):
        return True
    if isinstance(e, ast.Attribute):
        return _simple(e.value)
    if isinstance(e, ast.UnaryOp) and isinstance(e.op, ast.USub):
        return _simple(e.operand)
    if isinstance(e, ast.Subscript):
        return _simple(e.value) and not isinstance(e.slice, ast.Slice) and _simple(e.slice)
    return False


def _numeric_expr(e):
    """syntactically a number: x += <this> can only act on a number (or a numpy array, which the report lists as an assumption)"""
    if isinstance(e, ast.Constant):
        return isinstance(e.value, (int, float, complex)) and not isinstance(e.value, bool)
    if isinstance(e, ast.UnaryOp) and isinstance(e.op, (ast.USub, ast.UAdd)):
        return _numeric_expr(e.operand)
    if isinstance(e, ast.BinOp):
        if isinstance(e.op, (ast.FloorDiv, ast.Div, ast.Pow)):
            return True
        if isinstance(e.op, (ast.Add, ast.Sub, ast.Mod)):
            return _numeric_expr(e.left) or _numeric_expr(e.right)
        if isinstance(e.op, ast.Mult):
            return _numeric_expr(e.left) and _numeric_expr(e.right)
    if isinstance(e, ast.Call) and isinstance(e.func, ast.Name) and e.func.id in ('int', 'float', 'len', 'abs', 'round'):
        return True
    return False


def _numeric_name(fnode, name):
    """every binding of `name` in the function is syntactically a number (a numeric expression, or one of the two results of divmod)"""
    seen = False
    for n in ast.walk(fnode):
        if isinstance(n, ast.arg) and n.arg == name:
            return False
        if isinstance(n, (ast.For, ast.comprehension)) and any(isinstance(x, ast.Name) and x.id == name for x in ast.walk(n.target)):
            return False
        if isinstance(n, (ast.Assign, ast.AugAssign, ast.AnnAssign)):
            tgs = n.targets if isinstance(n, ast.Assign) else [n.target]
            for t in tgs:
                if isinstance(t, ast.Name) and t.id == name:
                    if n.value is None or not _numeric_expr(n.value):
                        return False
                    seen = True
                elif isinstance(t, (ast.Tuple, ast.List)) and any(isinstance(x, ast.Name) and x.id == name for x in t.elts):
                    if not (isinstance(n.value, ast.Call) and isinstance(n.value.func, ast.Name) and n.value.func.id == 'divmod'):
                        return False
                    seen = True
    return seen


def _base_name(e):
    while isinstance(e, (ast.Subscript, ast.Attribute)):
        e = e.value
    return e.id if isinstance(e, ast.Name) else None


class Analyzer:
    """holds the program index, declared contracts and the memo of inferred summaries"""

    def __init__(self, contracts=None, index=None, never_types=()):
        self.ix = index or Index()
        self.never_types = set(never_types)      # path precondition: no value is an instance of these types (e.g. 'pd.DataFrame')
        self.contracts = {}
        for k, c in (contracts or {}).items():
            c = dict(c)
            c['modifies'] = parse_modifies(c.get('modifies'))
            self.contracts[k] = c
        self.table, self.order, self.changed, self.depth = {}, [], False, 0
        self.used_contracts = set()

    # ------------------------------------------------------------------ locating functions
    def locate(self, modname, qual):
        mi = self.ix.mod(modname)
        node = mi.mod.func(qual)
        ci = None
        parts = qual.split('.')
        if len(parts) >= 2 and parts[0] in mi.classes:
            ci = mi.classes[parts[0]]
        return mi, node, ci

    # ------------------------------------------------------------------ summaries
    def contract_summary(self, key, node):
        c = self.contracts[key]
        self.used_contracts.add(key)
        s = Summary()
        s.brparam = c.get('brparam')
        s.constructors = set(c.get('constructors', ()))
        for p, d in c['modifies'].items():
            s.mut[(p, d)] = 'declared: modifies %s(%s)' % (DEPTH[d], p)
        for cap in c.get('captures', ()):
            s.captures.add(tuple(cap))
        for p, n in (c.get('iterates') or {}).items():
            s.iters[p] = n
        r = c.get('result')
        if r is None:
            params = [a.arg for a in node.args.posonlyargs + node.args.args + node.args.kwonlyargs]
            s.result = AV(SHARED, [(p, ANY) for p in params] + [(p, TOP) for p in params])
        elif isinstance(r, AV):
            s.result = r
        else:
            lvl = {'DEEP': DEEP, 'BRANCH': BRANCH, 'SHALLOW': SHALLOW, 'IMM': DEEP}[r[0] if isinstance(r, tuple) else r]
            frm = r[1] if isinstance(r, tuple) else ()
            s.result = AV(lvl, [(p, ANY) for p in frm], btypes=('param', s.brparam) if lvl == BRANCH else None)
        return s

    def summary(self, mi, qual, node, ci, consts=()):
        """current approximation of the callee's summary.  A key met for the first time is analysed at once (depth first, with
        the bottom summary standing in for it while it is in progress); solve() then re-analyses every discovered function
        against the table until nothing changes."""
        ckey = '%s:%s' % (mi.name, qual)
        if ckey in self.contracts:
            return self.contract_summary(ckey, node)
        key = (mi.name, qual, tuple(sorted(consts, key=repr)))
        if key in self.table:
            return self.table[key]
        self.table[key] = Summary()
        self.order.append((key, mi, qual, node, ci, dict(consts)))
        self.changed = True
        if self.depth > 60:
            return self.table[key]
        self.depth += 1
        try:
            fa = FA(self, mi, qual, node, ci, dict(consts))
            fa.run()
        finally:
            self.depth -= 1
        self.table[key] = fa.summary
        return fa.summary

    def solve(self, max_passes=12):
        """global fixpoint over all discovered functions"""
        for _ in range(max_passes):
            self.changed = False
            for key, mi, qual, node, ci, consts in list(self.order):
                fa = FA(self, mi, qual, node, ci, consts)
                fa.run()
                if fa.summary.key() != self.table[key].key():
                    self.table[key] = fa.summary
                    self.changed = True
            if not self.changed:
                return True
        return False


class FA:
    """analysis of one function body"""

    def __init__(self, an, mi, qual, node, ci, consts, modifies=None, label=None):
        self.an, self.ix, self.mi, self.qual, self.node, self.ci = an, an.ix, mi, qual, node, ci
        self.consts = consts
        self.modifies = modifies          # None: inference only
        self.label = label or qual
        self.summary = Summary()
        self.sites = {}                   # (kindstring, id(node)) -> (ok, detail, node, kind, assumed)
        self.returns, self.yields, self.loops, self.exit_states = [], [], [], []
        a = node.args
        self.params = [p.arg for p in a.posonlyargs + a.args + a.kwonlyargs]
        decos = [ast.unparse(d) for d in node.decorator_list]
        self.is_classmethod = 'classmethod' in decos
        self.constructors = set()
        self.selfname = self.params[0] if (ci is not None and self.params and 'staticmethod' not in decos) else None

    # ------------------------------------------------------------------ driver
    def run(self):
        st = St()
        a = self.node.args
        for p in self.params:
            if p == self.selfname:
                st.env[p] = AV(DEEP, func=('class', self.ci)) if self.is_classmethod else AV(SHARED, [(p, TOP)], cls=self.ci)
            elif p in self.consts and not p.startswith('@'):
                st.env[p] = AV(DEEP, const=('c', self.consts[p]))
            elif p in self.constructors:
                st.env[p] = AV(DEEP, func=('ctor', p))
            else:
                st.env[p] = AV(SHARED, [(p, TOP)], tok=('param', p))
                st.tokdepth[('param', p)] = 0
        if a.vararg:
            st.env[a.vararg.arg] = AV(SHALLOW, [(a.vararg.arg, ANY)], new_cell())
        if a.kwarg:
            st.env[a.kwarg.arg] = AV(SHALLOW, [(a.kwarg.arg, ANY)], new_cell())
        for c in self.consts:
            if c.startswith('@not:'):
                _, n, t = c.split(':', 2)
                st.known['notinst:%s:%s' % (n, t)] = (IMM, frozenset([n]))
            elif c.startswith('@in:'):
                _, k, x = c.split(':', 2)
                st.known['%s in %s' % (k, x)] = (IMM, frozenset([k, x]))
        self.block(st, front.strip_doc(self.node.body))
        if not st.dead:
            self.returns.append(IMM)
            self.exit_states.append(st)
        res = None
        for r in self.returns:
            res = r if res is None else join(res, r)
        res = res or IMM
        if self.yields:
            el = None
            for y in self.yields:
                el = y if el is None else join(el, y)
            self.summary.is_gen = True
            res = AV(DEEP if el.lvl == DEEP else SHALLOW, deepen(el.org), elem=el)
        # a memoised function hands out the object its memo table keeps: whatever the body builds, callers share it with later callers
        if any(ast.unparse(d).split('(')[0].split('.')[-1] in MEMO_DECORATORS for d in self.node.decorator_list):
            res = join(res, GLOBAL)
        bt = res.btypes
        if res.lvl == BRANCH:
            if bt and bt[0] == 'param':
                pass
            elif bt and bt[0] == self.summary.brparam and bt[1] == 0:
                bt = ('param', bt[0])
            else:
                bt, res = None, res.but(lvl=SHALLOW)
        elem = res.elem.but(cells=frozenset(), tok=None, func=None, elem=None, me=None) if res.elem is not None else None
        const = res.const if (res.const and res.const[1] in (True, False, None)) else None
        self.summary.result = AV(res.lvl, res.org, (), None, res.cls, bt if res.lvl == BRANCH else None, const, None, elem)
        for s in self.exit_states:
            for t, n in s.cnt.items():
                if t[0] == 'param' and n:
                    self.summary.iters[t[1]] = max(self.summary.iters.get(t[1], 0), n)

    # ------------------------------------------------------------------ reporting
    def site(self, kindstr, node, ok, detail, kind='frame', assumed=False):
        k = (kindstr, id(node))
        old = self.sites.get(k)
        if old is not None and not old[0]:
            return
        self.sites[k] = (ok, detail, node, kind, assumed)

    def results(self):
        groups = {}
        for (ks, _), v in self.sites.items():
            groups.setdefault((v[3], ks), []).append(v)
        out = []
        for (kind, ks), vs in groups.items():
            vs.sort(key=lambda v: (getattr(v[2], 'lineno', 0), getattr(v[2], 'col_offset', 0)))
            for i, (ok, detail, node, kind, assumed) in enumerate(vs):
                name = '%s.%s.%s%s' % (self.label, kind, ks, '' if len(vs) == 1 else '#%d' % i)
                out.append(Res(name, ok, detail, self.mi.mod.lines(node), kind, assumed))
        out.sort(key=lambda r: r.name)
        return out

    def assume(self, what):
        self.summary.assumed.add(what)

    # ------------------------------------------------------------------ effects
    def effect(self, p, d, desc):
        """record that an object at depth d of parameter p is mutated; returns whether the function's modifies clause allows it"""
        if p == EXT:
            if desc not in self.summary.ext and len(self.summary.ext) < 12:
                self.summary.ext.append(desc)
            # a modifies clause may name module-level state (`<global>`): a memo table or registry is then the function's own business
            return bool(self.modifies) and EXT in self.modifies
        self.summary.mut.setdefault((p, d), desc)
        if self.modifies is None:
            return True
        return p in self.modifies and covers(self.modifies[p], d)

    def mutate(self, st, av, node, kindstr, what):
        """a direct mutation of the object av (its top)"""
        if av.lvl >= SHALLOW:
            self.site(kindstr, node, True, '%s: target is %s (created here)' % (what, LVL[av.lvl]))
            return
        ok, bad = True, []
        org = av.org or frozenset([(EXT, ANY)])
        for p, d in sorted(org):
            if not self.effect(p, d, '%s at %s' % (what, self.mi.mod.lines(node))):
                ok = False
                bad.append('%s(%s)' % (DEPTH[d], p) if p != EXT else 'a global / an object of unknown origin')
        if ok:
            self.site(kindstr, node, True, '%s: target lies in %s, allowed by modifies %s' % (
                what, ', '.join('%s(%s)' % (DEPTH[d], p) for p, d in sorted(org)), show_modifies(self.modifies or {})))
        else:
            self.site(kindstr, node, False, '%s: target is SHARED and may be %s; the modifies clause allows %s' % (
                what, ' / '.join(bad), show_modifies(self.modifies or {})))

    def downgrade(self, st, cont, lvl, org, keep_bt=None, v=None):
        """a non-fresh value v has been stored into the fresh object cont: every local that may alias cont, contain it or be contained
        in it is lowered; only possible aliases (same creation instance, or unknown) take v as a new element"""
        vv = v.but(tok=None, const=None, func=None) if v is not None else None

        def lower(a, depth=0):
            if a is None or not (a.cells & cont.cells) or depth > 4:
                return a
            nl = min(a.lvl, lvl)
            alias = a.me is None or cont.me is None or a.me == cont.me
            if alias:
                el = join(a.elem, vv) if (a.elem is not None and vv is not None) else None
            else:
                el = lower(a.elem, depth + 1)
            return a.but(lvl=nl, org=a.org | org, btypes=(a.btypes or keep_bt) if nl == BRANCH else None, elem=el, const=None)
        for n, a in list(st.env.items()):
            if a.cells & cont.cells:
                st.env[n] = lower(a)
        for k, (a, ns) in list(st.known.items()):
            if a.cells & cont.cells:
                st.known[k] = (lower(a), ns)

    def link(self, st, c1, c2):
        if not c1 or not c2:
            return
        u = c1 | c2
        for n, a in list(st.env.items()):
            if a.cells & u:
                st.env[n] = a.but(cells=a.cells | u)

    def forget(self, st, name, keep=None):
        for k in [k for k, (_, ns) in st.known.items() if name in ns and k != keep]:
            del st.known[k]

    def forget_aliases(self, st, cont, keep=None):
        """facts about elements read through a name that may alias the mutated object are dropped"""
        for k, (_, ns) in list(st.known.items()):
            if k == keep:
                continue
            for n in ns:
                a = st.env.get(n)
                if a is None:
                    continue
                if (a.cells & cont.cells) or (a.lvl == SHARED and cont.lvl == SHARED and {p for p, _ in a.org} & {p for p, _ in cont.org}):
                    st.known.pop(k, None)
                    break

    def capture(self, st, cont, v, leafstore=False):
        """v is stored into the object cont"""
        if cont.lvl >= SHALLOW:
            if not storable(v):
                if cont.lvl >= BRANCH and v.lvl >= BRANCH and (v.btypes == cont.btypes or cont.lvl == DEEP or v.lvl == DEEP):
                    to = BRANCH
                elif leafstore and cont.lvl >= BRANCH:
                    to = BRANCH
                else:
                    to = SHALLOW
                self.downgrade(st, cont, to, deepen(v.org), keep_bt=v.btypes or cont.btypes, v=v)
            if v.cells:
                self.link(st, cont.cells, v.cells)
        else:
            for p, d in cont.org:
                if p == EXT:
                    continue
                kind = 'leaf' if (self.summary.brparam and d in (TOP, BR)) else 'any'
                for q, e in v.org:
                    if q != EXT and q != p:
                        self.summary.captures.add((q, p, kind))

    # ------------------------------------------------------------------ tokens
    def consume(self, st, av, node, n=1, what='iterated'):
        t = av.tok
        if t is None:
            return
        inc = n
        if st.depth > st.tokdepth.get(t, 0):
            inc = MANY
        new = min(MANY, st.cnt.get(t, 0) + inc)
        st.cnt[t] = new
        if t[0] == 'gen':
            ok = new < MANY
            self.site('oneshot_iterator_consumed_once', node, ok,
                      'the one-shot iterator created at line %s is %s %s' % (t[2], what, 'once' if ok else 'more than once (or inside a loop entered after its creation)'),
                      kind='linearity')

    # ------------------------------------------------------------------ expressions
    def ev(self, st, e):
        m = getattr(self, 'e_' + type(e).__name__, None)
        if m is None:
            for c in ast.iter_child_nodes(e):
                if isinstance(c, ast.expr):
                    self.ev(st, c)
            return GLOBAL
        return m(st, e)

    def e_Constant(self, st, e):
        return AV(DEEP, const=('c', e.value))

    def e_JoinedStr(self, st, e):
        for v in e.values:
            self.ev(st, v)
        return IMM

    def e_FormattedValue(self, st, e):
        self.ev(st, e.value)
        return IMM

    def e_Name(self, st, e):
        if e.id in st.env:
            return st.env[e.id]
        r = self.ix.resolve(self.mi, e.id)
        if r is not None and r[0] in ('func', 'class', 'ext'):
            return AV(DEEP, func=r)
        if r is not None:
            return GLOBAL
        if e.id in ('True', 'False', 'None'):
            return IMM
        return AV(DEEP, func=('builtin', e.id))

    def _container(self, st, elems):
        lvl, org, cells, el = DEEP, frozenset(), frozenset(), None
        for v in elems:
            if not storable(v):
                lvl = SHALLOW
            org |= deepen(v.org)
            cells |= v.cells
            ve = v.but(tok=None, const=None, func=None)
            el = ve if el is None else join(el, ve)
        c = new_cell()
        return AV(lvl, org, c | cells, elem=el if el is not None else IMM, me=min(c))

    def e_Tuple(self, st, e):
        vs = []
        for x in e.elts:
            if isinstance(x, ast.Starred):
                v = self.ev(st, x.value)
                self.consume(st, v, x, what='unpacked')
                vs.append(child(v))
            else:
                vs.append(self.ev(st, x))
        return self._container(st, vs)

    e_List = e_Tuple
    e_Set = e_Tuple

    def e_Dict(self, st, e):
        vs = []
        for k, v in zip(e.keys, e.values):
            if k is None:
                vs.append(child(self.ev(st, v)))
            else:
                self.ev(st, k)
                vs.append(self.ev(st, v))
        return self._container(st, vs)

    def _comp(self, st, e, elts, gen=False, extra=()):
        saved = {}
        depth0 = st.depth
        for g in e.generators:
            it = self.ev(st, g.iter)
            self.consume(st, it, g.iter)
            st.depth += 1
            for n in ast.walk(g.target):
                if isinstance(n, ast.Name) and n.id not in saved:
                    saved[n.id] = st.env.get(n.id)
            self.bind(st, g.target, self.iter_elem(st, it, g.iter), None)
            for c in g.ifs:
                self.ev(st, c)
        for x in extra:
            self.ev(st, x)
        vs = [self.ev(st, x) for x in elts]
        st.depth = depth0
        for n, old in saved.items():
            if old is None:
                st.env.pop(n, None)
            else:
                st.env[n] = old
            self.forget(st, n)
        r = self._container(st, vs)
        if gen:
            tok = ('gen', id(e), e.lineno)
            st.tokdepth[tok] = st.depth
            st.cnt[tok] = 0
            r = r.but(tok=tok)
        return r

    def e_ListComp(self, st, e):
        return self._comp(st, e, [e.elt])

    e_SetComp = e_ListComp

    def e_DictComp(self, st, e):
        return self._comp(st, e, [e.value], extra=[e.key])

    def e_GeneratorExp(self, st, e):
        return self._comp(st, e, [e.elt], gen=True)

    def e_BinOp(self, st, e):
        a, b = self.ev(st, e.left), self.ev(st, e.right)
        if a.cls is not None:
            name = {'Add': '__add__', 'Sub': '__sub__', 'Mult': '__mul__', 'BitAnd': '__and__', 'BitOr': '__or__', 'Div': '__truediv__',
                    'BitXor': '__xor__', 'Mod': '__mod__'}.get(type(e.op).__name__)
            hit = self.ix.lookup(a.cls, name) if name else None
            if hit and hit[0] != 'builtin':
                return self.call_method_node(st, e, hit, a, [b], {}, [e.right], name)
        if isinstance(e.op, ast.Mod) and a.const is not None:
            return IMM
        if not a.org and not b.org and a.lvl == DEEP and b.lvl == DEEP:
            return AV(DEEP, (), a.cells | b.cells)
        return fresh(SHALLOW, deepen(a.org | b.org), a.cells | b.cells)

    def e_UnaryOp(self, st, e):
        self.ev(st, e.operand)
        return IMM

    def e_Compare(self, st, e):
        self.ev(st, e.left)
        for op, c in zip(e.ops, e.comparators):
            v = self.ev(st, c)
            if isinstance(op, (ast.In, ast.NotIn)):
                self.consume(st, v, c, what='searched with `in`')
        return IMM

    def e_BoolOp(self, st, e):
        r = None
        for v in e.values:
            a = self.ev(st, v)
            r = a if r is None else join(r, a)
        return r.but(const=None)

    def e_IfExp(self, st, e):
        t = self.ev(st, e.test)
        tv = self.truth(st, e.test, t)
        if tv is True:
            return self.ev(st, e.body)
        if tv is False:
            return self.ev(st, e.orelse)
        s1 = st.fork()
        self.learn(s1, e.test, True)
        a = self.ev(s1, e.body)
        s2 = st.fork()
        self.learn(s2, e.test, False)
        b = self.ev(s2, e.orelse)
        st.take(join_states(s1, s2))
        return join(a, b)

    def e_Lambda(self, st, e):
        return AV(DEEP, func=('lambda', e))

    def e_NamedExpr(self, st, e):
        v = self.ev(st, e.value)
        self.bind(st, e.target, v, e.value)
        return v

    def e_Starred(self, st, e):
        return self.ev(st, e.value)

    def e_Await(self, st, e):
        return self.ev(st, e.value)

    def e_Yield(self, st, e):
        self.yields.append(self.ev(st, e.value) if e.value is not None else IMM)
        return IMM

    def e_YieldFrom(self, st, e):
        v = self.ev(st, e.value)
        self.consume(st, v, e.value)
        self.yields.append(child(v))
        return IMM

    def e_Attribute(self, st, e):
        text = ast.unparse(e)
        if text in st.known:
            return st.known[text][0]
        b = self.ev(st, e.value)
        if b.func is not None and b.func[0] == 'ext':
            return AV(DEEP, func=('ext', '%s.%s' % (b.func[1], e.attr)))
        if b.func is not None and b.func[0] == 'class':
            hit = self.ix.lookup(b.func[1], e.attr)
            if hit and hit[0] != 'builtin':
                return AV(DEEP, func=('method', hit, b))
            return GLOBAL
        if b.cls is not None:
            hit = self.ix.lookup(b.cls, e.attr)
            if hit and hit[0] != 'builtin':
                if e.attr in hit[0].props:
                    return self.call_method(st, e, hit, b, ([], [], [], {}, {}, []), e.attr, recv_expr=e.value)
                return AV(DEEP, func=('method', hit, b))
            for c in self.ix.mro(b.cls):
                if isinstance(c, ClassInfo) and e.attr in c.attrs:
                    r = self.ix.resolve(c.mi, c.attrs[e.attr])
                    if r is not None and r[0] in ('func', 'class'):
                        return AV(DEEP, func=r)
                    break
        return child(b)

    def e_Subscript(self, st, e):
        text = ast.unparse(e)
        if text in st.known:
            self.ev(st, e.value)
            return st.known[text][0]
        b = self.ev(st, e.value)
        if isinstance(e.slice, ast.Slice):
            for x in (e.slice.lower, e.slice.upper, e.slice.step):
                if x is not None:
                    self.ev(st, x)
            return b.but(tok=None, const=None)
        self.ev(st, e.slice)
        if b.cls is not None:
            hit = self.ix.lookup(b.cls, '__getitem__')
            if hit and hit[0] != 'builtin':
                return self.call_method_node(st, e, hit, b, [self.ev(st, e.slice)], {}, [e.slice], '__getitem__')
        return child(b)

    def e_Slice(self, st, e):
        return IMM

    # ------------------------------------------------------------------ tests and facts
    def truth(self, st, test, av):
        if av.const is not None:
            try:
                return bool(av.const[1])
            except Exception:      # noqa
                return None
        if isinstance(test, ast.BoolOp):
            ts = [self.truth(st, v, self.ev(st.fork(), v)) for v in test.values]
            if isinstance(test.op, ast.And):
                return False if any(t is False for t in ts) else (True if all(t is True for t in ts) else None)
            return True if any(t is True for t in ts) else (False if all(t is False for t in ts) else None)
        if isinstance(test, ast.Compare) and len(test.ops) == 1 and isinstance(test.ops[0], (ast.Is, ast.IsNot, ast.Eq, ast.NotEq)):
            l, r = self.ev(st, test.left), self.ev(st, test.comparators[0])
            if l.const is not None and r.const is not None and (l.const[1] is None or r.const[1] is None or isinstance(l.const[1], bool)):
                same = (l.const[1] is r.const[1]) if isinstance(test.ops[0], (ast.Is, ast.IsNot)) else (l.const[1] == r.const[1])
                return same if isinstance(test.ops[0], (ast.Is, ast.Eq)) else not same
        if isinstance(test, ast.UnaryOp) and isinstance(test.op, ast.Not):
            t = self.truth(st, test.operand, self.ev(st, test.operand))
            return None if t is None else (not t)
        return None

    def learn(self, st, test, truth):
        if isinstance(test, ast.UnaryOp) and isinstance(test.op, ast.Not):
            return self.learn(st, test.operand, not truth)
        if isinstance(test, ast.BoolOp):
            if isinstance(test.op, ast.And) and truth or isinstance(test.op, ast.Or) and not truth:
                for v in test.values:
                    self.learn(st, v, truth)
            return
        if isinstance(test, ast.Compare) and len(test.ops) == 1 and isinstance(test.ops[0], (ast.In, ast.NotIn)) \
                and isinstance(test.left, ast.Name) and isinstance(test.comparators[0], ast.Name):
            if truth == isinstance(test.ops[0], ast.In):
                k, x = test.left.id, test.comparators[0].id
                xv = st.env.get(x)
                builtin_contains = xv is not None and (xv.cls is None or (self.ix.lookup(xv.cls, '__contains__') or ('builtin',))[0] == 'builtin')
                if builtin_contains:
                    st.known['%s in %s' % (k, x)] = (IMM, frozenset([k, x]))
            return
        if isinstance(test, ast.Call) and isinstance(test.func, ast.Name) and test.func.id == 'isinstance' and len(test.args) == 2 and not truth \
                and isinstance(test.args[0], ast.Name):
            t = test.args[1]
            for nm in ([ast.unparse(x) for x in t.elts] if isinstance(t, ast.Tuple) else [ast.unparse(t)]):
                st.known['notinst:%s:%s' % (test.args[0].id, nm)] = (IMM, frozenset([test.args[0].id]))
            return
        if isinstance(test, ast.Compare) and len(test.ops) == 1 and isinstance(test.ops[0], (ast.Eq, ast.Is)) and truth:
            l, r = test.left, test.comparators[0]
            if all(isinstance(x, ast.Call) and isinstance(x.func, ast.Name) and x.func.id == 'type' and len(x.args) == 1 for x in (l, r)):
                for x, y in ((l.args[0], r.args[0]), (r.args[0], l.args[0])):
                    c = self.ev(st, y).cls
                    if c is not None and _simple(x):
                        if isinstance(x, ast.Name) and x.id in st.env:
                            st.env[x.id] = st.env[x.id].but(cls=c)
                        else:
                            st.known[ast.unparse(x)] = (self.ev(st, x).but(cls=c), _names(x))
                return
        if isinstance(test, ast.Call) and isinstance(test.func, ast.Name) and test.func.id == 'isinstance' and len(test.args) == 2 and truth:
            x, t = test.args
            if isinstance(t, ast.Name) and isinstance(x, ast.Name) and x.id in st.env and st.env[x.id].cls is None:
                r = self.ix.resolve(self.mi, t.id)
                if r and r[0] == 'class':
                    st.env[x.id] = st.env[x.id].but(cls=r[1])
                    return
            if isinstance(t, ast.Name) and t.id in self.params and st.ver.get(t.id, 0) == 0 and _simple(x) \
                    and isinstance(x, (ast.Subscript, ast.Attribute)) and self.summary.brparam in (None, t.id):
                base = self.ev(st, x.value)
                if base.lvl == BRANCH and not (base.btypes and base.btypes[0] in (t.id,)):
                    return
                self.summary.brparam = t.id
                st.known[ast.unparse(x)] = (child(base, branch=True), _names(x))
            return
        if isinstance(test, ast.Compare) and len(test.ops) == 1 and isinstance(test.ops[0], (ast.Is, ast.IsNot)) \
                and isinstance(test.left, ast.Name) and isinstance(test.comparators[0], ast.Constant) and test.comparators[0].value is None:
            is_none = truth == isinstance(test.ops[0], ast.Is)
            if is_none and test.left.id in st.env:
                st.env[test.left.id] = AV(DEEP, const=('c', None))

    # ------------------------------------------------------------------ calls
    def _args(self, st, e):
        pos, pos_e, star, kw, kw_e, dstar = [], [], [], {}, {}, []
        for a in e.args:
            if isinstance(a, ast.Starred):
                v = self.ev(st, a.value)
                self.consume(st, v, a, what='unpacked with *')
                star.append(child(v))
            else:
                pos.append(self.ev(st, a))
                pos_e.append(a)
        for k in e.keywords:
            v = self.ev(st, k.value)
            if k.arg is None:
                dstar.append(child(v))
            else:
                kw[k.arg] = v
                kw_e[k.arg] = k.value
        return pos, pos_e, star, kw, kw_e, dstar

    def e_Call(self, st, e):
        f = e.func
        A = self._args(st, e)
        if isinstance(f, ast.Attribute):
            if isinstance(f.value, ast.Call) and isinstance(f.value.func, ast.Name) and f.value.func.id == 'super':
                return self.call_super(st, e, A)
            recv = self.ev(st, f.value)
            if recv.func is not None and recv.func[0] == 'ext':
                return self.builtin_call(st, e, '%s.%s' % (recv.func[1], f.attr), A)
            if recv.func is not None and recv.func[0] == 'class':
                hit = self.ix.lookup(recv.func[1], f.attr)
                if hit and hit[0] != 'builtin':
                    decos = [ast.unparse(d) for d in hit[1].decorator_list]
                    if 'classmethod' in decos:
                        return self.call_method(st, e, hit, recv, A, f.attr)
                    if 'staticmethod' in decos:
                        return self.call_func(st, e, hit[0].mi, '%s.%s' % (hit[0].name, f.attr), hit[1], hit[0], A, f.attr)
                    if A[0]:                                                   # C.m(obj, ...)
                        return self.call_method(st, e, hit, A[0][0], (A[0][1:], A[1][1:]) + A[2:], f.attr, recv_expr=A[1][0])
                return self.unknown_call(st, e, ast.unparse(f), A, recv)
            if recv.cls is not None:
                hit = self.ix.lookup(recv.cls, f.attr)
                if hit and hit[0] != 'builtin':
                    return self.call_method(st, e, hit, recv, A, f.attr, recv_expr=f.value)
                for c in self.ix.mro(recv.cls):
                    if isinstance(c, ClassInfo) and f.attr in c.attrs:
                        return self.call_value(st, e, self.e_Attribute(st, f), A, ast.unparse(f))
                if hit:
                    return self.builtin_method(st, e, recv, f.attr, A, f.value)
                return self.call_value(st, e, self.e_Attribute(st, f), A, ast.unparse(f))        # a callable stored as an attribute
            return self.builtin_method(st, e, recv, f.attr, A, f.value)
        fv = self.ev(st, f)
        return self.call_value(st, e, fv, A, ast.unparse(f)[:40])

    def call_value(self, st, e, fv, A, label):
        k = fv.func
        if k is None and fv.cls is not None:
            hit = self.ix.lookup(fv.cls, '__call__')
            if hit and hit[0] != 'builtin':
                return self.call_method(st, e, hit, fv, A, '__call__', recv_expr=e.func if isinstance(e.func, ast.Name) else None)
        if k is None:
            return self.unknown_call(st, e, label, A, None, callback=True)
        if k[0] == 'func':
            return self.call_func(st, e, k[1], k[3], k[2], None, A, k[3])
        if k[0] == 'class':
            return self.construct(st, e, k[1], A)
        if k[0] == 'typeof':
            if k[1].cls is not None:
                return self.construct(st, e, k[1].cls, A)
            pos = A[0] + A[2] + list(A[3].values()) + A[5]
            r = self._container(st, [child(v) for v in pos])
            for v, x in zip(A[0], A[1]):
                self.consume(st, v, x, what='passed to a constructor')
            return r.but(elem=child(pos[0]) if len(pos) == 1 else r.elem)
        if k[0] == 'ctor':
            pos = A[0] + A[2] + list(A[3].values()) + A[5]
            return self._container(st, [child(v) for v in pos])
        if k[0] in ('ext', 'builtin'):
            return self.builtin_call(st, e, k[1], A)
        if k[0] == 'method':
            return self.call_method(st, e, k[1], k[2], A, label)
        if k[0] == 'lambda':
            lam = k[1]
            saved = dict(st.env)
            names = [a.arg for a in lam.args.args]
            for n, v in zip(names, A[0] + A[2]):
                st.env[n] = v.but(tok=None)
            for n in names[len(A[0] + A[2]):]:
                st.env[n] = A[3].get(n, GLOBAL)
            r = self.ev(st, lam.body)
            for n in names:
                if n in saved:
                    st.env[n] = saved[n]
                else:
                    st.env.pop(n, None)
            return r
        return self.unknown_call(st, e, label, A, None)

    def call_super(self, st, e, A):
        f = e.func
        mname = f.attr
        sargs = f.value.args
        ci = self.ci
        if ci is None:
            return self.unknown_call(st, e, 'super().%s' % mname, A, None)
        recv = st.env.get(self.selfname, GLOBAL)
        if len(sargs) == 2 and isinstance(sargs[0], ast.Name):
            r = self.ix.resolve(self.mi, sargs[0].id)
            if r and r[0] == 'class':
                ci = r[1]
            recv = self.ev(st, sargs[1])
        hit = self.ix.lookup(recv.cls or ci, mname, after=ci)
        if hit and hit[0] != 'builtin':
            return self.call_method(st, e, hit, recv, A, mname)
        return self.builtin_method(st, e, recv.but(cls=None), mname, A, None)

    def call_func(self, st, e, mi, qual, fnode, ci, A, label):
        pos, pos_e, star, kw, kw_e, dstar = A
        consts = self._consts(fnode, pos, kw, bound=0, open_=bool(star or dstar))
        S = self.an.summary(mi, qual, fnode, ci, consts)
        return self.apply(st, e, S, fnode, pos, kw, pos_e, kw_e, star, dstar, label)

    def _facts(self, st, fnode, exprs):
        """`K in X` / `not isinstance(N, T)` facts about actuals that are plain names, renamed to the callee's parameters"""
        a = fnode.args
        params = [p.arg for p in a.posonlyargs + a.args]
        names = {}
        for p, x in zip(params, exprs):
            if isinstance(x, ast.Name):
                names.setdefault(x.id, p)
        out = []
        for k in st.known:
            if k.startswith('notinst:'):
                _, n, t = k.split(':', 2)
                if n in names:
                    out.append(('@not:%s:%s' % (names[n], t), True))
            elif ' in ' in k and '[' not in k and '.' not in k:
                kk, _, xx = k.partition(' in ')
                if kk in names and xx in names:
                    out.append(('@in:%s:%s' % (names[kk], names[xx]), True))
        return tuple(sorted(out))

    def call_method(self, st, e, hit, recv, A, label, recv_expr=None):
        ci, fnode = hit
        pos, pos_e, star, kw, kw_e, dstar = A
        consts = self._consts(fnode, [recv] + pos, kw, bound=1, open_=bool(star or dstar))
        if not (star or dstar):
            consts = consts + self._facts(st, fnode, [recv_expr] + list(pos_e))
        S = self.an.summary(ci.mi, '%s.%s' % (ci.name, fnode.name), fnode, ci, consts)
        return self.apply(st, e, S, fnode, [recv] + pos, kw, [recv_expr] + pos_e, kw_e, star, dstar, '%s.%s' % (ci.name, label))

    def call_method_node(self, st, node, hit, recv, pos, kw, pos_e, label):
        return self.call_method(st, node, hit, recv, (pos, pos_e, [], kw, {}, []), label)

    def _consts(self, fnode, pos, kw, bound, open_):
        """constant (True / False / None) actuals and defaults the callee is specialised on"""
        a = fnode.args
        params = [p.arg for p in a.posonlyargs + a.args]
        defaults = dict(zip(params[len(params) - len(a.defaults):], a.defaults))
        for p, d in zip(a.kwonlyargs, a.kw_defaults):
            params.append(p.arg)
            if d is not None:
                defaults[p.arg] = d
        out = []
        for i, p in enumerate(params):
            v = None
            if i < len(pos) and i < len(a.posonlyargs + a.args):
                v = pos[i]
            elif p in kw:
                v = kw[p]
            elif p in defaults and not open_ and isinstance(defaults[p], ast.Constant):
                v = AV(DEEP, const=('c', defaults[p].value))
            if v is not None and v.const is not None and (v.const[1] is None or isinstance(v.const[1], bool)) and i >= bound:
                out.append((p, v.const[1]))
        return tuple(out)

    def construct(self, st, e, ci, A):
        pos, pos_e, star, kw, kw_e, dstar = A
        allv = pos + star + list(kw.values()) + dstar
        for v, x in zip(pos, pos_e):
            self.consume(st, v, x, what='passed to the constructor of %s' % ci.name)
        org, cells, lvl = frozenset(), frozenset(), DEEP
        for v in allv:
            c = child(v)
            if not (c.lvl == DEEP and not c.org):
                lvl = SHALLOW
            org |= deepen(v.org)
            cells |= v.cells
        nc = new_cell()
        obj = AV(lvl if org or lvl == DEEP else DEEP, org, nc | cells, cls=ci, elem=child(pos[0]) if (len(allv) == 1 and pos and lvl == SHALLOW) else None, me=min(nc))
        hit = self.ix.lookup(ci, '__init__')
        if hit and hit[0] != 'builtin':
            self.call_method(st, e, hit, obj, A, '__init__')
        return obj

    def unknown_call(self, st, e, label, A, recv, callback=False):
        pos, pos_e, star, kw, kw_e, dstar = A
        self.assume(('callback `%s`' if callback else 'unresolved callee `%s`') % label + ' does not mutate its arguments and iterates each at most once')
        allv = pos + star + list(kw.values()) + dstar + ([recv] if recv is not None else [])
        for v, x in zip(pos, pos_e):
            self.consume(st, v, x, what='passed to `%s`' % label)
        r = None
        for v in allv:
            v = v.but(tok=None, const=None, func=None, elem=None, cls=None)
            for c in (v, child(v)):
                r = c if r is None else join(r, c)
        if r is None:
            return GLOBAL
        if r.lvl >= SHALLOW:
            return r
        return AV(SHARED, r.org)

    def builtin_call(self, st, e, name, A):
        pos, pos_e, star, kw, kw_e, dstar = A
        base = name.rsplit('.', 1)[-1]
        mod = name.rsplit('.', 1)[0] if '.' in name else ''
        known_mod = mod in ('', 'builtins', 'copy', 'collections', 'functools', 'itertools', '_collections_abc')
        key = name if name in (FRESH_CONTAINER_FUNCS | ONESHOT_FUNCS | DEEP_FUNCS) else (base if known_mod else name)
        allv = pos + star + list(kw.values()) + dstar
        if key in CONSUMERS or key == 'frozenset':
            for v, x in zip(pos, pos_e):
                if key in ('map', 'filter', 'reduce', 'functools.reduce', 'sorted') and v.func is not None:
                    continue
                self.consume(st, v, x, what='passed to %s()' % base)
        if key == 'len' and pos:
            t = pos[0].tok
            if t is not None:
                self.consume(st, pos[0], pos_e[0], n=MANY, what='measured with len()')
            return IMM
        if key == 'type' and len(pos) == 1:
            return AV(DEEP, func=('typeof', pos[0]))
        if key == 'isinstance' and len(pos_e) == 2:
            t = pos_e[1]
            names = [ast.unparse(x) for x in t.elts] if isinstance(t, ast.Tuple) else [ast.unparse(t)]
            x = pos_e[0]
            if names and all(n in self.an.never_types or (isinstance(x, ast.Name) and 'notinst:%s:%s' % (x.id, n) in st.known) for n in names):
                return AV(DEEP, const=('c', False))
        if key in ('setattr', 'delattr') and pos:
            self.mutate(st, pos[0], e, key, '%s(%s, ...)' % (key, ast.unparse(pos_e[0])))
            if key == 'setattr' and len(pos) == 3:
                self.capture(st, pos[0], pos[2])
            return IMM
        if key in IMMUTABLE_FUNCS:
            return IMM
        if key in DEEP_FUNCS:
            return AV(DEEP, (), new_cell())
        if key in ('copy', 'copy.copy') and len(pos) == 1:
            v = pos[0]
            if v.lvl == DEEP:
                return AV(DEEP, (), new_cell() | v.cells, cls=v.cls)
            return fresh(SHALLOW, deepen(v.org), v.cells if v.lvl >= SHALLOW else frozenset(), cls=v.cls, elem=v.elem)
        if key in FRESH_CONTAINER_FUNCS:
            vs = [child(v) for v in pos[:1]] if key in ('sorted',) else [child(v) for v in pos + star] + list(kw.values()) + dstar
            if key == 'sum':
                vs = [child(child(v)) for v in pos[:1]] + [child(v) for v in pos[1:]] + [child(v) for v in kw.values()]
            if key in ('reduce', 'functools.reduce'):
                r = None
                for v in [child(v) for v in pos[1:2]] + pos[2:]:
                    v = v.but(tok=None, const=None, func=None, elem=None)
                    for c in (v, child(v)):
                        r = c if r is None else join(r, c)
                return r if r is not None else GLOBAL
            if key == 'dict' and len(pos) == 1 and pos[0].elem is not None and pos[0].tok is not None:
                vs = [child(child(pos[0]))]                       # dict(zip(keys, values))
            r = self._container(st, vs)
            return r
        if key in ONESHOT_FUNCS:
            if key in ('map', 'filter'):
                el = AV(SHARED, deepen(frozenset().union(*[v.org for v in allv]))) if any(v.org for v in allv) else IMM
            elif key in ('zip', 'enumerate', 'itertools.product'):
                el = self._container(st, [child(v) for v in pos + star])
            else:
                el = None
                for v in pos + star:
                    c = child(v)
                    el = c if el is None else join(el, c)
                el = el or IMM
            tok = ('gen', id(e), e.lineno)
            st.tokdepth[tok] = st.depth
            st.cnt[tok] = 0
            return AV(DEEP if (el.lvl == DEEP and not el.org) else SHALLOW, deepen(el.org), new_cell() | el.cells, tok=tok, elem=el)
        if key in ELEMENT_FUNCS:
            r = None
            for v in (pos[:1] + pos[2:] if key == 'getattr' else pos + star) + list(kw.values()):
                c = child(v) if not (key in ('min', 'max') and len(pos) > 1) else v
                if key == 'getattr' and v is not pos[0]:
                    c = v
                r = c if r is None else join(r, c)
            return (r or GLOBAL).but(tok=None, const=None)
        return self.unknown_call(st, e, name, A, None)

    def builtin_method(self, st, e, recv, mname, A, recv_expr):
        pos, pos_e, star, kw, kw_e, dstar = A
        allv = pos + star + list(kw.values()) + dstar
        rtxt = ast.unparse(recv_expr) if recv_expr is not None else 'self'
        if mname in MUTATORS:
            self.mutate(st, recv, e, 'method_' + mname, '%s.%s(...)' % (rtxt, mname))
            stored = []
            if mname in ('append', 'add', 'insert', '__setitem__', 'setdefault', '__setattr__'):
                stored = allv[-1:]
            elif mname in ('extend', 'update', '__iadd__'):
                stored = [child(v) for v in allv]
                for v, x in zip(pos, pos_e):
                    self.consume(st, v, x, what='passed to .%s()' % mname)
            for v in stored:
                self.capture(st, recv, v)
            b = _base_name(recv_expr) if recv_expr is not None else None
            self.forget_aliases(st, recv)
            if b:
                self.forget(st, b)
                if recv_expr is not None and isinstance(recv_expr, ast.Name) and recv_expr.id in st.env and stored:
                    cur = st.env[recv_expr.id]
                    if cur.elem is not None:
                        el = cur.elem
                        for v in stored:
                            el = join(el, v.but(tok=None, const=None, func=None))
                        st.env[recv_expr.id] = cur.but(elem=el)
            if mname in ('pop', 'setdefault', 'popitem'):
                r = child(recv)
                for v in allv[1:]:
                    r = join(r, v)
                return r.but(tok=None, const=None)
            return IMM
        if mname in ('keys', 'values', 'items', '__iter__'):
            c = child(recv)
            if mname == 'items':
                c = self._container(st, [IMM, c])
            if recv.lvl == DEEP:
                return AV(DEEP, (), new_cell() | recv.cells, elem=c)
            return AV(SHALLOW if c.org else DEEP, deepen(recv.org), new_cell(), elem=c)
        if mname == 'get':
            r = child(recv)
            for v in allv[1:]:
                r = join(r, v)
            return r.but(tok=None, const=None)
        if mname == 'copy':
            if recv.lvl == DEEP:
                return AV(DEEP, (), new_cell() | recv.cells, cls=recv.cls)
            return fresh(SHALLOW, deepen(recv.org), cls=recv.cls, elem=recv.elem)
        if mname in PURE_METHODS:
            if recv.const is not None or (recv.lvl == DEEP and not recv.cells and all(v.lvl == DEEP and not v.org for v in allv)):
                return IMM
            for v, x in zip(pos, pos_e):
                self.consume(st, v, x, what='passed to .%s()' % mname)
            org = deepen(recv.org).union(*[deepen(v.org) for v in allv]) if allv else deepen(recv.org)
            return fresh(SHALLOW, org, recv.cells.union(*[v.cells for v in allv]) if allv else recv.cells)
        if self.ci is not None and recv.func is None:
            hit = self.ix.lookup(self.ci, mname)
            if hit and hit[0] != 'builtin':
                self.assume('receiver `%s` of .%s() is taken to be an instance of %s (resolved by method name)' % (rtxt, mname, hit[0].name))
                return self.call_method(st, e, hit, recv, A, mname, recv_expr=recv_expr)
        return self.unknown_call(st, e, '%s.%s' % (rtxt, mname), A, recv)

    def apply(self, st, e, S, fnode, pos, kw, pos_e, kw_e, star, dstar, label, bound_self=False):
        """use a callee summary at a call site: effects become obligations here, captures lower the actuals, the result is mapped back"""
        a = fnode.args
        params = [p.arg for p in a.posonlyargs + a.args]
        actual, aexpr = {}, {}
        spill = child(self._container(st, star)) if star else None
        dspill = child(self._container(st, dstar)) if dstar else None
        for i, p in enumerate(params):
            if i < len(pos):
                actual[p], aexpr[p] = pos[i], pos_e[i] if i < len(pos_e) else None
            elif p in kw:
                actual[p], aexpr[p] = kw[p], (kw_e or {}).get(p)
            elif spill is not None or dspill is not None:
                actual[p] = join(spill, dspill) if (spill is not None and dspill is not None) else (spill if spill is not None else dspill)
        for p in a.kwonlyargs:
            if p.arg in kw:
                actual[p.arg], aexpr[p.arg] = kw[p.arg], (kw_e or {}).get(p.arg)
            elif dspill is not None:
                actual[p.arg] = dspill
        if a.vararg:
            extra = list(pos[len(params):]) + ([spill] if spill is not None else [])
            actual[a.vararg.arg] = self._container(st, extra)
        if a.kwarg:
            extra = [v for k, v in kw.items() if k not in params and k not in [q.arg for q in a.kwonlyargs]] + ([dspill] if dspill is not None else [])
            actual[a.kwarg.arg] = self._container(st, extra)
        for x in S.assumed:
            self.assume(x)
        callee = label
        ks = 'call_' + callee.replace('.', '_')
        problems, notes = [], []
        for q in sorted(S.constructors):
            av = actual.get(q)
            if av is None:
                continue
            okc = av.func is not None and av.func[0] in ('class', 'typeof', 'ctor')
            self.site('pre_constructor_%s_%s' % (callee.replace('.', '_'), q), e, okc,
                      'callee %s calls its parameter `%s` to create new branches: the actual must be a class / type(x) / a constructor parameter (%s)'
                      % (callee, q, 'it is' if okc else 'it is not known to be'))
        # ---- effects
        for (q, d), desc in sorted(S.mut.items()):
            av = actual.get(q)
            if av is None:
                continue
            need = NEED[d]
            bt_ok = True
            if d == BR:
                tx = aexpr.get(S.brparam)
                bt_ok = av.lvl == DEEP or (av.btypes is not None and isinstance(tx, ast.Name) and av.btypes == (tx.id, st.ver.get(tx.id, 0)))
            what = 'callee %s modifies %s(%s)' % (callee, DEPTH[d], q)
            atxt = ast.unparse(aexpr[q]) if aexpr.get(q) is not None else q
            if d == CH and av.lvl >= SHALLOW and av.elem is not None and av.elem.lvl >= SHALLOW:
                notes.append('%s; the elements of actual `%s` are %s' % (what, atxt, LVL[av.elem.lvl]))
                continue
            if av.lvl >= need and (d != BR or bt_ok):
                notes.append('%s; actual `%s` is %s' % (what, atxt, LVL[av.lvl]))
                continue
            if av.lvl == SHARED:
                targets = set()
                for p, e0 in av.org:
                    if d == TOP:
                        targets.add((p, e0))
                    elif d == CH:
                        targets.add((p, CH if e0 == TOP else ANY))
                    elif d == BR:
                        tx = aexpr.get(S.brparam)
                        same = isinstance(tx, ast.Name) and tx.id in self.params and st.ver.get(tx.id, 0) == 0 and self.summary.brparam in (None, tx.id)
                        if same and e0 in (TOP, BR):
                            self.summary.brparam = tx.id
                            targets.add((p, BR))
                        else:
                            targets.add((p, ANY))
                    else:
                        targets.add((p, ANY))
                if not av.org:
                    targets.add((EXT, ANY))
            else:
                targets = set(deepen(av.org))
                if av.lvl >= SHALLOW and d == BR and not bt_ok and av.lvl >= BRANCH:
                    targets = set(deepen(av.org))
            bad = []
            for p, d2 in sorted(targets):
                if not self.effect(p, d2, '%s at %s' % (what, self.mi.mod.lines(e))):
                    bad.append('%s(%s)' % (DEPTH[d2], p) if p != EXT else 'a global / an object of unknown origin')
            if bad:
                problems.append('%s but the actual `%s` is only %s: this writes into %s; the modifies clause allows %s' % (
                    what, atxt, LVL[av.lvl], ' / '.join(bad), show_modifies(self.modifies or {})))
            else:
                notes.append('%s; actual `%s` is %s, the objects written lie in %s' % (what, atxt, LVL[av.lvl], ', '.join('%s(%s)' % (DEPTH[d2], p) for p, d2 in sorted(targets)) or 'fresh objects'))
            b = _base_name(aexpr[q]) if aexpr.get(q) is not None else None
            if b:
                self.forget(st, b)
        for desc in S.ext:
            if not self.effect(EXT, ANY, desc):
                problems.append('callee %s mutates a global / an object of unknown origin (%s)' % (callee, desc))
            else:
                notes.append('callee %s writes module-level state (%s), allowed by the modifies clause' % (callee, desc))
        if S.mut or S.ext or problems:
            self.site(ks, e, not problems, '; '.join(problems or notes))
        # ---- captures
        for q, p, kind in sorted(S.captures):
            src, dst = actual.get(q), actual.get(p)
            if src is None or dst is None or storable(src):
                continue
            leaf = kind == 'leaf'
            if dst.lvl >= BRANCH and leaf:
                self.site('leafstore_' + callee.replace('.', '_'), e, True,
                          'callee %s stores (parts of) `%s` as a leaf of `%s`: `%s` stays BRANCH-DEEP provided that leaf is never descended into by a later '
                          'write, i.e. it is not an instance of the branch types or the written paths are prefix-free' % (callee, q, p, p), kind='assumed', assumed=True)
                self.assume('leaves stored by %s are not branches (not instances of the `types` the tree was copied for), or the written paths are prefix-free' % callee)
            self.capture(st, dst, child(src) if src.lvl >= SHALLOW else src, leafstore=leaf)
        # ---- linearity
        for q, n in S.iters.items():
            av = actual.get(q)
            if av is None or av.tok is None:
                continue
            if n >= MANY and av.tok[0] == 'gen':
                self.site('pre_reiterable_' + callee.replace('.', '_') + '_' + q, e, False,
                          'callee %s iterates its parameter `%s` more than once (requires reiterable(%s)) but the call passes a one-shot iterator created at line %s'
                          % (callee, q, q, av.tok[2]), kind='linearity')
                st.cnt[av.tok] = MANY
            else:
                self.consume(st, av, e, n=n, what='iterated by callee %s' % callee)
                if av.tok[0] == 'gen' and n < MANY:
                    self.site('pre_reiterable_' + callee.replace('.', '_') + '_' + q, e, st.cnt.get(av.tok, 0) < MANY,
                              'callee %s iterates `%s` once; the generator passed is consumed %s' % (callee, q, 'once' if st.cnt.get(av.tok, 0) < MANY else 'more than once'),
                              kind='linearity')
        # ---- result
        r = S.result
        if S.is_gen:
            tok = ('gen', id(e), e.lineno)
            st.tokdepth[tok] = st.depth
            st.cnt[tok] = 0
        else:
            tok = None
        if r.lvl >= SHALLOW:
            org, cells, lvl = frozenset(), frozenset(), r.lvl
            for q, d in r.org:
                av = actual.get(q)
                if av is None:
                    continue
                org |= deepen(av.org)
                cells |= av.cells
            bt = None
            if lvl == BRANCH:
                tx = aexpr.get(r.btypes[1]) if r.btypes else None
                if isinstance(tx, ast.Name):
                    bt = (tx.id, st.ver.get(tx.id, 0))
                else:
                    lvl = SHALLOW
            if not org:
                lvl = DEEP
            el = None
            if r.elem is not None:
                el = self._map_shared(r.elem, actual)
            nc = new_cell()
            rcls = r.cls
            if rcls is not None and params and actual.get(params[0]) is not None and actual[params[0]].cls is not None:
                acls = actual[params[0]].cls
                if rcls.key in [c.key for c in self.ix.mro(acls) if isinstance(c, ClassInfo)]:
                    rcls = acls
            return AV(lvl, org, nc | cells, tok=tok, cls=rcls, btypes=bt, const=r.const, elem=el, me=min(nc))
        out = self._map_shared(r, actual)
        return out.but(tok=tok or out.tok, const=r.const)

    def _map_shared(self, r, actual):
        if r.lvl >= SHALLOW:
            org = frozenset()
            for q, d in r.org:
                if actual.get(q) is not None:
                    org |= deepen(actual[q].org)
            return AV(r.lvl if org else DEEP, org)
        out = None
        for q, d in r.org:
            av = actual.get(q)
            if av is None:
                c = GLOBAL
            elif d == TOP:
                c = av.but(const=None)
            elif d == BR:
                c = child(av.but(elem=None), branch=True)
            else:
                c = child(av.but(elem=None))
                if c.lvl >= SHALLOW and av.lvl < DEEP:
                    c = AV(SHARED, deepen(av.org))
            out = c if out is None else join(out, c)
        return out if out is not None else GLOBAL

    # ------------------------------------------------------------------ statements
    def block(self, st, stmts):
        for s in stmts:
            if st.dead:
                break
            m = getattr(self, 's_' + type(s).__name__, None)
            if m is None:
                for c in ast.iter_child_nodes(s):
                    if isinstance(c, ast.expr):
                        self.ev(st, c)
                continue
            m(st, s)

    def bind(self, st, tg, v, value_expr, node=None):
        if isinstance(tg, ast.Name):
            st.env[tg.id] = v
            st.ver[tg.id] = st.ver.get(tg.id, 0) + 1
            self.forget(st, tg.id)
        elif isinstance(tg, (ast.Tuple, ast.List)):
            for x in tg.elts:
                if isinstance(x, ast.Starred):
                    self.bind(st, x.value, self._container(st, [child(v)]), None, node)
                else:
                    self.bind(st, x, child(v).but(tok=None), None, node)
        elif isinstance(tg, (ast.Subscript, ast.Attribute)):
            self.store(st, tg, v, node or tg)
        elif isinstance(tg, ast.Starred):
            self.bind(st, tg.value, v, None, node)

    def store(self, st, tg, v, node, kind='store'):
        cont = self.ev(st, tg.value)
        txt = ast.unparse(tg)
        v = v.but(tok=None)
        idx = None
        if isinstance(tg, ast.Subscript):
            idx = IMM if isinstance(tg.slice, ast.Slice) else self.ev(st, tg.slice)
        special = '__setitem__' if isinstance(tg, ast.Subscript) else '__setattr__'
        hit = self.ix.lookup(cont.cls, special) if cont.cls is not None else None
        if hit and hit[0] != 'builtin':
            key_av = idx if idx is not None else AV(DEEP, const=('c', tg.attr))
            self.call_method(st, node, hit, cont, ([key_av, v], [tg.slice if idx is not None else None, None], [], {}, {}, []), special, recv_expr=tg.value)
            self.capture(st, st.env.get(tg.value.id, cont) if isinstance(tg.value, ast.Name) else cont, v)
        else:
            self.mutate(st, cont, node, kind, '`%s = ...`' % txt)
            self.capture(st, st.env.get(tg.value.id, cont) if isinstance(tg.value, ast.Name) else cont, v)
        b = _base_name(tg)
        if b:
            self.forget(st, b, keep=None)
        self.forget_aliases(st, cont)
        if _simple(tg):
            st.known[txt] = (v.but(const=None), _names(tg))
        if isinstance(tg.value, ast.Name) and tg.value.id in st.env:
            cur = st.env[tg.value.id]
            if cur.elem is not None:
                st.env[tg.value.id] = cur.but(elem=join(cur.elem, v.but(const=None, func=None)))

    def s_Assign(self, st, s):
        if len(s.targets) == 1 and isinstance(s.targets[0], (ast.Tuple, ast.List)) and isinstance(s.value, (ast.Tuple, ast.List)) \
                and len(s.targets[0].elts) == len(s.value.elts) and not any(isinstance(x, ast.Starred) for x in s.targets[0].elts + s.value.elts):
            vs = [self.ev(st, x) for x in s.value.elts]
            for t, v, x in zip(s.targets[0].elts, vs, s.value.elts):
                self.bind(st, t, v, x, s)
            return
        v = self.ev(st, s.value)
        for t in s.targets:
            self.bind(st, t, v, s.value, s)

    def s_AnnAssign(self, st, s):
        if s.value is not None:
            self.bind(st, s.target, self.ev(st, s.value), s.value, s)

    def s_AugAssign(self, st, s):
        v = self.ev(st, s.value)
        numeric = v.const is not None and isinstance(v.const[1], (int, float, str, bool))
        if not numeric and (_numeric_expr(s.value) or (isinstance(s.value, ast.Name) and _numeric_name(self.node, s.value.id))):
            numeric = True
            self.assume('an augmented assignment with a numeric right-hand side acts on a number, not on a numpy array')
        if isinstance(s.target, ast.Name):
            cur = st.env.get(s.target.id)
            if cur is None:
                return
            if numeric or cur.const is not None or (cur.lvl == DEEP and not cur.cells):
                st.env[s.target.id] = IMM
                return
            self.mutate(st, cur, s, 'augassign', '`%s` (in place when the left side is a list / set / dict / array)' % ast.unparse(s)[:50])
            self.capture(st, cur, child(v))
            return
        cont_child = self.ev(st, s.target)
        if not numeric:
            self.mutate(st, cont_child, s, 'augassign', '`%s` (in place on the element when it is mutable)' % ast.unparse(s)[:50])
        self.store(st, s.target, fresh(SHALLOW, deepen(cont_child.org | v.org)), s)

    def s_Expr(self, st, s):
        self.ev(st, s.value)

    def s_Return(self, st, s):
        v = self.ev(st, s.value) if s.value is not None else IMM
        self.returns.append(v)
        self.exit_states.append(st.fork())
        st.dead = True

    def s_Raise(self, st, s):
        if s.exc is not None:
            self.ev(st, s.exc)
        st.dead = True

    def s_Assert(self, st, s):
        self.ev(st, s.test)
        self.learn(st, s.test, True)

    def s_Pass(self, st, s):
        pass

    def s_Global(self, st, s):
        for n in s.names:
            st.env[n] = GLOBAL

    s_Nonlocal = s_Global

    def s_Import(self, st, s):
        pass

    s_ImportFrom = s_Import

    def s_FunctionDef(self, st, s):
        st.env[s.name] = AV(DEEP, func=('nested', s))

    s_AsyncFunctionDef = s_FunctionDef

    def s_ClassDef(self, st, s):
        st.env[s.name] = GLOBAL

    def s_Delete(self, st, s):
        for tg in s.targets:
            if isinstance(tg, ast.Name):
                st.env.pop(tg.id, None)
                self.forget(st, tg.id)
                continue
            if not isinstance(tg, (ast.Subscript, ast.Attribute)):
                continue
            cont = self.ev(st, tg.value)
            special = '__delitem__' if isinstance(tg, ast.Subscript) else '__delattr__'
            hit = self.ix.lookup(cont.cls, special) if cont.cls is not None else None
            if hit and hit[0] != 'builtin':
                key_av = self.ev(st, tg.slice) if isinstance(tg, ast.Subscript) else AV(DEEP, const=('c', tg.attr))
                self.call_method(st, s, hit, cont, ([key_av], [tg.slice if isinstance(tg, ast.Subscript) else None], [], {}, {}, []), special, recv_expr=tg.value)
            else:
                if isinstance(tg, ast.Subscript) and not isinstance(tg.slice, ast.Slice):
                    self.ev(st, tg.slice)
                self.mutate(st, cont, s, 'del', '`del %s`' % ast.unparse(tg))
            b = _base_name(tg)
            if b:
                self.forget(st, b)

    def s_If(self, st, s):
        t = self.ev(st, s.test)
        tv = self.truth(st, s.test, t)
        if tv is True:
            self.learn(st, s.test, True)
            return self.block(st, s.body)
        if tv is False:
            self.learn(st, s.test, False)
            return self.block(st, s.orelse)
        s1 = st.fork()
        self.learn(s1, s.test, True)
        self.block(s1, s.body)
        s2 = st.fork()
        self.learn(s2, s.test, False)
        self.block(s2, s.orelse)
        st.take(join_states(s1, s2))

    def loop(self, st, bodyfn):
        for _ in range(12):
            before = st.key()
            b = st.fork()
            b.depth += 1
            self.loops.append([])
            bodyfn(b)
            extra = self.loops.pop()
            new = join_states(st, b)
            for x in extra:
                new = join_states(new, x)
            new.depth = st.depth
            new.dead = False
            st.take(new)
            if st.key() == before:
                break

    def iter_elem(self, st, it, node):
        """element of iterating `it`; a receiver whose class defines __iter__ in the repo yields what that generator yields"""
        if it.cls is not None and it.tok is None:
            hit = self.ix.lookup(it.cls, '__iter__')
            if hit and hit[0] != 'builtin':
                r = self.call_method(st, node, hit, it, ([], [], [], {}, {}, []), '__iter__')
                return child(r).but(tok=None)
        return child(it).but(tok=None)

    def s_For(self, st, s):
        it = self.ev(st, s.iter)
        self.consume(st, it, s.iter)
        el = self.iter_elem(st, it, s.iter)
        promo = self._branch_copy_idiom(st, s)

        def body(b):
            self.bind(b, s.target, el, None, s)
            self.block(b, s.body)
        self.loop(st, body)
        if promo is not None:
            rname, tname = promo
            b = st.fork()
            self.bind(b, s.target, el, None, s)
            v = self.ev(b, s.body[0].body[0].value)
            cur = st.env.get(rname)
            want = (tname, st.ver.get(tname, 0))
            if cur is not None and cur.lvl >= SHALLOW and (v.lvl == DEEP or (v.lvl == BRANCH and v.btypes == want)):
                self.summary.brparam = self.summary.brparam or (tname if tname in self.params and st.ver.get(tname, 0) == 0 else None)
                st.env[rname] = cur.but(lvl=max(cur.lvl, BRANCH), btypes=want if cur.lvl < DEEP else cur.btypes)
        if s.orelse:
            self.block(st, s.orelse)

    s_AsyncFor = s_For

    def _branch_copy_idiom(self, st, s):
        """for K, V in R.items(): if isinstance(V, T): R[K] = E      -> (R, T): afterwards every branch child of the fresh R has been
        replaced by E; when E is BRANCH-DEEP relative to T (or DEEP), so is R"""
        it, tg = s.iter, s.target
        if not (isinstance(it, ast.Call) and isinstance(it.func, ast.Attribute) and it.func.attr == 'items' and not it.args
                and isinstance(it.func.value, ast.Name) and isinstance(tg, ast.Tuple) and len(tg.elts) == 2
                and all(isinstance(x, ast.Name) for x in tg.elts) and len(s.body) == 1 and isinstance(s.body[0], ast.If) and not s.orelse):
            return None
        r, (k, v), iff = it.func.value.id, [x.id for x in tg.elts], s.body[0]
        t = iff.test
        if not (isinstance(t, ast.Call) and isinstance(t.func, ast.Name) and t.func.id == 'isinstance' and len(t.args) == 2
                and isinstance(t.args[0], ast.Name) and t.args[0].id == v and isinstance(t.args[1], ast.Name) and not iff.orelse
                and len(iff.body) == 1 and isinstance(iff.body[0], ast.Assign) and len(iff.body[0].targets) == 1):
            return None
        tgt = iff.body[0].targets[0]
        if not (isinstance(tgt, ast.Subscript) and isinstance(tgt.value, ast.Name) and tgt.value.id == r
                and isinstance(tgt.slice, ast.Name) and tgt.slice.id == k):
            return None
        return r, t.args[1].id

    def s_While(self, st, s):
        def body(b):
            self.ev(b, s.test)
            self.learn(b, s.test, True)
            self.block(b, s.body)
        if self.truth(st, s.test, self.ev(st, s.test)) is False:
            return
        self.loop(st, body)
        if s.orelse:
            self.block(st, s.orelse)

    def s_Break(self, st, s):
        if self.loops:
            self.loops[-1].append(st.fork())
        st.dead = True

    s_Continue = s_Break

    def _cannot_raise_keyerror(self, st, s):
        """try: super(...).__delitem__(k) / __getitem__(k)  [dict's own]  except KeyError: ...   with `k in self` known"""
        if len(s.body) != 1 or not isinstance(s.body[0], (ast.Expr, ast.Return, ast.Assign)) or not s.handlers:
            return False
        c = s.body[0].value
        if not (isinstance(c, ast.Call) and isinstance(c.func, ast.Attribute) and c.func.attr in ('__delitem__', '__getitem__') and len(c.args) == 1
                and isinstance(c.args[0], ast.Name) and isinstance(c.func.value, ast.Call) and isinstance(c.func.value.func, ast.Name)
                and c.func.value.func.id == 'super' and self.ci is not None and self.selfname):
            return False
        if any(h.type is None or ast.unparse(h.type) != 'KeyError' for h in s.handlers):
            return False
        hit = self.ix.lookup(self.ci, c.func.attr, after=self.ci)
        if not hit or hit[0] != 'builtin' or hit[1] != 'dict':
            return False
        return '%s in %s' % (c.args[0].id, self.selfname) in st.known

    def s_Try(self, st, s):
        if self._cannot_raise_keyerror(st, s):
            self.block(st, s.body)
            if s.orelse and not st.dead:
                self.block(st, s.orelse)
            if s.finalbody:
                self.block(st, s.finalbody)
            return
        s0 = st.fork()
        self.block(st, s.body)
        hs = []
        for h in s.handlers:
            hst = join_states(s0, st)
            hst.dead = False
            if h.type is not None:
                self.ev(hst, h.type)
            if h.name:
                hst.env[h.name] = GLOBAL
            self.block(hst, h.body)
            hs.append(hst)
        if s.orelse and not st.dead:
            self.block(st, s.orelse)
        out = st
        for h in hs:
            out = join_states(out, h)
        st.take(out)
        if s.finalbody:
            dead = st.dead
            st.dead = False
            self.block(st, s.finalbody)
            st.dead = st.dead or dead

    s_TryStar = s_Try

    def s_With(self, st, s):
        for it in s.items:
            v = self.ev(st, it.context_expr)
            if it.optional_vars is not None:
                self.bind(st, it.optional_vars, v, None, s)
        self.block(st, s.body)

    s_AsyncWith = s_With


# ====================================================================================================== public interface
_BINARY_DUNDERS = {'__add__', '__sub__', '__and__', '__or__', '__mul__', '__truediv__', '__xor__', '__radd__', '__rsub__', '__getitem__',
                   '__delitem__', '__contains__', '__eq__', '__ne__', '__lt__', '__le__', '__gt__', '__ge__', '__mod__', '__floordiv__'}


def _auto_consts(node):
    """an operator method can only be reached through the operator with its extra parameters at their defaults"""
    if node.name not in _BINARY_DUNDERS:
        return {}
    a = node.args
    params = [p.arg for p in a.posonlyargs + a.args]
    out = {}
    for p, d in zip(params[len(params) - len(a.defaults):], a.defaults):
        if params.index(p) >= 2 and isinstance(d, ast.Constant) and (d.value is None or isinstance(d.value, bool)):
            out[p] = d.value
    return out


def check_function(an, modname, qual, modifies=None, consts=None, label=None, result=None):
    """check the body of modname:qual against its modifies clause (and declared result level); returns a list of Res.
    modifies=None takes the clause from the analyzer's declared contracts (default: modifies nothing)."""
    mi, node, ci = an.locate(modname, qual)
    ckey = '%s:%s' % (modname, qual)
    con = an.contracts.get(ckey, {})
    if modifies is None:
        modifies = con.get('modifies', {})
    modifies = parse_modifies(modifies)
    result = result or con.get('result')
    label = label or qual
    cs = dict(_auto_consts(node))
    cs.update(consts or {})
    fa = FA(an, mi, qual, node, ci, cs, modifies=modifies, label=label)
    fa.constructors = set(con.get('constructors', ()))
    saved = an.contracts.pop(ckey, None)          # recursive calls inside the body use the declared contract: keep it
    if saved is not None:
        an.contracts[ckey] = saved
    fa.run()                                       # discovers the callees
    stable = an.solve()
    fa = FA(an, mi, qual, node, ci, cs, modifies=modifies, label=label)
    fa.constructors = set(con.get('constructors', ()))
    fa.run()
    out = fa.results()
    where = mi.mod.lines(node)
    if not stable:
        out.append(Res('%s.frame.summaries_stable' % label, False, 'the callee summaries did not stabilise in 12 passes', where, kind='undecided'))
    bad = [r for r in out if not r.ok and r.kind == 'frame']
    if EXT in modifies:
        fa.summary.ext = []          # allowed by the clause: not an effect the body has to answer for
    eff = ', '.join('%s(%s)' % (DEPTH[d], p) for (p, d) in sorted(fa.summary.mut)) or 'none'
    out.append(Res('%s.frame.body_respects_modifies' % label, not bad,
                   'modifies %s; effects inferred from the body: %s%s%s' % (show_modifies(modifies), eff, '; globals: %d site(s)' % len(fa.summary.ext) if fa.summary.ext else '',
                                                                          ('; consts ' + repr(cs)) if cs else ''), where))
    if result is not None and (result[0] if isinstance(result, tuple) else result) in ('DEEP', 'BRANCH', 'SHALLOW'):
        want = {'DEEP': DEEP, 'BRANCH': BRANCH, 'SHALLOW': SHALLOW}[result[0] if isinstance(result, tuple) else result]
        got = fa.summary.result
        out.append(Res('%s.frame.result_is_%s' % (label, LVL[want].lower().replace('-', '_')), got.lvl >= want,
                       'the returned object is %s (declared: %s)' % (LVL[got.lvl], LVL[want]), where))
    for p, n in sorted(fa.summary.iters.items()):
        if n >= MANY:
            out.append(Res('%s.linearity.requires_reiterable_%s' % (label, p), True,
                           'parameter `%s` is iterated more than once (or measured with len): callers must pass a collection, not a one-shot iterator' % p,
                           where, kind='precondition'))
    for x in sorted(fa.summary.assumed):
        out.append(Res('%s.assumed' % label, True, x, where, kind='assumed', assumed=True))
    for q, p, kind in sorted(fa.summary.captures):
        out.append(Res('%s.captures' % label, True, '(parts of) `%s` become reachable from `%s` (%s store)' % (q, p, kind), where, kind='info'))
    return out


def frame_report(funcs, contracts=None, analyzer=None, protocol=True, never_types=()):
    """funcs: list of (module, qualified function name, modifies spec) -> list of result dicts (name, ok, detail, where, kind, assumed).
    modifies spec: {} / None / 'top(self)' / ['branches(tree)'] / {'self': 'top'}.  With protocol=True the implicit protocol methods
    (__getitem__, __len__, __iter__, __contains__, __eq__, __getattr__) of every class involved are checked to be effect-free as well."""
    an = analyzer or Analyzer(contracts, never_types=never_types)
    out, classes = [], {}
    for modname, qual, spec in funcs:
        try:
            mi, node, ci = an.locate(modname, qual)
            rs = check_function(an, modname, qual, modifies=spec if spec is not None else {}, label=qual)
        except SelectorError as e:
            rs = [Res('%s.frame.located' % qual, False, 'SelectorError: %s' % e, modname, kind='undecided')]
            ci = None
        out += rs
        if ci is not None:
            for c in an.ix.mro(ci):
                if isinstance(c, ClassInfo):
                    classes[c.key] = c
    if protocol:
        done = {q for _, q, _ in funcs}
        for c in classes.values():
            for m in PROTOCOL:
                q = '%s.%s' % (c.name, m)
                if m in c.methods and q not in done:
                    done.add(q)
                    out += [r for r in check_function(an, c.mi.name, q, modifies={}, label=q) if r.kind in ('frame', 'linearity')]
    return [r.as_dict() for r in out]


def post_all(ctx, results, replay=None):
    """hand frame / linearity results to a contract context: every result is recorded in ctx.frame_results; every obligation
    (kind frame / linearity) becomes ctx.post(name, [], BoolVal(ok)), so that a failed one comes back `sat` from the solver and is
    treated like any other failed obligation (lock file, VIOLATION line, replay)."""
    from z3 import BoolVal, IntVal
    n = 0
    for r in results:
        d = r.as_dict() if isinstance(r, Res) else dict(r)
        ctx.frame_results.append(d)
        if d['kind'] in ('frame', 'linearity'):
            n += 1
            ob = ctx.post(d['name'], [], BoolVal(bool(d['ok'])), kind='frame', witness=dict(site=IntVal(n)),
                          replay=(lambda model, d=d: replay(d)) if replay is not None else None)
            # the ownership analysis is conservative (may-alias): a failed site means "cannot show that only fresh objects are written", which a
            # harmless restructuring can cause as well; it is reported as a violation only when the native before / after probe confirms an effect
            ob.meta['conservative'] = True
            ob.meta['replay_without_model'] = True
        elif d['kind'] == 'assumed':
            ctx.trust('frame checker: ' + d['detail'])
        elif d['kind'] == 'undecided':
            ctx.undecided.append((d['name'], d['detail']))
    ctx.trust('engine: the ownership lattice (DEEP > BRANCH-DEEP > SHALLOW > SHARED), its transfer functions and the branch-copy promotion rule of pyvc/own.py')
    return n


# ====================================================================================================== the table / mapping methods named in C01, C02, C06, C11, C16
_D, _A = '_dictable', '_dictattr'
TABLE_FUNCS = {
    'C01': [(_D, 'dictable.' + m, {}) for m in ('__getitem__', '__iter__', '__len__', 'get', 'do', 'concat', '__add__', 'sort', 'if_none', 'apply', 'inc', 'exc')]
           + [(_D, 'dictable.__setitem__', ['top(self)']), (_D, 'dictable.update', ['top(self)']), (_D, 'dictable.__init__', ['top(self)']),
              (_D, 'dict_concat', {}), ('_dict', 'Dict.__call__', {}), ('_dict', 'Dict.do', {}), (_A, 'dictattr.relabel', {})],
    'C02': [(_D, 'dictable.join', {}), (_D, 'dictable.xor', {}), (_D, 'dictable._listby', {})],
    'C06': [(_D, 'dictable.inc', {}), (_D, 'dictable.exc', {}), (_D, 'dictable.one_or_none', {}), (_D, 'dictable.__getattr__', {})],
    'C11': [(_D, 'dictable.' + m, {}) for m in ('listby', 'unlist', 'groupby', 'ungroup', 'xyz', 'unpivot')],
    'C16': [(_A, 'dictattr.__sub__', {}, dict(never_types=['tuple'],
                                               why='path precondition of C16: keys are not tuples (the tuple-path form d - (\'a\', \'b\') deletes inside a shared child '
                                                   'and is outside the property\'s key universe)'))]
           + [(_A, 'dictattr.' + m, {}) for m in ('__and__', '__add__', '__getitem__', '__or__', 'relabel', 'keys', 'values', '__truediv__', 'copy')]
           + [('_dict', 'Dict.__call__', {}), ('_dict', 'Dict.apply', {}), ('_dict', 'Dict.__getitem__', {})]
           + [('_ulist', 'ulist.' + m, {}) for m in ('__add__', '__sub__', '__and__', '__init__')],
}
# path preconditions of that report: no pandas / numpy / file-path values, callbacks are plain functions (not pyg wrappers); the excel loader is cut off
TABLE_NEVER = ['wrapper', 'Path', 'pd.io.excel.ExcelFile', 'pd.DataFrame', 'pd.Series', 'np.ndarray']
TABLE_CONTRACTS = {'_dictable:dictable.read_excel': dict(modifies=[], result=('SHALLOW', []))}


def table_report(pid):
    """frame_report over the methods named in property pid (C01, C02, C06, C11, C16) under the stated path preconditions; an entry of
    TABLE_FUNCS may carry a fourth element dict(never_types=[...], why=...) - a path precondition of that function alone, analysed with its own
    analyzer and listed in the result as an `assumed` entry"""
    plain = [f for f in TABLE_FUNCS[pid] if len(f) == 3]
    out = frame_report(plain, contracts=TABLE_CONTRACTS, never_types=TABLE_NEVER)
    for modname, qual, spec, opt in [f for f in TABLE_FUNCS[pid] if len(f) == 4]:
        out += frame_report([(modname, qual, spec)], contracts=TABLE_CONTRACTS, never_types=TABLE_NEVER + list(opt.get('never_types', ())), protocol=False)
        out.append(Res('%s.assumed' % qual, True, opt.get('why', 'path precondition: no value is an instance of %s' % opt.get('never_types')),
                       modname, kind='assumed', assumed=True).as_dict())
    return out


if __name__ == '__main__':
    import sys, time
    for pid in (sys.argv[1:] or sorted(TABLE_FUNCS)):
        t0 = time.time()
        rs = table_report(pid)
        ob = [r for r in rs if r['kind'] in ('frame', 'linearity')]
        print('==== %s: %d obligations, %d failed, %.1fs' % (pid, len(ob), sum(not r['ok'] for r in ob), time.time() - t0))
        for r in rs:
            if not r['ok']:
                print('  FAIL %s [%s] %s' % (r['name'], r['where'], r['detail'][:300]))
        print('  assumed: ' + '; '.join(sorted({r['detail'][:60] for r in rs if r['kind'] == 'assumed'}))[:900])
