"""Grounding of an obligation: a quantifier-free weakening that still proves it.

    hyps |= goal      is implied by      unsat( instances(hyps) + skolemised(not goal) )

The negated goal and the hypotheses are put into negation normal form (existentials are skolemised by z3's nnf tactic); every universal
quantifier that is left is replaced by the conjunction of some of its instances, for a few rounds (instances bring new terms).
Which instances: a bound variable that occurs as the index of an array rooted at symbol A (select / store, at nesting depth d), or as the k-th
argument of an uninterpreted function f, is instantiated with the ground terms that occur in the query *in that same position* (the index set of
the array property fragment, kept apart per array / function); a variable without such a position falls back to all index terms of its sort.
Replacing a universal hypothesis by some of its instances only weakens the hypotheses, so `unsat` of the result is a proof of the obligation.
The result has no universal quantifiers, so a failing obligation comes back `sat` with a model instead of `unknown`."""
import itertools
import z3
from z3 import And, Or, Not, BoolVal, IntVal, IntSort, substitute_vars, simplify


def _sort_key(s):
    return s.sexpr()


def _root(a, depth=0):
    """(root symbol, select depth) of an array-valued term: select / store layers stripped"""
    while True:
        if z3.is_app(a):
            k = a.decl().kind()
            if k == z3.Z3_OP_SELECT:
                a = a.arg(0); depth += 1
                continue
            if k == z3.Z3_OP_STORE:
                a = a.arg(0)
                continue
            if k == z3.Z3_OP_ITE:
                a = a.arg(1)
                continue
            if k == z3.Z3_OP_UNINTERPRETED:
                return a.decl().name(), depth
            if k == z3.Z3_OP_CONST_ARRAY:
                return '<const-array>', depth
        return '<other>', depth


def _has_var(e, cache):
    i = e.get_id()
    if i in cache:
        return cache[i]
    if z3.is_var(e) or z3.is_quantifier(e):
        r = True           # terms with binders (lambdas, nested quantifiers) are not used as instances
    else:
        r = any(_has_var(c, cache) for c in e.children())
    cache[i] = r
    return r


def _positions(e):
    """[(key, argument term)] for the argument positions of an application that carry an index: select / store indices, arguments of
    uninterpreted functions"""
    if not z3.is_app(e):
        return []
    k = e.decl().kind()
    ch = e.children()
    if k == z3.Z3_OP_SELECT:
        r, d = _root(ch[0])
        return [(('sel', r, d), ch[1])]
    if k == z3.Z3_OP_STORE:
        r, d = _root(ch[0])
        return [(('sel', r, d), ch[1])]
    if k == z3.Z3_OP_UNINTERPRETED and ch:
        return [((e.decl().name(), j), c) for j, c in enumerate(ch)]
    return []


def _collect(fs, vcache, state=None):
    """ground terms per position key and per sort (the fall-back pool); `state` = (bykey, bysort, seen) of an earlier call makes it incremental"""
    bykey, bysort, seen = state if state is not None else ({}, {}, set())
    stack = list(fs)
    while stack:
        e = stack.pop()
        i = e.get_id()
        if i in seen:
            continue
        seen.add(i)
        if z3.is_quantifier(e):
            stack.append(e.body())
            continue
        if not z3.is_app(e):
            continue
        for key, c in _positions(e):
            if not _has_var(c, vcache):
                bykey.setdefault(key, {}).setdefault(c.get_id(), c)
                bysort.setdefault(_sort_key(c.sort()), {}).setdefault(c.get_id(), c)
        if e.num_args() == 0 and e.decl().kind() == z3.Z3_OP_UNINTERPRETED:
            bysort.setdefault(_sort_key(e.sort()), {}).setdefault(e.get_id(), e)
        stack.extend(e.children())
    return bykey, bysort


def _var_keys(body, nvars):
    """for each bound variable (de Bruijn index) of this quantifier: the position keys it occurs at directly, and whether it also occurs loosely"""
    keys = {v: set() for v in range(nvars)}
    loose = {v: False for v in range(nvars)}
    seen = set()

    def walk(e, off):
        i = (e.get_id(), off)
        if i in seen:
            return
        seen.add(i)
        if z3.is_quantifier(e):
            walk(e.body(), off + e.num_vars())
            return
        if z3.is_var(e):
            v = z3.get_var_index(e) - off
            if 0 <= v < nvars:
                loose[v] = True
            return
        if not z3.is_app(e):
            return
        pos = _positions(e)
        direct = set()
        for key, c in pos:
            if z3.is_var(c):
                v = z3.get_var_index(c) - off
                if 0 <= v < nvars:
                    keys[v].add(key)
                    direct.add(c.get_id())
        for c in e.children():
            if z3.is_var(c) and c.get_id() in direct:
                continue
            walk(c, off)
    walk(body, 0)
    return keys, loose


class _Grounder:
    def __init__(self, cap):
        self.cap = cap
        self.done = {}          # quantifier id -> set of instantiation tuples already produced
        self.vcache = {}
        self.rank = {}          # term id -> (round in which it was first seen, size)
        self.round = 0
        self.goal_consts = {}   # sort -> constants of the skolemised negated goal

    def rank_of(self, t):
        r = self.rank.get(t.get_id())
        if r is None:
            r = self.rank[t.get_id()] = (self.round, len(t.sexpr()))
        return r

    def see(self, bykey, bysort):
        for d in list(bykey.values()) + list(bysort.values()):
            for t in d.values():
                self.rank_of(t)

    def inst(self, e, bykey, bysort, cache):
        i = e.get_id()
        if i in cache:
            return cache[i]
        if z3.is_quantifier(e) and e.is_forall():
            n = e.num_vars()
            body = e.body()
            keys, loose = _var_keys(body, n)
            choices = []
            for v in range(n):           # de Bruijn index v <-> declared variable n-1-v
                srt = e.var_sort(n - 1 - v)
                cands = {}
                for key in keys[v]:
                    for tid, t in bykey.get(key, {}).items():
                        if t.sort() == srt:
                            cands[tid] = t
                if not cands:          # no position of its own, or nothing ground occurs there yet (e.g. only under a skolem function): all index terms of the sort
                    cands.update(bysort.get(_sort_key(srt), {}))
                if srt == IntSort():            # the first position: bounds of a tiling / prefix are reached through it
                    z = IntVal(0)
                    cands[z.get_id()] = z
                for t in self.goal_consts.get(_sort_key(srt), ()):      # the arbitrary elements the goal speaks about
                    cands[t.get_id()] = t
                # the budget of `cap` instances is spread evenly over the variables; terms of the original query and small terms come first
                # (instances of term-generating axioms - f(x) for every x - would otherwise crowd out the relevant ones)
                per_var = max(2, int(round(self.cap ** (1.0 / n))))
                ranked = sorted(cands.values(), key=self.rank_of)
                choices.append(ranked[:per_var])
            got = self.done.setdefault(i, set())
            insts = []
            for combo in itertools.islice(itertools.product(*choices), self.cap):
                sig = tuple(t.get_id() for t in combo)
                if sig in got:
                    continue
                got.add(sig)
                # substitute_vars: the k-th substitution term replaces de Bruijn index k
                insts.append(simplify(substitute_vars(body, *combo)))
            r = And(*insts) if insts else BoolVal(True)
        elif z3.is_app(e) and e.decl().kind() in (z3.Z3_OP_AND, z3.Z3_OP_OR) and e.num_args() > 0:
            ch = [self.inst(c, bykey, bysort, cache) for c in e.children()]
            r = And(*ch) if e.decl().kind() == z3.Z3_OP_AND else Or(*ch)
        else:
            r = e
        cache[i] = r
        return r


def _has_forall(e, cache):
    i = e.get_id()
    if i not in cache:
        cache[i] = '(forall ' in e.sexpr()          # the printer runs in C: much cheaper than walking a large instance through the python API
    return cache[i]


def _consts(fs):
    out, seen, stack = {}, set(), list(fs)
    while stack:
        e = stack.pop()
        i = e.get_id()
        if i in seen:
            continue
        seen.add(i)
        if z3.is_quantifier(e):
            stack.append(e.body())
        elif z3.is_app(e):
            if e.num_args() == 0 and e.decl().kind() == z3.Z3_OP_UNINTERPRETED:
                out[i] = e
            stack.extend(e.children())
    return out if isinstance(fs, dict) else _ConstSet(out)


class _ConstSet(dict):
    def __iter__(self):
        return iter(self.values())


def _drop_quantifiers(e, cache):
    """what is still universally quantified after the last round is dropped (-> True); sound because only positive occurrences (under and / or)
    are touched"""
    i = e.get_id()
    if i in cache:
        return cache[i]
    if z3.is_quantifier(e) and e.is_forall():
        r = BoolVal(True)
    elif z3.is_app(e) and e.decl().kind() in (z3.Z3_OP_AND, z3.Z3_OP_OR) and e.num_args() > 0:
        ch = [_drop_quantifiers(c, cache) for c in e.children()]
        r = And(*ch) if e.decl().kind() == z3.Z3_OP_AND else Or(*ch)
    else:
        r = e
    cache[i] = r
    return r


def ground(hyps, goal, rounds=2, cap=2000):
    """list of assertions without (positive) universal quantifiers; if they are unsatisfiable then hyps |= goal"""
    g = z3.Goal()
    for h in hyps:
        g.add(h)
    g.add(Not(goal))
    nnf = z3.Then(z3.Tactic('simplify'), z3.Tactic('nnf'))(g)
    fs = [f for sub in nnf for f in sub]
    gr = _Grounder(cap)
    # the skolem constants of the negated goal: constants of the full normal form that occur in no hypothesis and not in the goal itself
    known = _consts(list(hyps) + [goal])
    for cst in _consts(fs):
        if cst.get_id() not in known:
            gr.goal_consts.setdefault(_sort_key(cst.sort()), []).append(cst)
    hf = {}
    quantified = [f for f in fs if _has_forall(f, hf)]
    ground_part = [f for f in fs if not _has_forall(f, hf)]
    pending = list(quantified)          # formulas that still contain universals (instances may contain nested ones)
    cstate = ({}, {}, set())
    for rnd in range(rounds):
        bykey, bysort = _collect(ground_part + pending, gr.vcache, cstate)
        gr.round = rnd
        gr.see(bykey, bysort)
        cache = {}
        new_pending = []
        for f in pending:
            r = gr.inst(f, bykey, bysort, cache)
            # r = f with its outermost universals replaced by the new instances; the universals themselves stay for the next round
            if _has_forall(r, hf):
                new_pending.append(r)
            else:
                ground_part.append(r)
        # keep the original quantified formulas for further rounds (new terms -> new instances), plus instances that still hold quantifiers
        pending = quantified + new_pending
    dcache = {}
    out, ids = [], set()
    for f in ground_part + [_drop_quantifiers(f, dcache) for f in pending]:
        r = simplify(f)
        if z3.is_true(r) or r.get_id() in ids:
            continue
        ids.add(r.get_id())
        out.append(r)
    return out


def ground_obligation(ob, rounds=2, cap=2000):
    """in-place: the obligation becomes `ground hypotheses |= False`"""
    ob.hyps = ground(ob.hyps, ob.goal, rounds=rounds, cap=cap)
    ob.goal = BoolVal(False)
    return ob
