"""Grounding of an obligation: a quantifier-free weakening that still proves it.

    hyps |= goal      is implied by      unsat( instances(hyps) + skolemised(not goal) )

The negated goal and the hypotheses are put into negation normal form (existentials are skolemised by z3's nnf tactic); every universal
quantifier that is left is replaced by the conjunction of its instances over the *index terms* of matching sort that occur in the query
(arguments of select / store / uninterpreted functions, uninterpreted constants, 0), for a few rounds (instances bring new index terms).
Replacing a universal hypothesis by some of its instances only weakens the hypotheses, so `unsat` of the result is a proof of the
obligation.  The result has no quantifiers, so a failing obligation comes back `sat` with a model instead of `unknown`.
This is the instantiation scheme that is complete for the array property fragment, applied as a heuristic to everything."""
import itertools
import z3
from z3 import And, Or, Not, BoolVal, IntVal, IntSort, substitute_vars, simplify


def _has_var(e, cache):
    i = e.get_id()
    if i in cache:
        return cache[i]
    if z3.is_var(e):
        r = True
    elif z3.is_quantifier(e):
        r = True           # treat terms with binders (lambdas, nested quantifiers) as non-ground for the purpose of the term pool
    else:
        r = any(_has_var(c, cache) for c in e.children())
    cache[i] = r
    return r


def _index_terms(fs, sorts, pool, seen, vcache):
    """ground terms of the wanted sorts that occur as an index (select / store), as an argument of an uninterpreted function, or as an
    uninterpreted constant"""
    stack = list(fs)
    while stack:
        e = stack.pop()
        i = e.get_id()
        if i in seen:
            continue
        seen.add(i)
        if z3.is_quantifier(e):
            stack.append(e.body())
            continue
        if not z3.is_app(e):
            continue
        k = e.decl().kind()
        ch = e.children()
        cand = []
        if k == z3.Z3_OP_SELECT:
            cand = ch[1:]
        elif k == z3.Z3_OP_STORE:
            cand = ch[1:-1]
        elif k == z3.Z3_OP_UNINTERPRETED:
            cand = ch if ch else [e]
        for c in cand:
            key = _sort_key(c.sort())
            if key in sorts and not _has_var(c, vcache):
                lst = pool.setdefault(key, {})
                if c.get_id() not in lst:
                    lst[c.get_id()] = c
        # array-sorted terms are wanted when a quantifier ranges over arrays (key sets)
        key = _sort_key(e.sort())
        if key in sorts and e.sort().kind() == z3.Z3_ARRAY_SORT and not _has_var(e, vcache) and k in (z3.Z3_OP_SELECT, z3.Z3_OP_UNINTERPRETED):
            pool.setdefault(key, {}).setdefault(e.get_id(), e)
        stack.extend(ch)


def _sort_key(s):
    return s.sexpr()


def _collect_sorts(fs):
    out, seen, stack = set(), set(), list(fs)
    while stack:
        e = stack.pop()
        i = e.get_id()
        if i in seen:
            continue
        seen.add(i)
        if z3.is_quantifier(e):
            if not e.is_lambda():
                for v in range(e.num_vars()):
                    out.add(_sort_key(e.var_sort(v)))
            stack.append(e.body())
        elif z3.is_app(e):
            stack.extend(e.children())
    return out


def _inst(e, pool, cap, cache):
    """replace every (positively occurring, the input is in NNF) universal quantifier by the conjunction of its instances over the pool"""
    i = e.get_id()
    if i in cache:
        return cache[i]
    if z3.is_quantifier(e):
        if e.is_forall():
            n = e.num_vars()
            choices = []
            for v in range(n):
                terms = list(pool.get(_sort_key(e.var_sort(v)), {}).values())
                if e.var_sort(v) == IntSort() and not any(z3.is_int_value(t) and t.as_long() == 0 for t in terms):
                    terms.append(IntVal(0))
                choices.append(terms)
            # substitute_vars takes the substitution for de Bruijn index 0 first = the LAST bound variable
            combos = itertools.islice(itertools.product(*choices), cap)
            insts = []
            body = e.body()
            for combo in combos:
                insts.append(simplify(substitute_vars(body, *reversed(combo))))
            r = And(*insts) if insts else BoolVal(True)
        else:
            r = BoolVal(True) if False else e      # an existential that nnf could not skolemise (under a lambda): kept
    elif z3.is_app(e) and e.decl().kind() in (z3.Z3_OP_AND, z3.Z3_OP_OR) and e.num_args() > 0:
        ch = [_inst(c, pool, cap, cache) for c in e.children()]
        r = And(*ch) if e.decl().kind() == z3.Z3_OP_AND else Or(*ch)
    else:
        r = e
    cache[i] = r
    return r


def _drop_quantifiers(e, cache):
    """what is still quantified after the last round is dropped (universal -> True); sound because the input is in NNF"""
    i = e.get_id()
    if i in cache:
        return cache[i]
    if z3.is_quantifier(e) and e.is_forall():
        r = BoolVal(True)
    elif z3.is_app(e) and e.decl().kind() in (z3.Z3_OP_AND, z3.Z3_OP_OR) and e.num_args() > 0:
        ch = [_drop_quantifiers(c, cache) for c in e.children()]
        r = And(*ch) if e.decl().kind() == z3.Z3_OP_AND else Or(*ch)
    else:
        r = e
    cache[i] = r
    return r


def ground(hyps, goal, rounds=2, cap=600):
    """list of assertions without universal quantifiers; if they are unsatisfiable then hyps |= goal"""
    g = z3.Goal()
    for h in hyps:
        g.add(h)
    g.add(Not(goal))
    nnf = z3.Then(z3.Tactic('simplify'), z3.Tactic('nnf'))(g)
    fs = [f for sub in nnf for f in sub]
    sorts = _collect_sorts(fs)
    vcache = {}
    for _ in range(rounds):
        pool, seen = {}, set()
        _index_terms(fs, sorts, pool, seen, vcache)
        cache = {}
        # the quantifiers are kept next to their instances so that the next round can instantiate them over the new index terms
        nxt = []
        for f in fs:
            r = _inst(f, pool, cap, cache)
            nxt.append(r)
            if not z3.eq(r, f):
                nxt.append(f)
        fs = nxt
    dcache = {}
    out, ids = [], set()
    for f in fs:
        r = simplify(_drop_quantifiers(f, dcache))
        if z3.is_true(r) or r.get_id() in ids:
            continue
        ids.add(r.get_id())
        out.append(r)
    return out


def ground_obligation(ob, rounds=2, cap=600):
    """in-place: the obligation becomes `ground hypotheses |= False`"""
    ob.hyps = ground(ob.hyps, ob.goal, rounds=rounds, cap=cap)
    ob.goal = BoolVal(False)
    return ob
