"""Counterexample search for obligations the portfolio leaves `unknown` (quantifiers over uninterpreted functions).

The hypotheses are weakened: every universally quantified integer variable is instantiated only at `anchor + k`
for the obligation's integer witness terms and small offsets k.  The result is quantifier free, so z3 decides it and
returns a model with concrete tables for the uninterpreted functions.  Weakening hypotheses can only add models, so a
model found here is a *candidate* counterexample: it is reported only after it has been replayed on the real code."""
import z3
from z3 import And, Or, Not, Implies, substitute, substitute_vars, IntSort


def _instances(q, terms):
    """all instantiations of the (positive) universal quantifier q over the given integer terms"""
    n = q.num_vars()
    if any(q.var_sort(i) != IntSort() for i in range(n)) or n > 2:
        return None
    body = q.body()
    out = []
    if n == 1:
        for t in terms:
            out.append(substitute_vars(body, t))
    else:
        for t1 in terms:
            for t2 in terms:
                out.append(substitute_vars(body, t1, t2))
    return out


def _rewrite(e, terms, cache):
    i = e.get_id()
    if i in cache:
        return cache[i]
    if z3.is_quantifier(e):
        if e.is_forall():
            inst = _instances(e, terms)
            r = z3.BoolVal(True) if inst is None else And(*[_rewrite(x, terms, cache) for x in inst])
        else:
            r = e
    elif z3.is_app(e) and e.num_args() > 0 and e.decl().kind() in (z3.Z3_OP_AND, z3.Z3_OP_OR):
        ch = [_rewrite(c, terms, cache) for c in e.children()]
        r = And(*ch) if e.decl().kind() == z3.Z3_OP_AND else Or(*ch)
    else:
        r = e
    cache[i] = r
    return r


def weaken(ob, offsets=range(-4, 5), extra_anchors=()):
    """returns a list of quantifier-free(ish) assertions: NNF + skolemisation by z3, then finite instantiation"""
    g = z3.Goal()
    for h in ob.hyps:
        g.add(h)
    g.add(Not(ob.goal))
    nnf = z3.Then(z3.Tactic('simplify'), z3.Tactic('nnf'))(g)
    anchors = [t for k, t in ob.witness.items() if z3.is_expr(t) and t.sort() == IntSort() and k not in ('us', 'n')] + list(extra_anchors)
    small = [z3.IntVal(k) for k in range(0, 7)]
    terms = []
    seen = set()
    for a in anchors:
        for k in offsets:
            t = z3.simplify(a + k)
            if t.get_id() not in seen:
                seen.add(t.get_id()); terms.append(t)
    terms = terms[:60]
    out = []
    cache = {}
    for sub in nnf:
        for f in sub:
            out.append(_rewrite(f, terms, cache))
    return out


def to_smt(ob, offsets, reveal=True):
    fs = weaken(ob, offsets=offsets, extra_anchors=ob.meta.get('search_anchors') or ())
    s = z3.Solver()
    for f in fs:
        s.add(f)
    if reveal:
        from .sv import reveal_dfc
        for eq in reveal_dfc(fs + list(ob.witness.values())):
            s.add(eq)
    for k, term in ob.witness.items():
        s.add(z3.Const('wit!' + k, term.sort()) == term)
    return s.to_smt2()


def candidates(ob, tier='quick', workers=None):
    """candidate models, coarsest instantiation first (fast, most spurious).  Each instantiation level is solved by several
    z3 seeds in parallel worker processes (the queries are unstable: the same text takes 4 s or times out)."""
    import os, concurrent.futures as cf
    from .solve import _z3_task
    workers = workers or min(16, os.cpu_count() or 4)
    budget = 25000 if tier == 'quick' else 90000
    levels = (range(-1, 2), range(-2, 3), range(-4, 5))
    out = []
    ex = cf.ProcessPoolExecutor(max_workers=workers)
    try:
        futs = {}
        for li, offs in enumerate(levels):
            try:
                text = to_smt(ob, offs)
            except z3.Z3Exception:
                continue
            for sd in range(5):
                futs[ex.submit(_z3_task, ((li, sd), text, budget, sd))] = li
        got = set()
        for f in cf.as_completed(futs):
            (li, sd), status, model, secs, backend, reason = f.result()
            if status == 'sat' and li not in got:
                got.add(li)
                out.append((li, model, 'finite instantiation, offsets %d..%d' % (min(levels[li]), max(levels[li]))))
                if len(got) == len(levels):
                    break
    finally:
        procs = list(getattr(ex, '_processes', {}).values())
        ex.shutdown(wait=False, cancel_futures=True)
        for p in procs:
            try:
                p.kill()
            except Exception:       # noqa
                pass
    out.sort(key=lambda x: x[0])
    return [(m, note) for _, m, note in out]
