"""Maps, sets and lists for the key-algebra contracts (C16, C18).

Everything is in the uninterpreted-function style (no z3 Seq / no z3 Array):

  python values modulo ==   sort Val        (elements, keys, values; `==` is assumed to be an equivalence that agrees with hash)
  list / tuple / ulist      sort Lst        index view     len : Lst -> Int,  at : Lst x Int -> Val
                                            element view   mem : Lst x Val -> Bool   (x in l)
                                                           fst : Lst x Val -> Int    (l.index(x): position of the first occurrence)
                                                           memp(l, i, x) := mem(l, x) and fst(l, x) < i   (x in l[:i], a definition, not a symbol)
                                                           nodup : Lst -> Bool
  dict                      sort Dct        dom : Dct x Val -> Bool, get : Dct x Val -> Val,
                                            rk  : Dct x Val -> Int   insertion *time stamp* of a key (only the relative order of two
                                                                      keys is ever used: iteration order = increasing rk; deleting keeps
                                                                      the stamps, inserting a new key stamps it with nxt and bumps nxt)
  set                       a membership closure
  class objects             sort Cls        (type(self) is a symbolic class tag: every subclass is covered at once)

A Python container met by the executor is described by a python-side record (PList / PDict / PSet) whose fields are
*closures* producing z3 terms: a derived container (concatenation, `del`, update, a filtering comprehension over items())
is the definitional expansion of its parents, so most queries are quantifier free.  Containers that come out of a *contract*
(the ulist constructor, a filtering list comprehension, dict.keys(), a havocked loop variable) are fresh constants whose
defining axioms are universally quantified over elements; they are kept as *instance generators* (`Maps.gens`) and instantiated by
the contract module at the witness elements of the obligation (`Maps.inst(elems, idxs)`), as the guide recommends
("state lemmas separately and pass instances as hypotheses").  Finite instantiation only weakens hypotheses, so it is sound.

Every axiom-table entry that is used registers itself with ex.use(...).  `validate_axioms()` checks the element-view axioms
of the list builtins against CPython on all short lists (run by the contract modules on every run).
"""
import ast, itertools
import z3
from z3 import (And, Or, Not, If, Implies, BoolVal, IntVal, Function, DeclareSort, Const, IntSort, BoolSort, simplify, is_true,
                is_false)

from .front import OutOfSubset
from .sv import SV, I, B, S, T, NONE, fresh_name, fresh_int, fresh_bool, zi

Val = DeclareSort('Val')
Lst = DeclareSort('Lst')
Dct = DeclareSort('Dct')
Cls = DeclareSort('Cls')

LEN = Function('len', Lst, IntSort())
AT = Function('at', Lst, IntSort(), Val)
MEM = Function('mem', Lst, Val, BoolSort())
FST = Function('fst', Lst, Val, IntSort())
NODUP = Function('nodup', Lst, BoolSort())

DOM = Function('dom', Dct, Val, BoolSort())
GET = Function('get', Dct, Val, Val)
RK = Function('rk', Dct, Val, IntSort())
NXT = Function('nxt', Dct, IntSort())
CARD = Function('card', Dct, IntSort())

NONE_V = Const('None', Val)
STRV = Function('strlit', IntSort(), Val)          # injection of the string literals met in the source (numbered)
INTV = Function('intval', IntSort(), Val)          # injection of ints
BOOLV = Function('boolval', BoolSort(), Val)
LSTV = Function('listval', Lst, Val)               # a list / tuple used as a value
DCTV = Function('dictval', Dct, Val)
COPYV = Function('copy', Val, Val)                 # copy.copy of an opaque value
IS_STR = Function('is_str', Val, BoolSort())
CALLABLE = Function('callable', Val, BoolSort())
HASHABLE = Function('hashable', Val, BoolSort())
STARTSWITH = Function('startswith', Val, Val, BoolSort())
ENDSWITH = Function('endswith', Val, Val, BoolSort())
ITEMS_OF = Function('items_of_iterating', Val, Val, BoolSort())   # y is produced by iterating the single value x (a character of the string x)
CONTAINS = Function('str_contains', Val, Val, BoolSort())      # literal in s  (substring test on a symbolic string)
CONCAT = Function('str_concat', Val, Val, Val)                 # s + t on two strings (uninterpreted; only its being a string is known)

CLS_LIST = Const('class_list', Cls)
CLS_TUPLE = Const('class_tuple', Cls)
CLS_DICT = Const('class_dict', Cls)
CLS_ULIST = Const('class_ulist', Cls)


def fresh_val(prefix='x'):
    return Const(fresh_name(prefix), Val)


def fresh_lst(prefix='l'):
    return Const(fresh_name(prefix), Lst)


def fresh_dct(prefix='d'):
    return Const(fresh_name(prefix), Dct)


def V(t, ty='any'):
    return SV('val', t, ty=ty)


def pairs(xs):
    return [(x, y) for i, x in enumerate(xs) for y in xs[i + 1:]]


def _dedup_terms(ts):
    seen, out = set(), []
    for t in ts:
        if t.get_id() not in seen:
            seen.add(t.get_id()); out.append(t)
    return out


# ------------------------------------------------------------------------------------------------ python-side records
class PList:
    """len: z3 Int; at(i), mem(x), fst(x), memp(i, x): closures (None when that view is not available); nodup: z3 Bool or None;
    t: the z3 Lst constant when the list is one (base / contract result)"""

    def __init__(self, length, at=None, mem=None, fst=None, memp=None, nodup=None, t=None):
        self.len, self.at, self.mem, self.fst, self.memp, self.nodup, self.t = length, at, mem, fst, memp, nodup, t

    @staticmethod
    def of_const(l):
        return PList(LEN(l), lambda i: AT(l, zi(i)), lambda x: MEM(l, x), lambda x: FST(l, x), lambda i, x: And(MEM(l, x), FST(l, x) < zi(i)), NODUP(l), t=l)

    @staticmethod
    def literal(items):
        """[a, b, c] with Val terms"""
        items = list(items)
        n = len(items)

        def at(i):
            i = zi(i)
            r = items[-1] if items else NONE_V
            for k in range(n - 2, -1, -1):
                r = If(i == k, items[k], r)
            return r

        def fst(x):
            r = IntVal(n)
            for k in range(n - 1, -1, -1):
                r = If(x == items[k], IntVal(k), r)
            return r

        def memp(i, x):
            i = zi(i)
            return Or(*[And(i > k, x == items[k]) for k in range(n)]) if n else BoolVal(False)
        return PList(IntVal(n), at, (lambda x: Or(*[x == a for a in items]) if n else BoolVal(False)), fst, memp,
                     And(*[a != b for a, b in pairs(items)]) if n > 1 else BoolVal(True))

    @staticmethod
    def concat(a, b):
        """a + b.  Element view: x in a+b <=> x in a or x in b; (a+b).index(x) = a.index(x) if x in a else len(a) + b.index(x)"""
        at = None
        if a.at is not None and b.at is not None:
            at = lambda i: If(zi(i) < a.len, a.at(i), b.at(zi(i) - a.len))
        return PList(a.len + b.len, at, lambda x: Or(a.mem(x), b.mem(x)), lambda x: If(a.mem(x), a.fst(x), a.len + b.fst(x)))

    @staticmethod
    def ite(c, a, b):
        def pick(f, g):
            if f is None or g is None:
                return None
            return lambda *xs: If(c, f(*xs), g(*xs))
        nd = None if (a.nodup is None or b.nodup is None) else If(c, a.nodup, b.nodup)
        t = If(c, a.t, b.t) if (a.t is not None and b.t is not None) else None
        return PList(If(c, a.len, b.len), pick(a.at, b.at), pick(a.mem, b.mem), pick(a.fst, b.fst), pick(a.memp, b.memp), nd, t)


class PSet:
    """mem(x): closure; maxlen: z3 Int bounding the number of members (len of the list the set was built from) or None"""

    def __init__(self, mem, maxlen=None):
        self.mem = mem
        self.maxlen = maxlen


class PDict:
    """dom(k), get(k), rk(k): closures; nxt: z3 Int (next free stamp); card: z3 Int or None; t: the Dct constant if it is one"""

    def __init__(self, dom, get, rk, nxt, card=None, t=None):
        self.dom, self.get, self.rk, self.nxt, self.card, self.t = dom, get, rk, nxt, card, t

    @staticmethod
    def of_const(d):
        return PDict(lambda k: DOM(d, k), lambda k: GET(d, k), lambda k: RK(d, k), NXT(d), CARD(d), t=d)

    @staticmethod
    def empty():
        return PDict(lambda k: BoolVal(False), lambda k: NONE_V, lambda k: IntVal(0), IntVal(0), IntVal(0))

    def deleted(self, k0):
        return PDict(lambda k: And(self.dom(k), k != k0), self.get, self.rk, self.nxt)

    def stored(self, k0, v):
        d = self
        return PDict(lambda k: Or(d.dom(k), k == k0), lambda k: If(k == k0, v, d.get(k)),
                     lambda k: If(And(k == k0, Not(d.dom(k0))), d.nxt, d.rk(k)), d.nxt + 1)

    def updated(self, o):
        """dict.update(o): the keys of o overwrite; new keys are appended in o's order"""
        d = self
        return PDict(lambda k: Or(d.dom(k), o.dom(k)), lambda k: If(o.dom(k), o.get(k), d.get(k)),
                     lambda k: If(d.dom(k), d.rk(k), d.nxt + o.rk(k)), d.nxt + o.nxt)

    def filtered(self, cond):
        """{k: v for k, v in d.items() if cond(k, v)}"""
        d = self
        return PDict(lambda k: And(d.dom(k), cond(k, d.get(k))), d.get, d.rk, d.nxt)

    @staticmethod
    def ite(c, a, b):
        t = If(c, a.t, b.t) if (a.t is not None and b.t is not None) else None
        card = If(c, a.card, b.card) if (a.card is not None and b.card is not None) else None
        return PDict(lambda k: If(c, a.dom(k), b.dom(k)), lambda k: If(c, a.get(k), b.get(k)), lambda k: If(c, a.rk(k), b.rk(k)),
                     If(c, a.nxt, b.nxt), card, t)


def memo1(f):
    """memoise a closure on the identity of its z3 arguments (a condition evaluated twice at the same element must be the same term)"""
    cache = {}

    def g(*xs):
        key = tuple(x.get_id() if z3.is_expr(x) else x for x in xs)
        if key not in cache:
            cache[key] = f(*xs)
        return cache[key]
    return g


LIST_CLASSES = ('list', 'tuple', 'ulist', 'dict_keys', 'dict_values', 'range', 'zip')
PY_LISTS = ('list', 'ulist')


# ------------------------------------------------------------------------------------------------ the theory
class Maps:
    """executor theory.  `classes`: {name: (Mod, ClassDef, base-name or None)} for the repo classes whose methods are resolved
    along the MRO and inlined (ulist, dictattr, Dict, wrapper, ...).  `contracts`: {function name: handler(ex, st, args, kwargs)}
    for callees taken by contract."""

    def __init__(self, classes=None, contracts=None, quant=False):
        self.classes = classes or {}
        self.contracts = contracts or {}
        self.quant = quant
        self.gens = []           # instance generators g(E, J) -> [z3 Bool]
        self.elems = []          # skolem witnesses and other elements every generator is instantiated at
        self.idxs = []
        self.mutations = []      # (site, owned?) for the frame report
        self.witness_depth = 0   # 0: only witnesses created by the execution itself are instantiation points
        self.strs = {}
        self.cls_tags = {}
        # distinct string literals are distinct values, and none of them is None
        self.gens.append(lambda E, J: [z3.Distinct(*([STRV(IntVal(i)) for i in range(len(self.strs))] + [NONE_V]))] if self.strs else [])

    # ------------------------------------------------------------------ instances
    def inst(self, elems=(), idxs=(), rounds=3):
        """instances of every registered axiom generator at the given elements / indices (plus the recorded skolem witnesses).
        Evaluating a generator can register further generators and witnesses (a filter condition that builds a key list, a
        cardinality test), hence the passes; conditions are memoised, so a pass is idempotent."""
        out, seen = [], set()
        ckey = (tuple(x.get_id() for x in elems), tuple(zi(j).get_id() for j in idxs), len(self.gens), len(self.elems), len(self.strs))
        if getattr(self, '_inst_cache', (None, None))[0] == ckey:
            return list(self._inst_cache[1])
        for rnd in range(rounds):
            ng, ne = len(self.gens), len(self.elems)
            E = _dedup_terms(list(self.elems) + list(elems))
            J = _dedup_terms(list(self.idxs) + [zi(j) for j in idxs])
            k = 0
            while k < len(self.gens):
                g = self.gens[k]; k += 1
                for f in g(E, J):
                    f = f if z3.is_expr(f) else BoolVal(bool(f))
                    if f.get_id() not in seen:
                        seen.add(f.get_id()); out.append(f)
            if rnd >= self.witness_depth:
                del self.elems[ne:]          # witnesses created while instantiating at witnesses are not instantiation points (finite)
            if len(self.gens) == ng and len(self.elems) == ne:
                break
        self._inst_cache = ((tuple(x.get_id() for x in elems), tuple(zi(j).get_id() for j in idxs), len(self.gens), len(self.elems), len(self.strs)), list(out))
        return out

    def strv(self, lit):
        if lit not in self.strs:
            self.strs[lit] = len(self.strs)
        return STRV(IntVal(self.strs[lit]))

    def cls_tag(self, name):
        if name not in self.cls_tags:
            self.cls_tags[name] = Const('class_' + name, Cls)
        return self.cls_tags[name]

    # ------------------------------------------------------------------ symbolic inputs
    def base_list(self, l):
        def g(E, J):
            out = [LEN(l) >= 0]
            E2 = _dedup_terms(list(E) + [AT(l, j) for j in J])
            for x in E2:
                out.append(Implies(MEM(l, x), And(0 <= FST(l, x), FST(l, x) < LEN(l), AT(l, FST(l, x)) == x)))
            for j in J:
                a = AT(l, j)
                inr = And(0 <= j, j < LEN(l))
                out.append(Implies(inr, And(MEM(l, a), FST(l, a) <= j, Implies(NODUP(l), FST(l, a) == j))))
            return out
        self.gens.append(g)
        return PList.of_const(l)

    def sym_list(self, name, cls='list', tag=None, own=False, **f):
        l = Const(name, Lst)
        return SV('plist', None, pl=self.base_list(l), cls=cls, tag=tag if tag is not None else self.cls_tag(cls), own=own, **f)

    def base_dict(self, d):
        def g(E, J):
            out = [NXT(d) >= 0, CARD(d) >= 0]
            for x in E:
                out.append(Implies(DOM(d, x), And(0 <= RK(d, x), RK(d, x) < NXT(d), CARD(d) >= 1)))
            for x, y in pairs(E):
                out.append(Implies(And(DOM(d, x), DOM(d, y), x != y), And(RK(d, x) != RK(d, y), CARD(d) >= 2)))
            return out
        self.gens.append(g)
        return PDict.of_const(d)

    def sym_dict(self, name, cls='dict', tag=None, own=False, **f):
        d = Const(name, Dct)
        return SV('pdict', None, pd=self.base_dict(d), cls=cls, tag=tag if tag is not None else self.cls_tag(cls), own=own, **f)

    def mk_list(self, pl, cls='list', tag=None, own=True, **f):
        return SV('plist', None, pl=pl, cls=cls, tag=tag if tag is not None else self.cls_tag(cls), own=own, **{k: v for k, v in f.items() if v is not None})

    def mk_dict(self, pd, cls='dict', tag=None, own=True):
        return SV('pdict', None, pd=pd, cls=cls, tag=tag if tag is not None else self.cls_tag(cls), own=own)

    # ------------------------------------------------------------------ contracts of list builders (fresh constants + generators)
    def dedup(self, ex, a):
        """DEDUP(a): no duplicates, same element set, order of first occurrences (the ulist constructor's contract)"""
        r = fresh_lst('dedup')
        R = self.base_list(r)

        def g(E, J):
            out = [NODUP(r), LEN(r) <= a.len]
            for x in E:
                out.append(MEM(r, x) == a.mem(x))
            for x, y in pairs(E):
                out.append(Implies(And(MEM(r, x), MEM(r, y)), (FST(r, x) < FST(r, y)) == (a.fst(x) < a.fst(y))))
            return out
        self.gens.append(g)
        R.mem = a.mem                    # definitional: no instantiation needed for membership
        return R

    def filtered_list(self, ex, a, cond):
        """[o for o in a if cond(o)]: members are the members of a that satisfy cond; first occurrences keep their relative order;
        a duplicate-free source gives a duplicate-free result"""
        r = fresh_lst('filter')
        R = self.base_list(r)
        cond = memo1(cond)

        def g(E, J):
            out = [LEN(r) <= a.len]
            if a.nodup is not None:
                out.append(Implies(a.nodup, NODUP(r)))
            for x in E:
                out.append(MEM(r, x) == And(a.mem(x), cond(x)))
            for x, y in pairs(E):
                out.append(Implies(And(MEM(r, x), MEM(r, y)), (FST(r, x) < FST(r, y)) == (a.fst(x) < a.fst(y))))
            return out
        self.gens.append(g)
        ex.use('axiom:[x for x in xs if p(x)] keeps exactly the members satisfying p, in the order of xs (element view)')
        R.mem = lambda x: And(a.mem(x), cond(x))
        return R

    def keys_list(self, ex, d):
        """list(d) / d.keys(): the keys, without duplicates, in insertion order"""
        r = fresh_lst('keys')
        R = self.base_list(r)

        def g(E, J):
            out = [NODUP(r)]
            if d.card is not None:
                out.append(LEN(r) == d.card)
            for x in E:
                out.append(MEM(r, x) == d.dom(x))
            for x, y in pairs(E):
                out.append(Implies(And(MEM(r, x), MEM(r, y)), (FST(r, x) < FST(r, y)) == (d.rk(x) < d.rk(y))))
            return out
        self.gens.append(g)
        ex.use('axiom:dict.keys() lists the keys without duplicates in insertion order')
        R.mem = d.dom
        return R

    def set_enum(self, ex, ps):
        """the order in which a set is iterated: an unspecified list of its members, each exactly once (at most as many as the list it was built from)"""
        r = fresh_lst('setiter')
        R = self.base_list(r)

        def g(E, J):
            out = [NODUP(r)]
            if ps.maxlen is not None:
                out.append(LEN(r) <= ps.maxlen)
            for x in E:
                out.append(MEM(r, x) == ps.mem(x))
            return out
        self.gens.append(g)
        ex.use('axiom:iterating a set visits every member exactly once, in an unspecified order; len(set(xs)) <= len(xs)')
        R.mem = ps.mem
        return R

    # ------------------------------------------------------------------ mapped lists: [f(u) for u in xs] seen as (xs, f)
    def mapped_view(self, ex, lz):
        """a comprehension result `[elt for target in src]` (the executor's lazylist, which records src / comp / env) as a pair
        (base PList, fn: Val term u -> SV of the element built from the item u); None when the list is not of that form"""
        comp, src = lz.f.get('comp'), lz.f.get('src')
        if comp is None or src is None or len(comp.generators) != 1:
            return None
        g = comp.generators[0]
        if src.kind == 'plist':
            base, inner = src.pl, (lambda u, ty=src.f.get('elty', 'any'): V(u, ty))
        elif src.kind == 'pset' and src.f.get('enum') is not None:
            base, inner = src.f['enum'], (lambda u: V(u))
        elif src.kind == 'lazylist':
            sub = self.mapped_view(ex, src)
            if sub is None:
                return None
            base, inner = sub
        else:
            return None
        env = dict(lz.f.get('env') or {})
        from .symex import State

        def fn(u):
            s2 = State(env=dict(env))
            s2.pending = []; s2.guards = []
            ex.assign(s2, g.target, inner(u), None)
            return ex.eval(s2, comp.elt)          # raise conditions of the element were accounted for where the comprehension was evaluated
        return base, memo1(fn)

    def lazy_as_plist(self, ex, lz):
        """a comprehension whose element is the iterated item itself has the items of the list it iterates"""
        mv = self.mapped_view(ex, lz)
        if mv is None:
            raise OutOfSubset('comprehension result used as a list value')
        base, fn = mv
        u = fresh_val('u')
        el = fn(u)
        if el.kind != 'val' or not el.t.eq(u):
            raise OutOfSubset('comprehension that transforms its items used as a list value')
        ex.use('axiom:[x for x in xs] (any comprehension whose j-th item is xs[j]) is a new list with the items of xs')
        return base

    def sorted_pairs(self, ex, st, lz):
        """sorted([(k(u), u) for u in xs]) with int keys k(u) that differ for different items (obligation at the call): the same pairs in
        increasing key order.  Tuple comparison looks at the second components only when the first are equal, so the items themselves are never
        compared with <.  Element view of the result r (its second components): members and duplicate-freeness of xs, len(xs) items,
        u before v in r <=> k(u) < k(v)."""
        mv = self.mapped_view(ex, lz)
        if mv is None:
            raise OutOfSubset('sorted() of a list that is not a comprehension over a list / set')
        src, fn = mv
        u0 = fresh_val('u')
        el = fn(u0)
        if el.kind != 'tuple' or len(el.items) != 2 or el.items[0].kind != 'int' or el.items[1].kind != 'val' or not el.items[1].t.eq(u0):
            raise OutOfSubset('sorted() of a list whose items are not (int key of x, x) pairs')
        key = memo1(lambda x: fn(x).items[0].t)
        a, b = fresh_val('a'), fresh_val('b')
        self.elems += [a, b]
        ex.oblige(st, 'call.sorted.pre.first_components_of_different_items_differ',
                  Implies(And(src.mem(a), src.mem(b), a != b), key(a) != key(b)), kind='pre')
        r = fresh_lst('sorted')
        R = self.base_list(r)

        def g(E, J):
            out = [LEN(r) == src.len]
            if src.nodup is not None:
                out.append(Implies(src.nodup, NODUP(r)))
            for x in E:
                out.append(MEM(r, x) == src.mem(x))
            for x, y in pairs(E):
                out.append(Implies(And(MEM(r, x), MEM(r, y)), (FST(r, x) < FST(r, y)) == (key(x) < key(y))))
            return out
        self.gens.append(g)
        ex.use('axiom:sorted() of a list of (int, x) tuples whose first components differ for different x is the same tuples in increasing order of '
               'the first component (a permutation; the x themselves are never compared with <)')
        R.mem = src.mem
        comp, env = lz.f['comp'], lz.f.get('env')
        return SV('lazylist', None, n=LEN(r), at=(lambda st2, j: fn(AT(r, zi(j)))), src=self.mk_list(R), comp=comp, env=env)

    def concat(self, ex, a, b):
        """a + b with its duplicate-freeness: nodup(a+b) <=> nodup(a), nodup(b) and no common member (by witness)"""
        c = PList.concat(a, b)
        if a.nodup is not None and b.nodup is not None:
            nd = fresh_bool('nodup_concat')
            w = fresh_val('w')
            self.elems.append(w)
            self.gens.append(lambda E, J: [Implies(nd, And(a.nodup, b.nodup)), Implies(Not(nd), Or(Not(a.nodup), Not(b.nodup), And(a.mem(w), b.mem(w))))]
                             + [Implies(nd, Not(And(a.mem(x), b.mem(x)))) for x in E])
            c.nodup = nd
        return c

    def reify_dict(self, pd, prefix='d'):
        """a Dct constant equal (pointwise, at the instantiation elements) to the described dict"""
        if pd.t is not None:
            return pd
        d = fresh_dct(prefix)
        R = self.base_dict(d)

        def g(E, J):
            out = [NXT(d) == pd.nxt]
            for x in E:
                out.append(DOM(d, x) == pd.dom(x))
                out.append(Implies(DOM(d, x), And(GET(d, x) == pd.get(x), RK(d, x) == pd.rk(x))))
            return out
        self.gens.append(g)
        return R

    # ------------------------------------------------------------------ conversions
    def to_val(self, ex, v):
        if v.kind == 'val':
            return v.t
        if v.kind == 'none':
            return NONE_V
        if v.kind == 'str' and v.t is None:
            return self.strv(v.lit)
        if v.kind == 'int':
            return INTV(v.t)
        if v.kind == 'bool':
            return BOOLV(v.t)
        if v.kind == 'plist' and v.pl.t is not None:
            return LSTV(v.pl.t)
        if v.kind == 'pdict':
            return DCTV(self.reify_dict(v.pd).t)
        raise OutOfSubset('%s used as an element / key / value' % v.kind)

    def from_val(self, t, ty='any'):
        return V(t, ty)

    def as_plist(self, ex, v):
        if v.kind == 'plist':
            return v.pl
        if v.kind == 'tuple':
            return PList.literal([self.to_val(ex, x) for x in v.items])
        if v.kind == 'lazylist':
            return self.lazy_as_plist(ex, v)
        raise OutOfSubset('%s is not a list' % v.kind)

    # ------------------------------------------------------------------ mutation sites (frame)
    def mutate(self, ex, st, site, target):
        own = bool(target.f.get('own'))
        self.mutations.append((site, own))
        ex.oblige(st, 'frame.%s.targets_an_object_created_here' % site, BoolVal(own), kind='frame')

    # ------------------------------------------------------------------ class machinery
    def resolve(self, cls, mname):
        """method resolution along the recorded base chain -> inline key 'Class.method' or None"""
        c = cls
        while c is not None and c in self.classes:
            mod, cdef, base = self.classes[c]
            for n in cdef.body:
                if isinstance(n, ast.FunctionDef) and n.name == mname:
                    return '%s.%s' % (c, mname)
                if isinstance(n, ast.Assign) and len(n.targets) == 1 and isinstance(n.targets[0], ast.Name) and n.targets[0].id == mname \
                        and isinstance(n.value, ast.Name):
                    return self.resolve(c, n.value.id)          # __or__ = __add__
            c = base
        return None

    def is_subclass(self, cls, anc):
        c = cls
        while c is not None:
            if c == anc:
                return True
            c = self.classes[c][2] if c in self.classes else BUILTIN_BASE.get(c)
        return False

    def isinstance_static(self, v, tname):
        """True / False / None (not decidable statically)"""
        if tname in ('str', 'np.str_'):
            if v.kind == 'str':
                return tname == 'str'
            if v.kind == 'val':
                return {'str': tname == 'str'}.get(v.f.get('ty'), False if v.f.get('ty') in ('elem', 'callable', 'nonstr') else None)
            return False
        if v.kind == 'val':
            ty = v.f.get('ty')
            if ty in ('str', 'elem', 'callable', 'key'):
                return False                 # a scalar by precondition: not a list, tuple, dict, range, wrapper ...
            return None
        if v.kind in ('plist', 'pdict') or (v.f.get('cls') is not None and v.kind not in ('cls', 'val')):
            return self.is_subclass(v.cls, tname)          # any symbolic object that carries its static class name
        if v.kind == 'tuple':
            return tname == 'tuple'
        if v.kind in ('none', 'int', 'bool', 'str', 'func'):
            return {'int': v.kind in ('int', 'bool'), 'bool': v.kind == 'bool', 'str': v.kind == 'str'}.get(tname, False)
        return None

    def class_attr(self, cls, name):
        """class-level `name = <expr>` or a @property along the recorded base chain -> ('assign', node) | ('property', key) | None"""
        c = cls
        while c is not None and c in self.classes:
            mod, cdef, base = self.classes[c]
            for n in cdef.body:
                if isinstance(n, ast.Assign) and len(n.targets) == 1 and isinstance(n.targets[0], ast.Name) and n.targets[0].id == name:
                    return ('assign', n.value)
                if isinstance(n, ast.FunctionDef) and n.name == name:
                    if any(isinstance(d, ast.Name) and d.id == 'property' for d in n.decorator_list):
                        return ('property', '%s.%s' % (c, name))
                    return ('method', '%s.%s' % (c, name))
            c = base
        return None

    def attr(self, ex, st, e, recv, name):
        if recv.kind not in ('pdict', 'plist'):
            return NotImplemented
        ca = self.class_attr(recv.cls, name)
        if ca is not None and ca[0] == 'assign':
            from .symex import State
            return ex.eval(State(), ca[1])
        if ca is not None and ca[0] == 'property' and ca[1] in ex.inline:
            return ex.call_inline_expr(st, ca[1], [recv], {})
        if ca is not None and ca[0] == 'method':
            return SV('bound', None, recv=recv, mname=name)
        if recv.kind == 'pdict':
            key = self.resolve(recv.cls, '__getattr__')
            if key is not None and key in ex.inline:
                return ex.call_inline_expr(st, key, [recv, V(self.strv(name), 'str')], {})
        return NotImplemented

    def name(self, ex, st, ident):
        if ident in self.classes or ident in ('list', 'dict', 'tuple'):
            return SV('cls', None, tag=self.cls_tag(ident), base=ident)
        return NotImplemented

    # ------------------------------------------------------------------ hooks: calls
    def pre_call(self, ex, st, e):
        f = e.func
        if isinstance(f, ast.Name) and f.id == 'isinstance' and len(e.args) == 2:
            v = ex.eval(st, e.args[0])
            tn = e.args[1]
            names = [ast.unparse(x) for x in tn.elts] if isinstance(tn, ast.Tuple) else [ast.unparse(tn)]
            res = [self.isinstance_static(v, n) for n in names]
            if any(r is True for r in res):
                return B(True)
            if all(r is False for r in res):
                return B(False)
            return NotImplemented
        has_star = any(isinstance(a, ast.Starred) for a in e.args) or any(k.arg is None for k in e.keywords)
        if has_star:
            fn = self._callee(ex, st, f)
            if fn is None:
                return NotImplemented
            args, kwargs, star, dstar = self._star_args(ex, st, e)
            return self.call_value(ex, st, e, fn, args, kwargs, star=star, dstar=dstar)
        return NotImplemented

    def _callee(self, ex, st, f):
        try:
            if isinstance(f, ast.Attribute):
                recv = ex.eval(st, f.value)
                if recv.kind in ('plist', 'pdict', 'super'):
                    return SV('bound', None, recv=recv, mname=f.attr)
                return ex.eval(st, f)
            if isinstance(f, ast.Name) and f.id not in st.env:
                if f.id in self.contracts or f.id in self.classes or f.id in ('dict', 'list'):
                    return SV('gfunc', None, name=f.id)
                return None
            return ex.eval(st, f)
        except OutOfSubset:
            return None

    def _star_args(self, ex, st, e):
        args, star = [], None
        for a in e.args:
            if isinstance(a, ast.Starred):
                v = ex.eval(st, a.value)
                if v.kind == 'tuple':
                    args.extend(v.items)
                elif v.kind == 'plist' and star is None:
                    star = v
                else:
                    raise OutOfSubset('*%s in call' % v.kind)
            else:
                if star is not None:
                    raise OutOfSubset('positional argument after a symbolic *args')
                args.append(ex.eval(st, a))
        kwargs, dstar = {}, None
        for k in e.keywords:
            if k.arg is None:
                v = ex.eval(st, k.value)
                if v.kind != 'pdict' or dstar is not None:
                    raise OutOfSubset('**%s in call' % v.kind)
                dstar = v
            else:
                kwargs[k.arg] = ex.eval(st, k.value)
        return args, kwargs, star, dstar

    def call(self, ex, st, e, fname, args, kwargs):
        if fname in st.env and isinstance(st.env[fname], SV) and st.env[fname].kind == 'val':
            r = self.call_value(ex, st, e, st.env[fname], args, kwargs)         # f(x) where f is a local holding a callable value
            if r is not NotImplemented:
                return r
        if fname in self.contracts:
            return self.contracts[fname](ex, st, args, kwargs)
        if fname == 'type' and len(args) == 1:
            v = args[0]
            if v.kind in ('plist', 'pdict'):
                return SV('cls', None, tag=v.tag, base=v.cls)
            if v.kind == 'val' and v.f.get('tag') is not None:
                return SV('cls', None, tag=v.f['tag'], base=None)
            raise OutOfSubset('type(%s)' % v.kind)
        if fname == 'super' and len(args) == 2:
            cname = ast.unparse(e.args[0])
            return SV('super', None, of=args[1], after=cname)
        if fname == 'copy' and len(args) == 1:
            v = args[0]
            ex.use('axiom:copy.copy(x) is a new top-level object of the same class with the same items (children shared)')
            if v.kind == 'plist':
                return SV('plist', None, pl=v.pl, cls=v.cls, tag=v.tag, own=True)
            if v.kind == 'pdict':
                return SV('pdict', None, pd=v.pd, cls=v.cls, tag=v.tag, own=True, **{k: x for k, x in v.f.items() if k not in ('pd', 'cls', 'tag', 'own')})
            if v.kind == 'val':
                if v.f.get('ty') in ('callable',):
                    return v                    # copy of a function object is the function itself
                return V(COPYV(v.t), v.f.get('ty'))
            if v.kind in ('none', 'int', 'bool', 'str'):
                return v
            raise OutOfSubset('copy(%s)' % v.kind)
        if fname == 'len' and len(args) == 1:
            v = args[0]
            if v.kind == 'plist':
                return I(v.pl.len)
            if v.kind in ('pdict', 'pset'):
                return SV('card', None, of=v)
            return NotImplemented
        if fname == 'set' and len(args) <= 1:
            if not args:
                return SV('pset', None, ps=PSet(lambda x: BoolVal(False)))
            v = args[0]
            if v.kind == 'plist' or v.kind == 'tuple':
                pl = self.as_plist(ex, v)
                return SV('pset', None, ps=PSet(pl.mem, maxlen=pl.len))
            if v.kind == 'pset':
                return v
            if v.kind == 'pdict':
                return SV('pset', None, ps=PSet(v.pd.dom))
            if v.kind == 'val' and v.f.get('ty') in ('str', 'elem'):
                # set(x) of a value that is not a container iterates x itself: the characters of a string (a TypeError for a number); nothing
                # relates those items to x, so membership is an uninterpreted predicate of (x, item)
                ex.use('axiom:set(x) of a single (non-container) value holds the items of iterating x - for a string its characters - and is unrelated to {x}')
                return SV('pset', None, ps=PSet(lambda y, t=v.t: ITEMS_OF(t, y)))
            raise OutOfSubset('set(%s)' % v.kind)
        if fname == 'list' and len(args) <= 1:
            if not args:
                return self.mk_list(PList.literal([]))
            v = args[0]
            if v.kind in ('plist', 'tuple'):
                ex.use('axiom:list(xs) is a new list with the items of xs')
                r = self.mk_list(self.as_plist(ex, v), elty=v.f.get('elty') if v.kind == 'plist' else None)
                if v.kind == 'tuple':
                    r.f['items_sv'] = list(v.items)          # the items keep their static kinds (a literal string, a mapping, a callable)
                return r
            if v.kind == 'pdict':
                return self.mk_list(self.keys_list(ex, v.pd), elty=v.f.get('kty'))
            raise OutOfSubset('list(%s)' % v.kind)
        if fname == 'sorted' and len(args) == 1 and not kwargs and args[0].kind == 'lazylist':
            return self.sorted_pairs(ex, st, args[0])
        if fname == 'dict' and len(args) == 1 and not kwargs and args[0].kind == 'pdict':
            ex.use('axiom:dict(d) is a new plain dict with the items of d')
            return self.mk_dict(args[0].pd)
        if fname == 'callable' and len(args) == 1:
            v = args[0]
            if v.kind == 'val':
                if v.f.get('ty') == 'callable':
                    return B(True)
                if v.f.get('ty') in ('str', 'elem'):
                    return B(False)
                return B(CALLABLE(v.t))
            return B(v.kind in ('func', 'cls'))
        if fname in self.classes or fname in ('ulist',):
            return self.construct(ex, st, SV('cls', None, tag=self.cls_tag(fname), base=fname), args, kwargs, None, None)
        return NotImplemented

    def call_value(self, ex, st, e, fn, args, kwargs, star=None, dstar=None):
        if fn.kind == 'cls':
            return self.construct(ex, st, fn, args, kwargs, star, dstar)
        if fn.kind == 'gfunc':
            if fn.name in self.contracts:
                return self.contracts[fn.name](ex, st, args, kwargs, star=star, dstar=dstar)
            if fn.name in self.classes:
                return self.construct(ex, st, SV('cls', None, tag=self.cls_tag(fn.name), base=fn.name), args, kwargs, star, dstar)
            if fn.name == 'dict' and len(args) <= 1 and star is None:
                return self.construct(ex, st, SV('cls', None, tag=CLS_DICT, base='dict'), args, kwargs, star, dstar)
        if fn.kind == 'bound':
            if star is not None or dstar is not None:
                h = getattr(self, 'bound_star', None)
                if h:
                    r = h(ex, st, fn, args, kwargs, star, dstar)
                    if r is not NotImplemented:
                        return r
                recv = fn.recv
                key = self.resolve(recv.cls, fn.mname) if recv.kind in ('plist', 'pdict') else None
                if key is not None and key in ex.inline:
                    kw = dict(kwargs)
                    if star is not None:
                        kw['*'] = star
                    if dstar is not None:
                        kw['**'] = dstar
                    return ex.call_inline_expr(st, key, [recv] + list(args), kw)
                raise OutOfSubset('*/** call of method %s' % fn.mname)
            return self.method(ex, st, e, fn.recv, fn.mname, args, kwargs)
        h = self.contracts.get('__call__')
        if h is not None:
            r = h(ex, st, fn, args, kwargs, star, dstar)
            if r is not NotImplemented:
                return r
        return NotImplemented

    # ------------------------------------------------------------------ constructors
    def construct(self, ex, st, cls, args, kwargs, star, dstar):
        base = cls.f.get('base')
        if base is not None and self.is_subclass(base, 'ulist'):
            if star is not None or dstar is not None:
                raise OutOfSubset('ulist(*xs)')
            unique = kwargs.get('unique', B(False))
            if unique.kind != 'bool' or not (is_true(simplify(unique.t)) or is_false(simplify(unique.t))):
                raise OutOfSubset('ulist(unique = <symbolic>)')
            if len(args) == 0:
                ex.use('callee contract:ulist() is empty (body verified in C16 ulist.__init__.*.no_argument.*)')
                return self.mk_list(PList.literal([]), cls=base, tag=cls.tag)
            src = self.as_plist(ex, args[0])
            if is_true(simplify(unique.t)):
                ex.use('callee contract:ulist(xs, unique = True) holds the items of xs (body verified in C16 ulist.__init__.unique.*); its precondition '
                       '"xs has no duplicates" is an obligation at every call site')
                if src.nodup is None:
                    raise OutOfSubset('ulist(xs, unique = True): uniqueness of xs is not expressible')
                ex.oblige(st, 'call.ulist.unique_fast_path.pre.no_duplicates', src.nodup, kind='pre')
                return self.mk_list(src, cls=base, tag=cls.tag, elty=args[0].f.get('elty'))
            ex.use('callee contract:ulist(xs) = DEDUP(xs): no duplicates, same element set, first-occurrence order, at most len(xs) items '
                   '(body verified in C16 ulist.__init__.dedup.*: the set / index / sorted pipeline under the axioms of those builtins)')
            return self.mk_list(self.dedup(ex, src), cls=base, tag=cls.tag, elty=args[0].f.get('elty'))
        if base is not None and self.is_subclass(base, 'dict'):
            return self.construct_dict(ex, st, cls, args, kwargs, star, dstar)
        raise OutOfSubset('constructor of %s' % base)

    def construct_dict(self, ex, st, cls, args, kwargs, star, dstar):
        base = cls.f.get('base')
        if star is not None:
            raise OutOfSubset('dict(*xs)')
        own_ctor, c = False, base
        while c is not None and c in self.classes:
            mod_, cdef_, nxt_ = self.classes[c]
            own_ctor = own_ctor or any(isinstance(n, ast.FunctionDef) and n.name in ('__init__', '__new__') for n in cdef_.body)
            c = nxt_
        if own_ctor:
            ex.use('assumed contract:%s(d) / %s(**kw) is a new mapping of that class holding exactly the given items in the given order '
                   '(the class defines its own constructor; keyword keys must be strings)' % (base, base))
        else:
            ex.use('axiom:%s(d) / %s(**kw) - a dict subclass that defines neither __new__ nor __init__, so this is dict.__new__ + dict.__init__ - is a new mapping of '
                   'that class holding exactly the given items in the given order (keyword keys must be strings; subclasses that override the constructor are '
                   'outside the contract)' % (base, base))
        pd = PDict.empty()
        if len(args) == 1 and args[0].kind == 'pdict':
            pd = args[0].pd
        elif len(args) > 0:
            raise OutOfSubset('%s(%s)' % (base, args[0].kind))
        if dstar is not None:
            pd = pd.updated(dstar.pd) if len(args) else dstar.pd
            self.kw_keys_are_strings(ex, st, dstar)
        for k, v in kwargs.items():
            pd = pd.stored(self.strv(k), self.to_val(ex, v))
        return self.mk_dict(pd, cls=base, tag=cls.tag)

    def kw_keys_are_strings(self, ex, st, d):
        """f(**d) raises TypeError unless every key of d is a string: recorded as a safety obligation at the witness key"""
        h = getattr(self, 'on_kw_call', None)
        if h:
            h(ex, st, d)

    # ------------------------------------------------------------------ hooks: methods
    def method(self, ex, st, e, recv, mname, args, kwargs):
        if recv.kind == 'super':
            return self.super_method(ex, st, e, recv, mname, args, kwargs)
        if recv.kind in ('plist', 'pdict'):
            key = self.resolve(recv.cls, mname)
            if key is not None and key in ex.inline:
                return ex.call_inline_expr(st, key, [recv] + list(args), kwargs)
            return self.builtin_method(ex, st, e, recv, mname, args, kwargs)
        if recv.kind == 'val' and recv.f.get('ty') == 'str' and mname in ('startswith', 'endswith') and len(args) == 1 and args[0].kind == 'str':
            ex.use('uninterpreted:s.%s(literal) on a symbolic string is an uninterpreted predicate' % mname)
            return B((STARTSWITH if mname == 'startswith' else ENDSWITH)(recv.t, self.strv(args[0].lit)))
        if recv.kind == 'val' and recv.f.get('ty') == 'str' and mname == 'split' and len(args) == 1 and args[0].kind == 'str':
            ex.use('precondition:string keys contain no "%s" (dotted access walks nested mappings: outside the key universe)' % args[0].lit)
            st.assume(Not(CONTAINS(recv.t, self.strv(args[0].lit))))
            return self.mk_list(PList.literal([recv.t]))
        return NotImplemented

    def super_method(self, ex, st, e, recv, mname, args, kwargs):
        obj = recv.of
        if obj.kind == 'plist':
            return self.builtin_method(ex, st, e, SV('plist', None, pl=obj.pl, cls='list', tag=CLS_LIST, own=obj.own), mname, args, kwargs)
        if obj.kind == 'pdict':
            # resolution continues after the named class
            after = recv.after
            nxt = self.classes[after][2] if after in self.classes else None
            key = self.resolve(nxt, mname) if nxt is not None else None
            if key is not None and key in ex.inline:
                return ex.call_inline_expr(st, key, [obj] + list(args), kwargs)
            return self.builtin_method(ex, st, e, SV('pdict', None, pd=obj.pd, cls='dict', tag=CLS_DICT, own=obj.own,
                                                     **{k: obj.f[k] for k in ('kty', 'vty') if k in obj.f}), mname, args, kwargs)
        return NotImplemented

    def builtin_method(self, ex, st, e, recv, mname, args, kwargs):
        if recv.kind == 'plist':
            if mname == '__add__' and len(args) == 1:
                o = args[0]
                if o.kind != 'plist' or o.cls not in PY_LISTS:
                    raise OutOfSubset('list.__add__(%s)' % o.kind)
                ex.use('axiom:list + list is the concatenation (index view and element view: x in a+b <=> x in a or x in b; '
                       '(a+b).index(x) = a.index(x) if x in a else len(a) + b.index(x))')
                return self.mk_list(self.concat(ex, recv.pl, o.pl))
            if mname == 'copy' and not args:
                return self.mk_list(recv.pl)
            if mname == 'index' and len(args) == 1 and not kwargs:
                x = self.to_val(ex, args[0])
                if recv.pl.fst is None:
                    raise OutOfSubset('index() on a list without element view')
                ex.use('axiom:xs.index(x) is the position of the first item equal to x; ValueError when there is none')
                if ex.feasible(st, And(*(st.guards + [Not(recv.pl.mem(x))]))):
                    ex.raise_if(st, Not(recv.pl.mem(x)), 'ValueError')
                return I(recv.pl.fst(x))
        if recv.kind == 'pdict':
            pd = recv.pd
            if mname == 'keys' and not args:
                return self.mk_list(self.keys_list(ex, pd), cls='dict_keys', own=True, elty=recv.f.get('kty'))
            if mname == 'items' and not args:
                return SV('items', None, of=recv)
            if mname == 'get' and 1 <= len(args) <= 2:
                k = self.to_val(ex, args[0])
                dflt = self.to_val(ex, args[1]) if len(args) > 1 else NONE_V
                ex.use('axiom:dict.get(k, default)')
                return V(If(pd.dom(k), pd.get(k), dflt))
            if mname == '__getitem__' and len(args) == 1:
                k = self.to_val(ex, args[0])
                ex.use('axiom:dict[k] returns the stored value and raises KeyError for an absent key')
                ex.raise_if(st, Not(pd.dom(k)), 'KeyError')
                return V(pd.get(k))
            if mname == '__or__' and len(args) == 1 and args[0].kind == 'pdict':
                ex.use('axiom:dict | other is a new plain dict {**d, **other}')
                return self.mk_dict(pd.updated(args[0].pd))
            if mname == 'copy' and not args:
                return self.mk_dict(pd, cls=recv.cls, tag=recv.tag)
        return NotImplemented

    # ------------------------------------------------------------------ hooks: statements with effects
    def stmt_expr(self, ex, st, s):
        c = s.value
        if not (isinstance(c, ast.Call) and isinstance(c.func, ast.Attribute)):
            return NotImplemented
        mname = c.func.attr
        base = c.func.value
        # super(C, self).__delitem__(key)
        if isinstance(base, ast.Call) and isinstance(base.func, ast.Name) and base.func.id == 'super' and len(base.args) == 2 \
                and isinstance(base.args[1], ast.Name):
            name = base.args[1].id
            obj = st.env.get(name)
            if obj is not None and obj.kind == 'plist' and mname == '__init__' and not c.keywords:
                # list.__init__(self, *items): the receiver's items are replaced by the items of the argument (none: emptied)
                args, _kw, star, _ds = self._star_args(ex, st, c)
                if star is not None or len(args) > 1:
                    raise OutOfSubset('list.__init__ with %s' % ('a symbolic *args' if star is not None else '%d arguments' % len(args)))
                ex.use('axiom:list.__init__(self, xs) replaces the items of self by the items of xs, in order (no argument: by nothing)')
                self.mutate(ex, st, 'list.__init__', obj)
                pl = self.as_plist(ex, args[0]) if args else PList.literal([])
                f = dict(obj.f); f['pl'] = pl; f.pop('items_sv', None)
                st.env[name] = SV('plist', None, **f)
                return None
            if obj is None or obj.kind != 'pdict':
                return NotImplemented
            if mname == '__delitem__' and len(c.args) == 1:
                k = self.to_val(ex, ex.eval(st, c.args[0]))
                ex.use('axiom:del d[k] removes k (KeyError if absent); other items and their order are kept')
                ex.raise_if(st, Not(obj.pd.dom(k)), 'KeyError')
                self.mutate(ex, st, 'dict.__delitem__', obj)
                st.env[name] = self._with_pd(obj, obj.pd.deleted(k))
                return None
            return NotImplemented
        if isinstance(base, ast.Name) and base.id in st.env:
            obj = st.env[base.id]
            if obj.kind == 'pdict' and mname == 'update' and len(c.args) == 1 and not c.keywords:
                o = ex.eval(st, c.args[0])
                if o.kind == 'kwargs':               # the ** mapping of an inlined call made with explicit keywords only: a literal dict
                    pd0 = PDict.empty()
                    for k_, v_ in o.f['items'].items():
                        pd0 = pd0.stored(self.strv(k_), self.to_val(ex, v_))
                    o = self.mk_dict(pd0)
                if o.kind != 'pdict':
                    raise OutOfSubset('dict.update(%s)' % o.kind)
                ex.use('axiom:d.update(o): the items of o overwrite / are appended in the order of o')
                self.mutate(ex, st, 'dict.update', obj)
                st.env[base.id] = self._with_pd(obj, obj.pd.updated(o.pd))
                return None
        return NotImplemented

    @staticmethod
    def _with_pd(obj, pd):
        f = dict(obj.f); f['pd'] = pd
        return SV('pdict', None, **f)

    def delete_subscript(self, ex, st, tg, recv, idx):
        if recv.kind != 'pdict':
            return NotImplemented
        key = self.resolve(recv.cls, '__delitem__')
        if key is not None and key in ex.inline:
            return self._run_mutator(ex, st, key, recv, [idx])
        k = self.to_val(ex, idx)
        ex.use('axiom:del d[k] removes k (KeyError if absent); other items and their order are kept')
        ex.raise_if(st, Not(recv.pd.dom(k)), 'KeyError')
        self.mutate(ex, st, 'dict.__delitem__', recv)
        return self._with_pd(recv, recv.pd.deleted(k))

    def _run_mutator(self, ex, st, key, recv, args):
        """run an inlined method that mutates its receiver; the receiver's final value is read back from the callee's `self`"""
        base = len(st.pc)
        outs = ex.run_function(st, key, [recv] + list(args), {})
        rets = [o for o in outs if o.kind == 'return']
        for o in outs:
            if o.kind == 'raise':
                cond = And(*o.st.pc[base:]) if len(o.st.pc) > base else BoolVal(True)
                ex.raise_if(st, cond, o.val)
        if len(rets) != 1:
            raise OutOfSubset('%s: %d normal paths (one expected)' % (key, len(rets)))
        o = rets[0]
        st.pc = list(o.st.pc)
        mod, fdef = ex.inline[key]
        return o.st.env[fdef.args.args[0].arg]

    def store_subscript(self, ex, st, tg, recv, idx, v):
        if recv.kind != 'pdict':
            return NotImplemented
        key = self.resolve(recv.cls, '__setitem__')
        if key is not None and key in ex.inline:
            raise OutOfSubset('user-defined __setitem__')
        k = self.to_val(ex, idx)
        ex.use('axiom:d[k] = v stores v under k (a new key is appended to the order)')
        h = getattr(self, 'on_store', None)
        if h:
            h(ex, st, recv, k)
        self.mutate(ex, st, 'dict.__setitem__', recv)
        return self._with_pd(recv, recv.pd.stored(k, self.to_val(ex, v)))

    # ------------------------------------------------------------------ hooks: expressions
    def subscript(self, ex, st, e, recv, idx):
        if recv.kind == 'pdict':
            key = self.resolve(recv.cls, '__getitem__')
            if key is not None and key in ex.inline:
                return ex.call_inline_expr(st, key, [recv, idx], {})
            k = self.to_val(ex, idx)
            ex.use('axiom:dict[k] returns the stored value and raises KeyError for an absent key')
            ex.raise_if(st, Not(recv.pd.dom(k)), 'KeyError')
            return V(recv.pd.get(k))
        if recv.kind == 'plist' and idx.kind == 'int':
            pl = recv.pl
            svs = recv.f.get('items_sv')
            if svs is not None and z3.is_int_value(simplify(idx.t)) and -len(svs) <= simplify(idx.t).as_long() < len(svs):
                return svs[simplify(idx.t).as_long()]
            if pl.at is None:
                raise OutOfSubset('indexing a list without index view')
            i = idx.t
            ex.raise_if(st, Not(And(-pl.len <= i, i < pl.len)), 'IndexError')
            ex.use('axiom:xs[i] (negative i counts from the end; IndexError outside)')
            return V(pl.at(If(i < 0, i + pl.len, i)), recv.f.get('elty', 'any'))
        return NotImplemented

    def compare(self, ex, st, e, op, a, b):
        if op in ('In', 'NotIn'):
            r = None
            if b.kind == 'plist' or b.kind == 'tuple':
                r = self.as_plist(ex, b).mem(self.to_val(ex, a))
                ex.use('axiom:x in xs <=> some item of xs equals x')
            elif b.kind == 'val' and b.f.get('ty') == 'str' and a.kind == 'str' and a.t is None:
                ex.use('uninterpreted:literal in s on a symbolic string is an uninterpreted predicate')
                r = CONTAINS(b.t, self.strv(a.lit))
            elif b.kind == 'pset':
                r = b.ps.mem(self.to_val(ex, a))
            elif b.kind == 'pdict':
                h = getattr(self, 'on_lookup', None)
                k = self.to_val(ex, a)
                if h:
                    h(ex, st, b, k)
                r = b.pd.dom(k)
            if r is None:
                return NotImplemented
            return r if op == 'In' else Not(r)
        if op in ('Eq', 'NotEq'):
            if a.kind == 'cls' and b.kind == 'cls':
                r = a.tag == b.tag
                return r if op == 'Eq' else Not(r)
            if a.kind == 'card' or b.kind == 'card':
                return self.card_compare(ex, st, op, a, b)
            if {a.kind, b.kind} <= {'val', 'str', 'none', 'int', 'bool'} and 'val' in (a.kind, b.kind):
                r = self.to_val(ex, a) == self.to_val(ex, b)
                return r if op == 'Eq' else Not(r)
        if op in ('Gt', 'GtE', 'Lt', 'LtE') and (a.kind == 'card' or b.kind == 'card'):
            return self.card_compare(ex, st, op, a, b)
        return NotImplemented

    def card_compare(self, ex, st, op, a, b):
        """len(container) against a small constant, by witnesses: len == 0 <=> no member; len > 1 <=> two distinct members"""
        flip = {'Gt': 'Lt', 'Lt': 'Gt', 'GtE': 'LtE', 'LtE': 'GtE', 'Eq': 'Eq', 'NotEq': 'NotEq'}
        if b.kind == 'card':
            a, b, op = b, a, flip[op]
        if b.kind != 'int' or not z3.is_int_value(simplify(b.t)):
            raise OutOfSubset('len(container) compared with a symbolic number')
        n = simplify(b.t).as_long()
        c = a.of
        mem = c.pd.dom if c.kind == 'pdict' else c.ps.mem
        # normalise to  len >= m
        if op == 'Gt':
            m, neg = n + 1, False
        elif op == 'GtE':
            m, neg = n, False
        elif op == 'Lt':
            m, neg = n, True
        elif op == 'LtE':
            m, neg = n + 1, True
        elif op in ('Eq', 'NotEq') and n == 0:
            m, neg = 1, (op == 'Eq')
        else:
            raise OutOfSubset('len(container) == %d' % n)
        if m <= 0:
            return BoolVal(not neg)
        if m > 2:
            raise OutOfSubset('len(container) >= %d' % m)
        r = self.at_least(ex, mem, m)
        return Not(r) if neg else r

    def at_least(self, ex, mem, m):
        ex.use('axiom:len(c) >= %d <=> c has %d distinct member(s)' % (m, m))
        if self.quant:
            x, y = Const(fresh_name('qx'), Val), Const(fresh_name('qy'), Val)
            if m == 1:
                return z3.Exists([x], mem(x))
            return z3.Exists([x, y], And(mem(x), mem(y), x != y))
        b = fresh_bool('atleast%d' % m)
        if m == 1:
            w = fresh_val('w')
            self.elems.append(w)
            self.gens.append(lambda E, J: [Implies(b, mem(w))] + [Implies(mem(x), b) for x in E])
        else:
            w1, w2 = fresh_val('w'), fresh_val('w')
            self.elems += [w1, w2]
            self.gens.append(lambda E, J: [Implies(b, And(mem(w1), mem(w2), w1 != w2))] + [Implies(And(mem(x), mem(y), x != y), b) for x, y in pairs(E)])
        return b

    def truth(self, ex, st, v):
        if v.kind == 'plist':
            return v.pl.len > 0
        if v.kind == 'card':
            return self.card_compare(ex, st, 'Gt', v, I(0))
        if v.kind in ('pdict', 'pset'):
            return self.card_compare(ex, st, 'Gt', SV('card', None, of=v), I(0))
        if v.kind in ('cls', 'bound', 'gfunc'):
            return BoolVal(True)
        return NotImplemented

    def is_none(self, ex, st, v):
        if v.kind in ('plist', 'pdict', 'pset', 'cls', 'super', 'card', 'items'):
            return BoolVal(False)
        if v.kind == 'val':
            if v.f.get('ty') in ('str', 'elem', 'callable', 'key'):
                return BoolVal(False)
            return v.t == NONE_V
        return NotImplemented

    def binop(self, ex, st, e, op, a, b):
        if op in ('BitAnd', 'BitOr', 'Sub') and a.kind == 'pset' and b.kind == 'pset':
            ex.use('axiom:set & | - are intersection, union and difference of the member predicates')
            if op == 'BitAnd':
                return SV('pset', None, ps=PSet(lambda x: And(a.ps.mem(x), b.ps.mem(x))))
            if op == 'BitOr':
                return SV('pset', None, ps=PSet(lambda x: Or(a.ps.mem(x), b.ps.mem(x))))
            return SV('pset', None, ps=PSet(lambda x: And(a.ps.mem(x), Not(b.ps.mem(x)))))
        if op == 'Add' and all(v.kind == 'str' or (v.kind == 'val' and v.f.get('ty') == 'str') for v in (a, b)) and 'val' in (a.kind, b.kind):
            ex.use('uninterpreted:s + t on strings is an uninterpreted function of (s, t); the result is a string')
            r = CONCAT(self.to_val(ex, a), self.to_val(ex, b))
            ex.fact(IS_STR(r))
            return V(r, 'str')
        return NotImplemented

    def expr(self, ex, st, e):
        if isinstance(e, ast.List):
            svs = [ex.eval(st, x) for x in e.elts]
            r = self.mk_list(PList.literal([self.to_val(ex, x) for x in svs]))
            r.f['items_sv'] = svs            # a literal list keeps its items (string literals stay literals when it is iterated)
            return r
        if isinstance(e, ast.DictComp):
            return self.dictcomp(ex, st, e)
        if isinstance(e, ast.Dict):
            if any(k is None for k in e.keys):
                raise OutOfSubset('{**d}')
            pd = PDict.empty()
            for k, v in zip(e.keys, e.values):
                pd = pd.stored(self.to_val(ex, ex.eval(st, k)), self.to_val(ex, ex.eval(st, v)))
            return self.mk_dict(pd)
        return NotImplemented

    # ------------------------------------------------------------------ comprehensions
    def _eval_pure(self, ex, st, env, node, what):
        sub = st.fork(); sub.env = dict(env); sub.pending = []; sub.guards = []
        n0 = len(sub.pc)
        v = ex.eval(sub, node)
        return v, sub.pending, sub.pc[n0:]

    def listcomp(self, ex, st, e):
        if len(e.generators) != 1 or e.generators[0].is_async:
            return NotImplemented
        g = e.generators[0]
        if not g.ifs:
            return NotImplemented
        it = ex.eval(st, g.iter)
        if it.kind not in ('plist', 'pdict'):
            return NotImplemented
        if not (isinstance(g.target, ast.Name) and isinstance(e.elt, ast.Name) and e.elt.id == g.target.id):
            raise OutOfSubset('filtering comprehension whose element is not the loop variable: %s' % ast.unparse(e)[:60])
        src = it.pl if it.kind == 'plist' else self.keys_list(ex, it.pd)
        env = dict(st.env)
        elty = it.f.get('elty', 'any') if it.kind == 'plist' else it.f.get('kty', 'key')
        theory = self

        def cond(x):
            env2 = dict(env); env2[g.target.id] = V(x, elty)
            cs = []
            for c in g.ifs:
                v, pend, extra = theory._eval_pure(ex, st, env2, c, 'filter')
                if pend or extra:
                    raise OutOfSubset('comprehension filter that can raise / has side conditions: %s' % ast.unparse(c)[:60])
                cs.append(ex.truth(st, v))
            return And(*cs) if len(cs) > 1 else cs[0]
        return self.mk_list(self.filtered_list(ex, src, cond))

    def dictcomp(self, ex, st, e):
        if len(e.generators) != 1 or e.generators[0].is_async:
            raise OutOfSubset('dict comprehension with several generators')
        g = e.generators[0]
        if isinstance(g.iter, ast.Call) and isinstance(g.iter.func, ast.Name) and g.iter.func.id == 'zip' and 'zip' not in st.env \
                and len(g.iter.args) == 2 and not g.iter.keywords and not g.ifs:
            r = self.dictcomp_zip(ex, st, e, g)
            if r is not NotImplemented:
                return r
        it = ex.eval(st, g.iter)
        env = dict(st.env)
        theory = self
        if it.kind == 'items' and isinstance(g.target, ast.Tuple) and len(g.target.elts) == 2 and all(isinstance(x, ast.Name) for x in g.target.elts):
            kn, vn = g.target.elts[0].id, g.target.elts[1].id
            src = it.of.pd
            kty = it.of.f.get('kty', 'key')

            def cond(k, v):
                env2 = dict(env); env2[kn] = V(k, kty); env2[vn] = V(v)
                cs = []
                for c in g.ifs:
                    val, pend, extra = theory._eval_pure(ex, st, env2, c, 'filter')
                    if pend or extra:
                        raise OutOfSubset('comprehension filter that can raise: %s' % ast.unparse(c)[:60])
                    cs.append(ex.truth(st, val))
                return And(*cs) if cs else BoolVal(True)
            cond = memo1(cond)
            if not (isinstance(e.value, ast.Name) and e.value.id == vn):
                raise OutOfSubset('dict comprehension that transforms values: %s' % ast.unparse(e)[:60])
            if isinstance(e.key, ast.Name) and e.key.id == kn:
                ex.use('axiom:{k: v for k, v in d.items() if p(k, v)} keeps exactly the items satisfying p, in order')
                res = src.filtered(cond)
                c = fresh_int('card')
                res.card = c
                if src.card is not None:
                    sc = src.card
                    self.gens.append(lambda E, J: [c >= 0, c <= sc] + [Implies(And(src.dom(x), Not(res.dom(x))), c < sc) for x in E]
                                     + [Implies(res.dom(x), c >= 1) for x in E] + [Implies(And(res.dom(x), res.dom(y), x != y), c >= 2) for x, y in pairs(E)])
                return self.mk_dict(res)
            # key transform m(k): {m(k): v for k, v in d.items()}
            if g.ifs:
                raise OutOfSubset('dict comprehension with key transform and filter')

            def m(k):
                env2 = dict(env); env2[kn] = V(k, kty)
                val, pend, extra = theory._eval_pure(ex, st, env2, e.key, 'key')
                if pend or extra:
                    raise OutOfSubset('key expression that can raise: %s' % ast.unparse(e.key)[:60])
                return theory.to_val(ex, val)
            m = memo1(m)
            return self.mk_dict(self.rekeyed(ex, src, m))
        if it.kind == 'plist' and isinstance(g.target, ast.Name) and not g.ifs and isinstance(e.key, ast.Name) and e.key.id == g.target.id:
            # {k: f(k) for k in keys}: raises iff f raises for some k; keys in first-occurrence order
            kn = g.target.id
            src = it.pl
            elty = it.f.get('elty', 'any')
            ok = fresh_bool('dictcomp_ok')

            def val_at(k):
                env2 = dict(env); env2[kn] = V(k, elty)
                val, pend, extra = theory._eval_pure(ex, st, env2, e.value, 'value')
                rc = []
                for o in pend:
                    rc.append((And(*o.st.pc[len(st.pc):]) if len(o.st.pc) > len(st.pc) else BoolVal(True), o.val))
                return theory.to_val(ex, val), rc, extra
            val_at = memo1(val_at)
            # the comprehension raises iff the value expression raises for some element: probe element w
            w = fresh_val('w')
            self.elems.append(w)
            _, rc, _ = val_at(w)
            for cnd, exc in rc:
                side = st.fork(); side.guards = []
                side.pc += st.guards + [src.mem(w), cnd]
                st.pending.append(_mk_raise(side, exc))
            st.assume(ok)

            def gen(E, J):
                out = []
                for x in E:
                    _, rcx, extra = val_at(x)
                    for cnd, _exc in rcx:
                        out.append(Implies(And(ok, src.mem(x)), Not(cnd)))
                    for f in extra:
                        out.append(Implies(And(ok, src.mem(x)), f))
                return out
            self.gens.append(gen)
            ex.use('axiom:{k: f(k) for k in ks} has the members of ks as keys (first-occurrence order) and raises iff some f(k) raises')
            res = PDict(src.mem, lambda k: val_at(k)[0], src.fst, src.len)
            return self.mk_dict(res)
        raise OutOfSubset('dict comprehension form: %s' % ast.unparse(e)[:80])

    def dictcomp_zip(self, ex, st, e, g):
        """{k: v for k, v in zip(ks, vs)} over two lists of equal length (obligation): the keys are the members of ks in first-occurrence
        order, the value under k is vs[j] for the last j with ks[j] == k (the only such j when ks is duplicate free)"""
        if not (isinstance(g.target, ast.Tuple) and len(g.target.elts) == 2 and all(isinstance(x, ast.Name) for x in g.target.elts)
                and isinstance(e.key, ast.Name) and isinstance(e.value, ast.Name) and e.key.id == g.target.elts[0].id and e.value.id == g.target.elts[1].id):
            return NotImplemented
        a, b = ex.eval(st, g.iter.args[0]), ex.eval(st, g.iter.args[1])
        if a.kind != 'plist' or b.kind != 'plist' or b.pl.at is None or a.pl.at is None or a.pl.fst is None:
            return NotImplemented
        A, Bv = a.pl, b.pl
        ex.oblige(st, 'zip.equal_lengths', A.len == Bv.len, kind='pre')
        LAST = Function(fresh_name('last_index'), Val, IntSort())

        def gen(E, J):
            out = []
            for x in E:
                out.append(Implies(A.mem(x), And(A.fst(x) <= LAST(x), LAST(x) < A.len, A.at(LAST(x)) == x)))
                if A.nodup is not None:
                    out.append(Implies(And(A.mem(x), A.nodup), LAST(x) == A.fst(x)))
                for j in J:
                    out.append(Implies(And(0 <= j, j < A.len, A.at(j) == x), j <= LAST(x)))
            return out
        self.gens.append(gen)
        ex.use('axiom:{k: v for k, v in zip(ks, vs)} for equally long lists has the members of ks as keys (first-occurrence order); the value under k '
               'is vs[j] for the last j with ks[j] == k')
        return self.mk_dict(PDict(A.mem, lambda k: Bv.at(LAST(k)), A.fst, A.len))

    def rekeyed(self, ex, src, m):
        """{m(k): v for k, v in d.items()}: every m(k) is a key; every key k' is m(k) for the *last* k (in order) with m(k) = k'
        and carries that k's value; distinct new keys are ordered by the first key mapped onto them"""
        d = fresh_dct('rekey')
        R = self.base_dict(d)
        INV = Function(fresh_name('preimage'), Val, Val)
        FIRST = Function(fresh_name('firstpre'), Val, Val)

        def g(E, J):
            out = []
            E2 = _dedup_terms(list(E) + [m(x) for x in E] + [INV(x) for x in E])
            for x in E2:
                out.append(Implies(src.dom(x), And(DOM(d, m(x)), src.rk(x) <= src.rk(INV(m(x))), src.rk(FIRST(m(x))) <= src.rk(x))))
                out.append(Implies(DOM(d, x), And(src.dom(INV(x)), m(INV(x)) == x, GET(d, x) == src.get(INV(x)),
                                                  src.dom(FIRST(x)), m(FIRST(x)) == x, RK(d, x) == src.rk(FIRST(x)))))
            return out
        self.gens.append(g)
        ex.use('axiom:{m(k): v for k, v in d.items()}: keys are the images, a later item overwrites an earlier one with the same new key, '
               'new keys are ordered by their first source key')
        return R

    def iterate(self, ex, st, it):
        if it.kind == 'plist':
            pl = it.pl
            if pl.at is None:
                raise OutOfSubset('iteration over a list without index view')
            elty = it.f.get('elty', 'any')
            svs = it.f.get('items_sv')
            if svs is not None:
                def at_lit(st2, j):
                    jj = simplify(zi(j))
                    return svs[jj.as_long()] if z3.is_int_value(jj) and 0 <= jj.as_long() < len(svs) else V(pl.at(j), elty)
                return pl.len, at_lit
            return pl.len, (lambda st2, j: V(pl.at(j), elty))
        if it.kind == 'tuple':
            pl = self.as_plist(ex, it)
            return pl.len, (lambda st2, j: V(pl.at(j)))
        if it.kind == 'pset':
            S = it.f.get('enum')
            if S is None:
                S = self.set_enum(ex, it.ps)
                it.f['enum'] = S
            ps = it.ps

            def at_set(st2, j):
                j = zi(j)
                ex.fact(Implies(And(0 <= j, j < S.len), ps.mem(S.at(j))))        # instance: an item met while iterating the set is a member of it
                return V(S.at(j))
            return S.len, at_set
        if it.kind == 'items':
            # for k, v in d.items(): the keys in insertion order, each with its value
            pd = it.of.pd
            kl = it.f.get('keys')
            if kl is None:
                kl = self.keys_list(ex, pd)
                it.f['keys'] = kl
            kty = it.of.f.get('kty', 'key')
            ex.use('axiom:for k, v in d.items() visits the keys in insertion order, each once, with v = d[k]')
            return kl.len, (lambda st2, j: T([V(kl.at(j), kty), V(pd.get(kl.at(j)), it.of.f.get('vty', 'any'))]))
        return NotImplemented

    # ------------------------------------------------------------------ havoc / merge
    def fresh_like(self, ex, st, name, v):
        if v.kind == 'pdict':
            d = fresh_dct(name)
            f = dict(v.f); f['pd'] = self.base_dict(d)
            return SV('pdict', None, **f)
        if v.kind == 'plist':
            l = fresh_lst(name)
            f = dict(v.f); f['pl'] = self.base_list(l)
            return SV('plist', None, **f)
        if v.kind == 'val':
            return V(fresh_val(name), v.f.get('ty'))
        if v.kind == 'pset':
            P = Function(fresh_name(name), Val, BoolSort())
            return SV('pset', None, ps=PSet(lambda x: P(x)))
        return NotImplemented

    def merge(self, ex, st, c, a, b):
        if a.kind == b.kind == 'plist':
            if a.cls != b.cls:
                return NotImplemented
            return SV('plist', None, pl=PList.ite(c, a.pl, b.pl), cls=a.cls, tag=If(c, a.tag, b.tag), own=a.own and b.own)
        if a.kind == b.kind == 'pdict':
            if a.cls != b.cls:
                return NotImplemented
            f = dict(a.f); f.update(pd=PDict.ite(c, a.pd, b.pd), tag=If(c, a.tag, b.tag), own=a.own and b.own)
            return SV('pdict', None, **f)
        if {a.kind, b.kind} <= {'val', 'none', 'str', 'int', 'bool'}:
            return V(If(c, self.to_val(ex, a), self.to_val(ex, b)))
        return NotImplemented


def _mk_raise(side, exc):
    from .symex import Outcome
    return Outcome('raise', side, exc)


BUILTIN_BASE = {'ulist': 'list', 'dictattr': 'dict', 'list': None, 'dict': None, 'tuple': None, 'dict_keys': None}


# ------------------------------------------------------------------------------------------------ axiom validation
def validate_axioms(maxlen=4, symbols=3):
    """the element-view axioms used above, checked against CPython on every list of length <= maxlen over `symbols` symbols:
    concatenation, literal lists, filtering comprehension, DEDUP as first-occurrence order, dict stamps under del / store / update"""
    syms = list(range(symbols))
    lists = [list(t) for n in range(maxlen + 1) for t in itertools.product(syms, repeat=n)]
    fst = lambda l, x: l.index(x) if x in l else None

    def dedup(xs):
        out = []
        for x in xs:
            if x not in out:
                out.append(x)
        return out
    bad = []
    for a in lists:
        d = dedup(a)
        for x in syms:
            if (x in d) != (x in a):
                bad.append(('dedup.mem', a, x))
        for x in d:
            for y in d:
                if (fst(d, x) < fst(d, y)) != (fst(a, x) < fst(a, y)):
                    bad.append(('dedup.order', a, x, y))
        for p in (lambda v: v != 0, lambda v: v == 1):
            r = [o for o in a if p(o)]
            for x in syms:
                if (x in r) != (x in a and p(x)):
                    bad.append(('filter.mem', a, x))
            for x in set(r):
                for y in set(r):
                    if (fst(r, x) < fst(r, y)) != (fst(a, x) < fst(a, y)):
                        bad.append(('filter.order', a, x, y))
            if len(set(a)) == len(a) and len(set(r)) != len(r):
                bad.append(('filter.nodup', a))
        for b in lists[:40]:
            c = a + b
            for x in syms:
                if (x in c) != (x in a or x in b):
                    bad.append(('concat.mem', a, b, x))
                if x in c and fst(c, x) != (fst(a, x) if x in a else len(a) + fst(b, x)):
                    bad.append(('concat.fst', a, b, x))
    # set iteration, list.index, sorted() of (int key, item) pairs whose keys differ for different items (element view of the second components)
    class Opaque:                      # items that cannot be ordered: sorted() must never compare two of them with <
        def __init__(self, v):
            self.v = v

        def __eq__(self, o):
            return self.v == o.v

        def __hash__(self):
            return hash(self.v)
    for a in lists:
        it = list(set(a))
        if len(it) != len(set(it)) or len(it) > len(a) or any((x in it) != (x in a) for x in syms):
            bad.append(('set.iter', a))
        for x in set(a):
            i = a.index(x)
            if a[i] != x or any(a[j] == x for j in range(i)):
                bad.append(('index', a, x))
        for keyf in (lambda v: 10 - 3 * v, lambda v: (v * v + 1) % 5):          # injective on the symbols
            for src in (a, it):
                try:
                    r = [v.v for _, v in sorted([(keyf(u), Opaque(u)) for u in src])]
                except TypeError:
                    bad.append(('sorted.compares_items', src)); continue
                if len(r) != len(src) or any((x in r) != (x in src) for x in syms) or (len(set(r)) == len(r)) != (len(set(src)) == len(src)):
                    bad.append(('sorted.perm', src))
                for x in set(r):
                    for y in set(r):
                        if (fst(r, x) < fst(r, y)) != (keyf(x) < keyf(y)):
                            bad.append(('sorted.order', src, x, y))
    # {k: v for k, v in zip(ks, vs)}: keys in first-occurrence order, the value of the last occurrence
    for a in lists:
        vs = ['v%d' % j for j in range(len(a))]
        r = {k: v for k, v in zip(a, vs)}
        if list(r) != dedup(a) or any(r[k] != vs[max(j for j in range(len(a)) if a[j] == k)] for k in r):
            bad.append(('dictcomp.zip', a))
    # dict stamps: relative order of keys under del / store / update equals the order given by the stamp model
    for a in lists:
        if len(set(a)) != len(a):
            continue
        base = {k: 'v%d' % k for k in a}
        for b in lists[:40]:
            if len(set(b)) != len(b):
                continue
            o = {k: 'o%d' % k for k in b}
            r = dict(base); r.update(o)
            rk = {k: (a.index(k) if k in a else len(a) + b.index(k)) for k in r}
            if list(r) != sorted(r, key=lambda k: rk[k]) or any(r[k] != (o[k] if k in o else base[k]) for k in r):
                bad.append(('update', a, b))
        for k in syms:
            r = dict(base); r.pop(k, None)
            if list(r) != [x for x in a if x != k]:
                bad.append(('del', a, k))
            r = dict(base); r[k] = 'new'
            if list(r) != (a if k in a else a + [k]):
                bad.append(('store', a, k))
    return bad
