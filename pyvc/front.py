"""Front end: load the real source, locate functions and regions structurally."""
import ast, hashlib, os

REPO = os.environ.get('PYG_REPO', '/repo')
SRCDIR = os.path.join(REPO, 'src', 'pyg_base')


class SelectorError(Exception):
    """A structural selector no longer matches: the function is UNDECIDED, never a violation."""


class OutOfSubset(Exception):
    """The executor met a construct outside the verified subset."""


class Mod:
    def __init__(self, name):
        self.name = name
        self.path = os.path.join(SRCDIR, name + '.py')
        try:
            self.text = open(self.path).read()
        except OSError as e:
            raise SelectorError('cannot read %s: %s' % (self.path, e))
        try:
            self.tree = ast.parse(self.text)
        except SyntaxError as e:
            raise SelectorError('cannot parse %s: %s' % (self.path, e))
        self.sha = hashlib.sha256(self.text.encode()).hexdigest()

    def func(self, qual):
        """'dt_bump', 'Calendar.adjust', 'loops.__call__.wrapped' -> FunctionDef"""
        node = self.tree
        for part in qual.split('.'):
            found = None
            for n in (node.body if hasattr(node, 'body') else []):
                if isinstance(n, (ast.FunctionDef, ast.ClassDef, ast.AsyncFunctionDef)) and n.name == part:
                    found = n   # last definition wins, as in Python
            if found is None:
                # search nested blocks (function defined inside if/try)
                for n in walk_no_defs(node):
                    if isinstance(n, (ast.FunctionDef, ast.ClassDef)) and n.name == part and n is not node:
                        found = n
            if found is None:
                raise SelectorError('%s: no %s in %s' % (self.name, part, qual))
            node = found
        return node

    def has_func(self, qual):
        try:
            self.func(qual); return True
        except SelectorError:
            return False

    def global_assign(self, name):
        """value node of the last module-level `name = ...`"""
        found = None
        for n in self.tree.body:
            if isinstance(n, ast.Assign) and any(isinstance(t, ast.Name) and t.id == name for t in n.targets):
                found = n.value
        if found is None:
            raise SelectorError('%s: no global %s' % (self.name, name))
        return found

    def lines(self, node):
        return '%s:%d-%d' % (os.path.relpath(self.path, REPO), node.lineno, getattr(node, 'end_lineno', node.lineno))

    def node_sha(self, node):
        return hashlib.sha256(ast.dump(node).encode()).hexdigest()[:16]


_mods = {}


def module(name):
    if name not in _mods:
        _mods[name] = Mod(name)
    return _mods[name]


def reset():
    _mods.clear()


def walk_no_defs(node):
    """pre-order, document-order walk that does not descend into nested function/class/lambda definitions"""
    for child in ast.iter_child_nodes(node):
        yield child
        if isinstance(child, (ast.FunctionDef, ast.AsyncFunctionDef, ast.ClassDef, ast.Lambda)):
            continue
        yield from walk_no_defs(child)


def select(node, path):
    """structural, ordinal selector: 'While#0/If#last', 'For#1', 'ListComp#0'.
    Ordinals count nodes of that type in document order below `node` (nested defs excluded)."""
    cur = node
    for comp in path.split('/'):
        typ, _, ordn = comp.partition('#')
        cands = [n for n in walk_no_defs(cur) if type(n).__name__ == typ]
        if not cands:
            raise SelectorError('selector %s: no %s under %s' % (path, typ, getattr(cur, 'name', type(cur).__name__)))
        if ordn in ('', '0'):
            cur = cands[0]
        elif ordn == 'last':
            cur = cands[-1]
        else:
            k = int(ordn)
            if k >= len(cands):
                raise SelectorError('selector %s: only %d %s' % (path, len(cands), typ))
            cur = cands[k]
    return cur


def find(node, pred, what='node'):
    for n in walk_no_defs(node):
        if pred(n):
            return n
    raise SelectorError('no %s found under %s' % (what, getattr(node, 'name', type(node).__name__)))


def find_all(node, pred):
    return [n for n in walk_no_defs(node) if pred(n)]


def strip_doc(body):
    if body and isinstance(body[0], ast.Expr) and isinstance(body[0].value, ast.Constant) and isinstance(body[0].value.value, str):
        return body[1:]
    return body


def count_stmts(nodes):
    c = 0
    for n in nodes:
        for m in ast.walk(n):
            if isinstance(m, ast.stmt):
                c += 1
    return c
