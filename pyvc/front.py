"""Front end: load the real source, locate functions and regions structurally."""
import ast, hashlib, os, json

REPO = os.environ.get('PYG_REPO', '/repo')
SRCDIR = os.path.join(REPO, 'src', 'pyg_base')


class SelectorError(Exception):
    """A structural selector no longer matches: the function is UNDECIDED, never a violation."""


class OutOfSubset(Exception):
    """The executor met a construct outside the verified subset."""


class Mod:
    def __init__(self, name):
        self.name = name
        self.path = os.path.join(SRCDIR, name + '.py')
        try:
            self.text = open(self.path).read()
        except OSError as e:
            raise SelectorError('cannot read %s: %s' % (self.path, e))
        try:
            self.tree = ast.parse(self.text)
        except SyntaxError as e:
            raise SelectorError('cannot parse %s: %s' % (self.path, e))
        self.sha = hashlib.sha256(self.text.encode()).hexdigest()
        self.renamed = {}      # qualified function name -> {current local name: baseline name} where only locals were renamed

    def func(self, qual):
        """'dt_bump', 'Calendar.adjust', 'loops.__call__.wrapped' -> FunctionDef"""
        node = self.tree
        for part in qual.split('.'):
            found = None
            for n in (node.body if hasattr(node, 'body') else []):
                if isinstance(n, (ast.FunctionDef, ast.ClassDef, ast.AsyncFunctionDef)) and n.name == part:
                    found = n   # last definition wins, as in Python
            if found is None:
                # search nested blocks (function defined inside if/try)
                for n in walk_no_defs(node):
                    if isinstance(n, (ast.FunctionDef, ast.ClassDef)) and n.name == part and n is not node:
                        found = n
            if found is None:
                raise SelectorError('%s: no %s in %s' % (self.name, part, qual))
            node = found
        if isinstance(node, (ast.FunctionDef, ast.AsyncFunctionDef)) and not getattr(node, '_names_restored', False):
            node._names_restored = True
            mp = restore_names(self.name, qual, node)
            if mp:
                self.renamed[qual] = mp
        return node

    def has_func(self, qual):
        try:
            self.func(qual); return True
        except SelectorError:
            return False

    def global_assign(self, name):
        """value node of the last module-level `name = ...`"""
        found = None
        for n in self.tree.body:
            if isinstance(n, ast.Assign) and any(isinstance(t, ast.Name) and t.id == name for t in n.targets):
                found = n.value
        if found is None:
            raise SelectorError('%s: no global %s' % (self.name, name))
        return found

    def lines(self, node):
        return '%s:%d-%d' % (os.path.relpath(self.path, REPO), node.lineno, getattr(node, 'end_lineno', node.lineno))

    def node_sha(self, node):
        return hashlib.sha256(ast.dump(node).encode()).hexdigest()[:16]


_mods = {}


def module(name):
    if name not in _mods:
        _mods[name] = Mod(name)
    return _mods[name]


def reset():
    global _names
    _mods.clear()
    _names = None


def walk_no_defs(node):
    """pre-order, document-order walk that does not descend into nested function/class/lambda definitions"""
    for child in ast.iter_child_nodes(node):
        yield child
        if isinstance(child, (ast.FunctionDef, ast.AsyncFunctionDef, ast.ClassDef, ast.Lambda)):
            continue
        yield from walk_no_defs(child)


def select(node, path):
    """structural, ordinal selector: 'While#0/If#last', 'For#1', 'ListComp#0'.
    Ordinals count nodes of that type in document order below `node` (nested defs excluded)."""
    cur = node
    for comp in path.split('/'):
        typ, _, ordn = comp.partition('#')
        cands = [n for n in walk_no_defs(cur) if type(n).__name__ == typ]
        if not cands:
            raise SelectorError('selector %s: no %s under %s' % (path, typ, getattr(cur, 'name', type(cur).__name__)))
        if ordn in ('', '0'):
            cur = cands[0]
        elif ordn == 'last':
            cur = cands[-1]
        else:
            k = int(ordn)
            if k >= len(cands):
                raise SelectorError('selector %s: only %d %s' % (path, len(cands), typ))
            cur = cands[k]
    return cur


def find(node, pred, what='node'):
    for n in walk_no_defs(node):
        if pred(n):
            return n
    raise SelectorError('no %s found under %s' % (what, getattr(node, 'name', type(node).__name__)))


def find_all(node, pred):
    return [n for n in walk_no_defs(node) if pred(n)]


def strip_doc(body):
    if body and isinstance(body[0], ast.Expr) and isinstance(body[0].value, ast.Constant) and isinstance(body[0].value.value, str):
        return body[1:]
    return body


def count_stmts(nodes):
    c = 0
    for n in nodes:
        for m in ast.walk(n):
            if isinstance(m, ast.stmt):
                c += 1
    return c


# ---------------------------------------------------------------------------------------------- tolerance to renamed locals
# Sidecar contracts talk about locals by name (loop counters, accumulators).  A pure renaming of locals is a harmless edit; to keep
# it from turning into UNDECIDED, the names a function binds are recorded at lock time together with a hash of the function with
# its locals renamed to positional names.  If the current function has the same canonical hash but other names, it differs from the
# baseline only by a renaming of locals, and the AST handed to the contracts gets the baseline names back.
NAMES_FILE = os.path.join(os.path.dirname(os.path.dirname(os.path.abspath(__file__))), 'locks', 'names.json')
_names = None


def _bound_names(fdef):
    """local names bound in fdef (not parameters), in order of first binding occurrence in a pre-order walk"""
    params = {a.arg for a in fdef.args.posonlyargs + fdef.args.args + fdef.args.kwonlyargs}
    if fdef.args.vararg:
        params.add(fdef.args.vararg.arg)
    if fdef.args.kwarg:
        params.add(fdef.args.kwarg.arg)
    out = []
    for n in ast.walk(fdef):
        if isinstance(n, ast.Name) and isinstance(n.ctx, (ast.Store, ast.Del)) and n.id not in params and n.id not in out:
            out.append(n.id)
        elif isinstance(n, (ast.FunctionDef, ast.AsyncFunctionDef)) and n is not fdef and n.name not in out:
            out.append(n.name)
        elif isinstance(n, ast.ExceptHandler) and n.name and n.name not in out:
            out.append(n.name)
    return out


class _Renamer(ast.NodeTransformer):
    def __init__(self, mp):
        self.mp = mp

    def visit_Name(self, n):
        if n.id in self.mp:
            return ast.copy_location(ast.Name(id=self.mp[n.id], ctx=n.ctx), n)
        return n

    def visit_FunctionDef(self, n):
        self.generic_visit(n)
        if n.name in self.mp:
            n.name = self.mp[n.name]
        return n

    def visit_ExceptHandler(self, n):
        self.generic_visit(n)
        if n.name in self.mp:
            n.name = self.mp[n.name]
        return n


def _canonical(fdef):
    import copy
    names = _bound_names(fdef)
    mp = {nm: 'v!%d' % i for i, nm in enumerate(names)}
    f2 = _Renamer(mp).visit(copy.deepcopy(fdef))
    body = strip_doc(f2.body)
    return names, hashlib.sha256(''.join(ast.dump(b) for b in body).encode()).hexdigest()[:20]


def baseline_names():
    global _names
    if _names is None:
        try:
            _names = json.load(open(NAMES_FILE))
        except (OSError, ValueError):
            _names = {}
    return _names


def record_names(modname, qual, fdef):
    names, h = _canonical(fdef)
    d = baseline_names()
    d['%s:%s' % (modname, qual)] = dict(names=names, canon=h)
    os.makedirs(os.path.dirname(NAMES_FILE), exist_ok=True)
    json.dump(d, open(NAMES_FILE, 'w'), indent=1, sort_keys=True)


def restore_names(modname, qual, fdef):
    """if fdef differs from the locked baseline only by a renaming of locals, rename them back (in place); returns the map used"""
    base = baseline_names().get('%s:%s' % (modname, qual))
    if not base:
        return {}
    names, h = _canonical(fdef)
    if h != base['canon'] or names == base['names'] or len(names) != len(base['names']):
        return {}
    mp = {new: old for new, old in zip(names, base['names']) if new != old}
    if set(mp.values()) & (set(names) - set(mp)):       # a baseline name is used for something else now
        return {}
    _Renamer(mp).visit(fdef)
    ast.fix_missing_locations(fdef)
    return mp
