"""Products of two symbolic integers.

The executor refuses to hand `a * b` (both symbolic) to the solver as nonlinear arithmetic.  This theory turns such a
product into the uninterpreted function MUL(a, b); what the solver may know about it are *instances* of the schemas
below, passed as hypotheses by the contract that needs them (or asserted as facts for the operands of a product met in the
code).  Every schema is a truth of integer arithmetic; `validate(ctx)` emits one lemma obligation per schema in which MUL
is replaced by the real product, so the schemas themselves are discharged (by z3's nonlinear engine) and not trusted.
"""
import z3
from z3 import And, Or, Not, If, Implies, IntSort, Function, simplify, is_int_value, Ints, IntVal

from .sv import I, zi

MULf = Function('MUL', IntSort(), IntSort(), IntSort())


def MUL(a, b):
    a, b = simplify(zi(a)), simplify(zi(b))
    if is_int_value(a) or is_int_value(b):
        return a * b
    return MULf(a, b)


def _m(real):
    return (lambda a, b: zi(a) * zi(b)) if real else MUL


# ---- schemas (instances are hypotheses; `real=True` gives the statement about the true product, used by validate)
def mul_zero(k, real=False):
    return _m(real)(IntVal(0), k) == 0 if real else MULf(IntVal(0), zi(k)) == 0


def mul_one(j, real=False):
    if real:
        return zi(j) * 1 == j
    return MULf(zi(j), IntVal(1)) == j


def mul_rec(j, k, real=False):
    """recurrence in the first argument: (j+1)*k == j*k + k"""
    m = _m(real)
    return m(zi(j) + 1, k) == m(j, k) + k


def mul_sign(a, b, real=False):
    m = _m(real)(a, b)
    a, b = zi(a), zi(b)
    return And(Or(And(a > 0, b > 0), And(a < 0, b < 0)) == (m > 0), Or(a == 0, b == 0) == (m == 0))


def mul_mono(j1, j2, k, real=False):
    m = _m(real)
    return Implies(And(zi(j1) <= zi(j2), zi(k) >= 0), m(j1, k) <= m(j2, k))


def mul_strict(j1, j2, k, real=False):
    m = _m(real)
    return Implies(And(zi(j1) < zi(j2), zi(k) > 0), m(j1, k) < m(j2, k))


def mul_cancel(j1, j2, k, real=False):
    """j1*k == j2*k and k != 0  =>  j1 == j2"""
    m = _m(real)
    return Implies(And(m(j1, k) == m(j2, k), zi(k) != 0), zi(j1) == zi(j2))


SCHEMAS = {'zero': (mul_zero, 1), 'one': (mul_one, 1), 'recurrence': (mul_rec, 2), 'sign': (mul_sign, 2), 'monotone': (mul_mono, 3),
           'strictly_monotone': (mul_strict, 3), 'cancel': (mul_cancel, 3)}


def validate(ctx, which=None):
    """one lemma obligation per schema, stated about the real product"""
    vs = Ints('ma!v mb!v mc!v')
    for name, (fn, ar) in SCHEMAS.items():
        if which is None or name in which:
            ctx.post('lemma.product.%s' % name, [], fn(*vs[:ar], real=True), kind='lemma')


def _ite_const_leaves(t):
    """t is a tree of If(...) whose leaves are integer constants: list of (condition, value)"""
    t = simplify(t)
    if is_int_value(t):
        return [(z3.BoolVal(True), t.as_long())]
    if z3.is_app(t) and t.decl().kind() == z3.Z3_OP_ITE:
        c, a, b = t.children()
        la, lb = _ite_const_leaves(a), _ite_const_leaves(b)
        if la is None or lb is None:
            return None
        return [(And(c, x), v) for x, v in la] + [(And(Not(c), x), v) for x, v in lb]
    return None


class Products:
    """`nonlinear` hook of the executor: a*b with both operands symbolic"""

    def nonlinear(self, ex, st, e, a, b):
        # one operand is a case split over constants (dict(q=3).get(unit, 1)): distribute, stays linear
        for x, y in ((a, b), (b, a)):
            leaves = _ite_const_leaves(y.t)
            if leaves is not None and len(leaves) <= 8:
                r = x.t * leaves[-1][1]
                for c, v in reversed(leaves[:-1]):
                    r = If(c, x.t * v, r)
                return I(r)
        ex.use('axiom:a*b of two symbolic ints is the uninterpreted MUL(a,b); the solver sees the sign rule for the operands '
               '(schemas validated against the real product by lemma.product.* obligations)')
        ex.fact(mul_sign(a.t, b.t))
        return I(MUL(a.t, b.t))
