"""The axiom table: how builtins, stdlib objects and abstractions are encoded.  Every entry that is *used* by a run
registers itself with ex.use(...) so that the evidence lists the trusted base actually relied on."""
import ast, re
import z3
from z3 import And, Or, Not, If, Implies, BoolVal, IntVal, simplify, is_true, is_false, Function, IntSort, BoolSort, ForAll

from .front import OutOfSubset
from .sv import (SV, I, B, S, T, NONE, DT, TD, DAYUS, td_norm, dt_add, dt_sub_td, dt_diff, lex_lt, lex_le, pair_eq,
                 dfc, dim, wd, fresh_int, fresh_name, zi, DFC, valid_ymd)


# ------------------------------------------------------------------------------------------------ module globals
class Globals:
    """module-level constants are read from the source on every run and evaluated by the executor itself
    (DAY = datetime.timedelta(days = 1), _bumps = {...}); a changed definition changes the VCs."""

    def __init__(self, mod, names):
        self.mod, self.names, self.cache = mod, set(names), {}

    def name(self, ex, st, ident):
        if ident not in self.names:
            return NotImplemented
        if ident not in self.cache:
            from .symex import State
            node = self.mod.global_assign(ident)
            self.cache[ident] = ex.eval(State(), node)
        return self.cache[ident]


# ------------------------------------------------------------------------------------------------ type predicates
KIND_OF = {'is_int': ('int',), 'is_str': ('str', 'tenor', 'tok'), 'is_bool': ('bool',), 'is_float': ('float',),
           'is_date': ('dt',), 'is_num': ('int', 'float')}
TYPE_KINDS = {'datetime.datetime': ('dt',), 'datetime.timedelta': ('td',), 'int': ('int', 'bool'), 'str': ('str', 'tenor', 'tok'),
              'bool': ('bool',), 'float': ('float',), 'list': ('list',), 'tuple': ('tuple',), 'dict': ('dict',),
              'NaTType': (), 'du.relativedelta.relativedelta': (), 'datetime.date': ('dt',), 'type(None)': ('none',),
              'dict_values': ('tvalues',), 'dict_keys': ('tkeys',), 'range': ('range',), 'zip': (), 'slice': ('pyslice',), 'Pattern': ('pattern',),
              'dictable': ('table',), 'Calendar': ('calendar',), 'np.ndarray': (), 'pd.Series': (), 'pd.DataFrame': ()}


class TypePreds:
    """is_int / is_str / isinstance on statically kinded symbolic values (pyg_base._types predicates on the value
    universe of the contract: exact for int, bool, str, datetime, timedelta, None, list, tuple, dict)."""

    def __init__(self, extra=None):
        self.extra = extra or {}

    def pre_call(self, ex, st, e):
        if isinstance(e.func, ast.Name) and e.func.id == 'isinstance' and len(e.args) == 2:
            v = ex.eval(st, e.args[0])
            tn = e.args[1]
            names = [ast.unparse(x) for x in tn.elts] if isinstance(tn, ast.Tuple) else [ast.unparse(tn)]
            kinds = set()
            for n in names:
                if n not in TYPE_KINDS:
                    raise OutOfSubset('isinstance against %s' % n)
                kinds |= set(TYPE_KINDS[n])
            if v.kind == 'val':
                return NotImplemented
            ex.use('axiom:isinstance-by-kind')
            return B(v.kind in kinds)
        return NotImplemented

    def call(self, ex, st, e, fname, args, kwargs):
        if fname in KIND_OF and len(args) == 1 and args[0].kind != 'val':
            ex.use('axiom:%s-by-kind' % fname)
            if fname == 'is_int' and args[0].kind == 'bool':
                return B(False)
            return B(args[0].kind in KIND_OF[fname])
        if fname in self.extra and len(args) == 1 and args[0].kind != 'val':
            return B(args[0].kind in self.extra[fname])
        return NotImplemented


# ------------------------------------------------------------------------------------------------ datetime
_Yf = Function('year_of', IntSort(), IntSort())
_Mf = Function('month_of', IntSort(), IntSort())
_Df = Function('day_of', IntSort(), IntSort())


def civil(o):
    """(Y, M, D, axiom) of ordinal o: the uninterpreted decomposition with its defining axiom instance
    (date.fromordinal(o) has year Y, month M, day D and date(Y,M,D).toordinal() == o)"""
    Y, M, D = _Yf(o), _Mf(o), _Df(o)
    return Y, M, D, And(o == DFC(Y, M, D), 1 <= M, M <= 12, 1 <= D, D <= dim(Y, M))


def civil_of_dfc(y, m, d):
    """axiom instance: a valid (y,m,d) is the decomposition of its own ordinal (datetime(y,m,d).year == y ...)"""
    o = DFC(y, m, d)
    return Implies(valid_ymd(y, m, d), And(_Yf(o) == y, _Mf(o) == m, _Df(o) == d))


class Dates:
    """datetime.datetime / datetime.timedelta as the pair CPython stores: (ordinal | days, microseconds) with carry.
    tz-naive only; MINYEAR..MAXYEAR overflow is excluded by the contracts' range preconditions."""

    UNITS = {'days': DAYUS, 'hours': 3600 * 10 ** 6, 'minutes': 60 * 10 ** 6, 'seconds': 10 ** 6, 'microseconds': 1,
             'milliseconds': 1000, 'weeks': 7 * DAYUS}

    def call(self, ex, st, e, fname, args, kwargs):
        if fname in ('datetime.timedelta', 'timedelta'):
            order = ['days', 'seconds', 'microseconds', 'milliseconds', 'minutes', 'hours', 'weeks']
            tot = IntVal(0)
            for name, v in list(zip(order, args)) + list(kwargs.items()):
                if name not in self.UNITS or v.kind != 'int':
                    raise OutOfSubset('timedelta(%s=%s)' % (name, v.kind))
                tot = tot + v.t * self.UNITS[name]
            ex.use('axiom:datetime.timedelta(days,seconds,..) = normalised (days, microseconds)')
            return td_norm(0, tot)
        if fname in ('min', 'max') and len(args) == 2 and not kwargs and args[0].kind == args[1].kind and args[0].kind in ('dt', 'td'):
            a, b = args
            first = lex_le(a, b) if fname == 'min' else lex_le(b, a)
            return SV(a.kind, If(first, a.t, b.t), us=If(first, a.us, b.us))
        if fname == 'datetime.datetime.fromordinal' and len(args) == 1 and not kwargs and args[0].kind == 'int':
            ex.raise_if(st, Not(And(1 <= args[0].t, args[0].t <= 3652059)), 'ValueError')
            ex.use('axiom:datetime.datetime.fromordinal(i) is midnight of the day with proleptic Gregorian ordinal i')
            return DT(args[0].t, 0)
        if fname in ('datetime.datetime', 'datetime') and set(kwargs) == {'tzinfo'} and kwargs['tzinfo'].kind == 'none':
            kwargs = {}          # tz-naive: tzinfo = None is the default
        if fname in ('datetime.datetime', 'datetime'):
            if not (3 <= len(args) <= 7) or kwargs or any(a.kind != 'int' for a in args):
                raise OutOfSubset('datetime.datetime%s' % ([a.kind for a in args],))
            y, m, d = [a.t for a in args[:3]]
            ex.raise_if(st, Not(And(1 <= y, y <= 9999, 1 <= m, m <= 12, 1 <= d, d <= dim(y, m))), 'ValueError')
            us = IntVal(0)
            for a, (mult, hi) in zip(args[3:], [(3600 * 10 ** 6, 24), (60 * 10 ** 6, 60), (10 ** 6, 60), (1, 10 ** 6)]):
                ex.raise_if(st, Not(And(0 <= a.t, a.t < hi)), 'ValueError')
                us = us + a.t * mult
            ex.use('axiom:datetime.datetime(y,m,d) has ordinal days_from_civil(y,m,d), and .year/.month/.day give (y,m,d) back '
                   '(validated against CPython on all 146097 days of 1900-2300)')
            ex.fact(civil_of_dfc(y, m, d))
            return DT(DFC(y, m, d), us)
        return NotImplemented

    def binop(self, ex, st, e, op, a, b):
        k = (a.kind, op, b.kind)
        if k == ('td', 'Mult', 'int'):
            ex.use('axiom:timedelta*int exact')
            return td_norm(a.t * b.t, a.us * b.t) if _lin(b.t) or _lin(a.t, a.us) else NotImplemented
        if k == ('int', 'Mult', 'td'):
            ex.use('axiom:timedelta*int exact')
            return td_norm(b.t * a.t, b.us * a.t) if _lin(a.t) or _lin(b.t, b.us) else NotImplemented
        if k == ('dt', 'Add', 'td'):
            ex.use('axiom:datetime+timedelta adds days and microseconds with carry')
            return dt_add(a, b)
        if k == ('td', 'Add', 'dt'):
            ex.use('axiom:datetime+timedelta adds days and microseconds with carry')
            return dt_add(b, a)
        if k == ('dt', 'Sub', 'td'):
            ex.use('axiom:datetime-timedelta')
            return dt_sub_td(a, b)
        if k == ('dt', 'Sub', 'dt'):
            ex.use('axiom:datetime-datetime')
            return dt_diff(a, b)
        if k == ('td', 'Add', 'td'):
            return td_norm(a.t + b.t, a.us + b.us)
        if k == ('td', 'Sub', 'td'):
            return td_norm(a.t - b.t, a.us - b.us)
        return NotImplemented

    def unary(self, ex, st, e, op, v):
        if op == 'USub' and v.kind == 'td':
            return td_norm(-v.t, -v.us)
        return NotImplemented

    def compare(self, ex, st, e, op, a, b):
        if a.kind == b.kind and a.kind in ('dt', 'td'):
            return {'Lt': lex_lt(a, b), 'LtE': lex_le(a, b), 'Gt': lex_lt(b, a), 'GtE': lex_le(b, a),
                    'Eq': pair_eq(a, b), 'NotEq': Not(pair_eq(a, b))}.get(op, NotImplemented)
        if op in ('Eq', 'NotEq') and {a.kind, b.kind} <= {'dt', 'td', 'int', 'none', 'str'} and a.kind != b.kind \
                and (a.kind in ('dt', 'td') or b.kind in ('dt', 'td')):
            return BoolVal(op == 'NotEq')
        return NotImplemented

    def method(self, ex, st, e, recv, mname, args, kwargs):
        if recv.kind == 'dt' and mname == 'weekday' and not args:
            ex.use('axiom:datetime.weekday() = (ordinal+6) % 7')
            return I(wd(recv.t))
        if recv.kind == 'dt' and mname == 'toordinal' and not args:
            return I(recv.t)
        if recv.kind == 'dt' and mname == 'replace' and not args and set(kwargs) == {'tzinfo'} and kwargs['tzinfo'].kind == 'none':
            return recv          # tz-naive datetimes only: replace(tzinfo=None) is the identity
        if recv.kind == 'td' and mname == 'total_seconds':
            raise OutOfSubset('float total_seconds')
        return NotImplemented

    def attr(self, ex, st, e, recv, name):
        if recv.kind == 'dt' and name in ('year', 'month', 'day'):
            Y, M, D, ax = civil(recv.t)
            ex.fact(ax)
            ex.use('axiom:t.year/t.month/t.day are the civil decomposition of the ordinal')
            return I({'year': Y, 'month': M, 'day': D}[name])
        if recv.kind == 'dt' and name in ('hour', 'minute', 'second', 'microsecond'):
            us = recv.us
            return I({'hour': us / (3600 * 10 ** 6), 'minute': (us / (60 * 10 ** 6)) % 60, 'second': (us / 10 ** 6) % 60,
                      'microsecond': us % 10 ** 6}[name])
        if recv.kind == 'td' and name == 'days':
            return I(recv.t)
        if recv.kind == 'dt' and name == 'tzinfo':
            return NONE          # tz-naive datetimes only (class docstring)
        return NotImplemented

    def truth(self, ex, st, v):
        if v.kind == 'dt':
            return BoolVal(True)
        if v.kind == 'td':
            return Or(v.t != 0, v.us != 0)
        return NotImplemented


def _lin(*ts):
    return all(z3.is_int_value(simplify(t)) for t in ts)


# ------------------------------------------------------------------------------------------------ strings
class ConcreteStr:
    """operations on *literal* strings are executed by CPython itself (including the repo's own compiled regexes, whose
    patterns are read from the source on every run)."""

    def __init__(self, mod, regexes=()):
        self.rx = {}
        for name in regexes:
            node = mod.global_assign(name)
            if not (isinstance(node, ast.Call) and ast.unparse(node.func) == 're.compile' and isinstance(node.args[0], ast.Constant)):
                raise OutOfSubset('regex %s is not a literal re.compile' % name)
            flags = 0
            if len(node.args) > 1 and 'IGNORECASE' in ast.unparse(node.args[1]):
                flags = re.IGNORECASE
            self.rx[name] = re.compile(node.args[0].value, flags)

    @staticmethod
    def lit(v):
        return v.kind == 'str' and v.t is None

    def method(self, ex, st, e, recv, mname, args, kwargs):
        if self.lit(recv) and all(self.lit(a) for a in args) and not kwargs and mname in (
                'lower', 'upper', 'endswith', 'startswith', 'strip', 'replace'):
            r = getattr(recv.lit, mname)(*[a.lit for a in args])
            return B(r) if isinstance(r, bool) else S(r)
        if recv.kind == 'match' and mname == 'group' and not args:
            return S(recv.lit)
        if recv.kind == 'dictlit' and mname == 'get' and len(args) == 2:
            k = args[0]
            if self.lit(k):
                return recv.f['d'].get(k.lit, args[1])
            return NotImplemented
        return NotImplemented

    def call(self, ex, st, e, fname, args, kwargs):
        base, _, meth = fname.rpartition('.')
        if base in self.rx and meth == 'search' and len(args) == 1 and self.lit(args[0]):
            m = self.rx[base].search(args[0].lit)
            return NONE if m is None else SV('match', None, lit=m.group())
        if fname == 'len' and len(args) == 1 and self.lit(args[0]):
            return I(len(args[0].lit))
        if fname == 'int' and len(args) == 1 and self.lit(args[0]):
            try:
                return I(int(args[0].lit))
            except ValueError:
                ex.raise_if(st, BoolVal(True), 'ValueError')
                return I(0)
        return NotImplemented

    def subscript(self, ex, st, e, recv, idx):
        if self.lit(recv) and idx.kind == 'slice' and idx.step is None:
            def c(x):
                if x is None:
                    return None
                v = simplify(x.t)
                if not z3.is_int_value(v):
                    raise OutOfSubset('symbolic slice of literal string')
                return v.as_long()
            return S(recv.lit[c(idx.lo):c(idx.hi)])
        if self.lit(recv) and idx.kind == 'int':
            v = simplify(idx.t)
            if z3.is_int_value(v) and -len(recv.lit) <= v.as_long() < len(recv.lit):
                return S(recv.lit[v.as_long()])
        return NotImplemented

    def expr(self, ex, st, e):
        if isinstance(e, ast.Dict) and all(isinstance(k, ast.Constant) and isinstance(k.value, str) for k in e.keys):
            return SV('dictlit', None, d={k.value: ex.eval(st, v) for k, v in zip(e.keys, e.values)})
        return NotImplemented

    def is_none(self, ex, st, v):
        if v.kind == 'match':
            return BoolVal(False)
        return NotImplemented

    def truth(self, ex, st, v):
        if v.kind == 'match':
            return BoolVal(True)
        return NotImplemented


class Tokens:
    """A1/A2 - the tenor abstraction.  A lower-cased string matching the repo's `period` regex behaves as a token
    (n, unit): s.endswith(c) <=> unit == c, int(s[:-1]) == n.  A tenor string is a sequence of tokens followed by a
    (possibly empty) remainder: period.search(s) is the next token, s[len(tok):] the rest.  The regex text is read from
    the source and compared with the pattern the abstraction was validated for; a changed regex voids A1/A2."""

    EXPECTED = '^[-+]{0,1}[0-9]+[dbwmqyhnsDBWMQYHNS]{1}'

    def __init__(self, mod, regex_name='period'):
        node = mod.global_assign(regex_name)
        pat = node.args[0].value if isinstance(node, ast.Call) and node.args and isinstance(node.args[0], ast.Constant) else None
        if pat != self.EXPECTED:
            from .front import SelectorError
            raise SelectorError('period regex changed (%r): token abstraction A1/A2 void' % (pat,))
        self.regex_name = regex_name
        self.tn = Function('tok_n', IntSort(), IntSort())
        self.tu = Function('tok_u', IntSort(), IntSort())

    def tenor(self, ntok, pos=0, tail=0):
        return SV('tenor', None, ntok=zi(ntok), pos=zi(pos), tail=zi(tail), th=self)

    def tok(self, n, unit):
        return SV('tok', None, n=zi(n), unit=zi(unit))

    def method(self, ex, st, e, recv, mname, args, kwargs):
        if recv.kind == 'tok' and mname == 'endswith' and len(args) == 1 and args[0].kind == 'str' and len(args[0].lit) == 1:
            ex.use('A1:token abstraction (endswith(c) <=> unit==c, int(s[:-1])==n)')
            return B(recv.unit == ord(args[0].lit))
        if recv.kind == 'tenor' and mname == 'lower' and not args:
            ex.use('A1:tenor strings are considered lower-cased (unit letters a-z)')
            return recv
        if recv.kind == 'dictlit' and mname == 'get' and len(args) == 2 and args[0].kind == 'tenor':
            ex.use('A2:a symbolic tenor is not one of the named tenors (spot/on/tn/sn are executed concretely)')
            return args[1]
        if recv.kind == 'tokmatch' and mname == 'group' and not args:
            ex.raise_if(st, Not(recv.t), 'AttributeError')
            return recv.f['tok']
        return NotImplemented

    def call(self, ex, st, e, fname, args, kwargs):
        if fname == self.regex_name + '.search' and len(args) == 1 and args[0].kind == 'tenor':
            v = args[0]
            ex.use('A2:period.search(s).group() is the first token of a tenor and s[len(g):] the rest')
            return SV('tokmatch', v.pos < v.ntok, tok=SV('tok', None, n=self.tn(v.pos), unit=self.tu(v.pos), of=v))
        if fname == 'int' and len(args) == 1 and args[0].kind == 'toknum':
            return I(args[0].t)
        if fname == 'len' and len(args) == 1 and args[0].kind == 'tok':
            return SV('toklen', None, tok=args[0])
        if fname == 'len' and len(args) == 1 and args[0].kind == 'tenor':
            v = args[0]
            ln = fresh_int('tenorlen')
            ex.fact(If(v.pos < v.ntok, ln > 0, ln == v.tail))
            return I(ln)
        return NotImplemented

    def subscript(self, ex, st, e, recv, idx):
        if recv.kind == 'tok' and idx.kind == 'slice' and idx.lo is None and idx.step is None and idx.hi is not None \
                and idx.hi.kind == 'int' and is_true(simplify(idx.hi.t == -1)):
            return SV('toknum', recv.n)
        if recv.kind == 'tenor' and idx.kind == 'slice' and idx.hi is None and idx.step is None and idx.lo is not None \
                and idx.lo.kind == 'toklen' and idx.lo.tok.f.get('of') is recv:
            return SV('tenor', None, ntok=recv.ntok, pos=recv.pos + 1, tail=recv.tail, th=self)
        return NotImplemented

    def is_none(self, ex, st, v):
        if v.kind == 'tokmatch':
            return Not(v.t)
        return NotImplemented

    def fresh_like(self, ex, st, name, v):
        if v.kind == 'tenor':
            p = fresh_int(name + '_pos')
            return SV('tenor', None, ntok=v.ntok, pos=p, tail=v.tail, th=self)
        if v.kind == 'tok':
            return SV('tok', None, n=fresh_int(name + '_n'), unit=fresh_int(name + '_u'))
        return NotImplemented
