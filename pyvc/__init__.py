"""pyvc - verification-condition generator for the real source of gityoav/pyg-base.

The prover never imports pyg_base: it reads the text of /repo/src/pyg_base/*.py on every run,
symbolically executes the AST of the functions under contract and discharges the resulting
obligations with z3 (python API) and, for `unknown`, /usr/bin/cvc5 and /usr/bin/z3 on the SMT-LIB2 dump.
"""
