"""Solver portfolio.

Every obligation is serialised to SMT-LIB2 and solved in worker processes.
  pass 1: z3 5.x (python API), opaque definitions (DFC uninterpreted), short budget;
  pass 2: for what is left, a portfolio run concurrently: z3 with several seeds, with and without the opaque
          definitions revealed, /usr/bin/cvc5 and /usr/bin/z3 (4.8.12) on the revealed dump.  `unsat` from any member
          discharges the obligation; `sat` counts only from a member that had the definitions revealed (a model that
          relies on an uninterpreted DFC is not a counterexample); otherwise the obligation is `unknown`.
  on sat: the query is re-run with witness constants to extract the counterexample.
`unknown`, timeouts and solver errors are never reported as violations."""
import os, subprocess, tempfile, time, concurrent.futures as cf
import z3

P1_MS = {'quick': 3000, 'thorough': 10000}
P2_MS = {'quick': 12000, 'thorough': 60000}


def _simp(e):
    try:
        return z3.simplify(e)
    except z3.Z3Exception:
        return e


def to_smt2(ob, reveal=False, witness=False, hints=False):
    s = z3.Solver()
    for h in ob.hyps:
        s.add(_simp(h))
    if hints:
        for h in ob.meta.get('search_hints') or []:
            s.add(_simp(h))
    if reveal:
        from .sv import reveal_dfc
        for eq in reveal_dfc(list(ob.hyps) + [ob.goal] + list(ob.witness.values())):
            s.add(_simp(eq))
    if witness:
        for k, term in ob.witness.items():
            s.add(z3.Const('wit!' + k, term.sort()) == term)
    s.add(_simp(z3.Not(ob.goal)))
    return s.to_smt2()


def _parse_val(v):
    if v is None:
        return None
    if z3.is_int_value(v):
        return v.as_long()
    if z3.is_true(v):
        return True
    if z3.is_false(v):
        return False
    if z3.is_rational_value(v):
        return float(v.numerator_as_long()) / float(v.denominator_as_long())
    return str(v)


def _z3_task(args):
    key, smt, timeout_ms, seed = args
    t0 = time.time()
    try:
        s = z3.Solver()
        s.set('timeout', timeout_ms)
        if seed:
            s.set('random_seed', seed)
        s.from_string(smt)
        r = s.check()
        model = {}
        if r == z3.sat:
            m = s.model()
            for d in m.decls():
                if d.arity() == 0 and d.name().startswith('wit!'):
                    model[d.name()[4:]] = _parse_val(m[d])
        reason = s.reason_unknown() if r == z3.unknown else ''
        return key, str(r), model, time.time() - t0, 'z3-%s' % z3.get_version_string(), reason
    except Exception as e:                                   # noqa
        return key, 'error', {}, time.time() - t0, 'z3-api', repr(e)[:300]


def _cli_task(args):
    key, smt, timeout_ms, which = args
    t0 = time.time()
    ts = max(1, timeout_ms // 1000)
    if which == 'cvc5':
        cmd, text, label = ['/usr/bin/cvc5', '--tlimit=%d' % timeout_ms, '--full-saturate-quant'], '(set-logic ALL)\n' + smt, 'cvc5-1.0.3'
    else:
        cmd, text, label = ['/usr/bin/z3', '-T:%d' % ts], smt, 'z3-4.8.12'
    if not os.path.exists(cmd[0]):
        return key, 'unknown', {}, 0.0, label, 'not installed'
    with tempfile.NamedTemporaryFile('w', suffix='.smt2', delete=False) as f:
        f.write(text)
        path = f.name
    try:
        p = subprocess.run(cmd + [path], capture_output=True, text=True, timeout=ts + 5)
        out = (p.stdout or '').strip().splitlines()
        first = out[0].strip() if out else ''
        r = first if first in ('sat', 'unsat', 'unknown') else 'unknown'
        return key, r, {}, time.time() - t0, label, '' if r != 'unknown' else (p.stdout + p.stderr)[:200]
    except subprocess.TimeoutExpired:
        return key, 'unknown', {}, time.time() - t0, label, 'timeout'
    except OSError as e:
        return key, 'unknown', {}, time.time() - t0, label, repr(e)
    finally:
        os.unlink(path)


class Result:
    def __init__(self, ob, status, model, secs, backend, reason, smt):
        self.ob, self.status, self.model, self.secs, self.backend, self.reason, self.smt = ob, status, model, secs, backend, reason, smt
        self.second = None

    @property
    def name(self):
        return self.ob.name


def unique_names(obligations):
    names = set()
    for ob in obligations:
        base, k = ob.name, 1
        while ob.name in names:                 # several paths reaching the same clause
            k += 1
            ob.name = '%s#%d' % (base, k)
        names.add(ob.name)


def discharge(obligations, tier='quick', seed=0, workers=None):
    workers = workers or min(16, os.cpu_count() or 4)
    unique_names(obligations)
    if not obligations:
        return []
    byname = {ob.name: ob for ob in obligations}
    results = {}
    with cf.ProcessPoolExecutor(max_workers=workers) as ex:
        smts = {ob.name: to_smt2(ob) for ob in obligations}
        tasks = [(n, smts[n], P1_MS[tier], seed) for n in smts]
        for name, status, model, secs, backend, reason in ex.map(_z3_task, tasks, chunksize=1):
            results[name] = Result(byname[name], status, model, secs, backend, reason, smts[name])
        left = [n for n, r in results.items() if r.status != 'unsat']
    def portfolio(left, budget):
        ex2 = cf.ProcessPoolExecutor(max_workers=workers)
        try:
            futs = {}
            for n in left:
                ob = byname[n]
                rsmt = to_smt2(ob, reveal=True)
                revealed_differs = rsmt != smts[n]
                variants = []
                for sd in range(4):
                    variants.append(('z3', rsmt, seed + sd, True))
                if revealed_differs:
                    for sd in (1, 2, 3):
                        variants.append(('z3', smts[n], seed + sd, False))
                variants.append(('cvc5', rsmt, 0, True))
                variants.append(('z3old', rsmt, 0, True))
                for kind, text, sd, revealed in variants:
                    if kind == 'z3':
                        f = ex2.submit(_z3_task, ((n, revealed), text, budget, sd))
                    else:
                        f = ex2.submit(_cli_task, ((n, revealed), text, budget, 'cvc5' if kind == 'cvc5' else 'z3'))
                    futs[f] = n
                results[n].smt = rsmt
            agg = {n: [] for n in left}
            decided = set()
            for f in cf.as_completed(futs):
                (n, revealed), status, model, secs, backend, reason = f.result()
                agg[n].append((status, revealed, secs, backend, reason))
                if status == 'unsat' or (status == 'sat' and revealed):
                    decided.add(n)
                    if len(decided) == len(left):
                        break                       # every open obligation has a verdict: stop waiting for slower members
            for n in left:
                old = results[n]
                rs = agg[n]
                uns = [x for x in rs if x[0] == 'unsat']
                sats = [x for x in rs if x[0] == 'sat' and x[1]]
                tot = old.secs + max([x[2] for x in rs] or [0])
                if uns:
                    best = min(uns, key=lambda x: x[2])
                    results[n] = Result(old.ob, 'unsat', {}, old.secs + best[2], best[3] + ('+reveal' if best[1] else ''), '', old.smt)
                elif sats:
                    best = min(sats, key=lambda x: x[2])
                    results[n] = Result(old.ob, 'sat', {}, tot, best[3] + '+reveal', '', old.smt)
                else:
                    results[n] = Result(old.ob, 'unknown', {}, tot, 'portfolio', '; '.join(sorted({x[4] for x in rs if x[4]}))[:300], old.smt)
        finally:
            procs = list(getattr(ex2, '_processes', {}).values())
            ex2.shutdown(wait=False, cancel_futures=True)
            for p in procs:
                try:
                    p.kill()
                except Exception:       # noqa
                    pass

    if left:
        portfolio(left, P2_MS[tier])
        still = [n for n in left if results[n].status == 'unknown']
        if still:                       # a busy machine must not flip a verdict: retry what is still unknown with a larger budget
            portfolio(still, P2_MS[tier] * 5)
        with cf.ProcessPoolExecutor(max_workers=workers) as ex:
            # counterexamples: re-run with witness constants; the contract's replay hints (small, representable values) first
            for n in left:
                if results[n].status != 'sat':
                    continue
                got = False
                for use_hints in (True, False):
                    if use_hints and not byname[n].meta.get('search_hints'):
                        continue
                    text = to_smt2(byname[n], reveal=True, witness=True, hints=use_hints)
                    for sd in (0, 1, 2):
                        _, st2, model2, _, _, _ = _z3_task((n, text, P2_MS[tier], seed + sd))
                        if st2 == 'sat':
                            results[n].model = model2
                            got = True
                            break
                        if st2 == 'unsat':
                            break
                    if got:
                        break
    return [results[ob.name] for ob in obligations]


def check_sat(named_hyps, timeout_ms=10000, workers=None):
    """vacuity / reachability guards: each hypothesis set must be satisfiable (with definitions revealed)"""
    from .symex import Obligation
    workers = workers or min(16, os.cpu_count() or 4)
    out = {}
    tasks = []
    for name, hyps in named_hyps:
        ob = Obligation(name, hyps, z3.BoolVal(False))
        tasks.append((name, to_smt2(ob, reveal=True), timeout_ms, 0))
    if not tasks:
        return out
    with cf.ProcessPoolExecutor(max_workers=workers) as ex:
        for name, status, model, secs, backend, reason in ex.map(_z3_task, tasks, chunksize=1):
            out[name] = (status, secs)
        for name, smt, tmo, _ in tasks:
            if out[name][0] == 'unknown':
                for sd in (1, 2, 3):
                    _, st2, _, secs, _, _ = _z3_task((name, smt, tmo * 2, sd))
                    if st2 != 'unknown':
                        out[name] = (st2, secs)
                        break
    return out


def second_backend(results, timeout_ms=30000, workers=None):
    """thorough tier: re-discharge every unsat obligation with an independent back end (z3 4.8.12, then cvc5)."""
    workers = workers or min(16, os.cpu_count() or 4)
    out = {}
    todo = [r for r in results if r.status == 'unsat']
    with cf.ProcessPoolExecutor(max_workers=workers) as ex:
        futs = {}
        for r in todo:
            smt = to_smt2(r.ob, reveal=True)
            futs[ex.submit(_cli_task, (r.name, smt, timeout_ms, 'z3'))] = r.name
            futs[ex.submit(_cli_task, (r.name, smt, timeout_ms, 'cvc5'))] = r.name
        for f in cf.as_completed(futs):
            name, status, _, secs, backend, reason = f.result()
            if status == 'unsat' and name not in out:
                out[name] = (status, backend, secs)
            elif name not in out or out[name][0] == 'unknown':
                out.setdefault(name, (status, backend, secs))
    return out
