"""Theory of a *tagged value universe*: None, bool, int, float (finite / NaN / +inf / -inf), str, datetime and nested
tuple / list (dict only as a tag: no value of the universe is a dict unless a contract says so).

A Python object is a **handle** (a z3 Int: the object's identity); its value is read through heap functions of the handle
(tag, payload fields, len, at).  Hence
   * `x is y`  <=>  the handles are equal;  identity-equal => value-equal holds by congruence,
   * identity is never a function of the value: two handles may carry the same value (two NaN objects, two equal tuples),
   * None / True / False are singletons (axiom instance in `wf`).
Objects created by the code under execution (float(i), np.inf, list(xs)) are fresh handles with defining facts.

Floats: `fk` = 0 finite (value `rv` : Real), 1 NaN, 2 +inf, 3 -inf; infinities are flags compared lexicographically.
Strings: only order and equality are used; `sk` is an order-embedding of the finitely many strings of a query into Z.
Datetimes (tz-naive): the pair CPython stores, (ordinal, microseconds).
Type names: `str(type(x))` is evaluated **by CPython when the theory is loaded**; the order of those literal strings is what
`cmp` compares.  Everything here that is an assumption registers itself with ex.use(...)."""
import ast, datetime
import z3
from z3 import (And, Or, Not, If, Implies, BoolVal, IntVal, RealVal, ToReal, Function, IntSort, BoolSort, RealSort, ForAll, Exists,
                Int, simplify, is_true, is_false)

from .front import OutOfSubset
from .sv import SV, I, B, S, T, NONE, fresh_int, fresh_name

NONE_T, BOOL_T, INT_T, FLOAT_T, STR_T, DT_T, TUPLE_T, LIST_T, DICT_T = range(9)
TAGNAME = {NONE_T: 'NoneType', BOOL_T: 'bool', INT_T: 'int', FLOAT_T: 'float', STR_T: 'str', DT_T: 'datetime', TUPLE_T: 'tuple',
           LIST_T: 'list', DICT_T: 'dict'}
SCALARS = (NONE_T, BOOL_T, INT_T, FLOAT_T, STR_T, DT_T)
SEQS = (TUPLE_T, LIST_T)
FIN, NAN, PINF, NINF = 0, 1, 2, 3
INT_EXACT = 2 ** 53                      # |i| <= 2**53: float(i) is exact (and cannot overflow)
FLOAT_OVERFLOW = 2 ** 1024               # float(i) raises OverflowError from here on (CPython: "int too large to convert to float")
O_LO, O_HI = 693596, 839693              # ordinals of 1900-01-01 and 2300-01-01

# ---- the literal strings CPython produces for str(type(x)), evaluated now (generation time) -----------------------------
_EXAMPLE = {NONE_T: None, BOOL_T: True, INT_T: 1, FLOAT_T: 1.0, STR_T: 'a', DT_T: datetime.datetime(2000, 1, 1), TUPLE_T: (),
            LIST_T: [], DICT_T: {}}
TYPENAME = {t: str(type(v)) for t, v in _EXAMPLE.items()}
_ORDER = sorted(set(TYPENAME.values()))
TYPERANK = {t: _ORDER.index(TYPENAME[t]) for t in TYPENAME}
TYPENAME_NOTE = 'axiom:str(type(x)) evaluated by CPython at generation time, ascending: ' + ' < '.join(_ORDER)

# ---- heap functions ---------------------------------------------------------------------------------------------------
_Z, _Bo, _R = IntSort(), BoolSort(), RealSort()
tag = Function('v_tag', _Z, _Z)
bv = Function('v_bool', _Z, _Bo)
iv = Function('v_int', _Z, _Z)
fk = Function('v_fkind', _Z, _Z)
rv = Function('v_real', _Z, _R)
sk = Function('v_str', _Z, _Z)
do = Function('v_dord', _Z, _Z)
du = Function('v_dus', _Z, _Z)
ln = Function('v_len', _Z, _Z)
at = Function('v_at', _Z, _Z, _Z)
depth = Function('v_depth', _Z, _Z)
inU = Function('v_inU', _Z, _Bo)         # membership in the universe a contract quantifies over (closed under `at`)
NONE_H, TRUE_H, FALSE_H = Int('h!None'), Int('h!True'), Int('h!False')
DAYUS = 86400 * 10 ** 6


def V(h):
    return SV('val', h if z3.is_expr(h) else IntVal(h))


def tag_in(h, tags):
    tags = list(tags)
    if not tags:
        return BoolVal(False)
    return Or(*[tag(h) == t for t in tags]) if len(tags) > 1 else tag(h) == tags[0]


def is_num(h):
    return tag_in(h, (BOOL_T, INT_T, FLOAT_T))


def is_seq(h):
    return tag_in(h, SEQS)


def is_scalar(h):
    return tag_in(h, SCALARS)


def is_nan(h):
    return And(tag(h) == FLOAT_T, fk(h) == NAN)


def has_len(h):
    return tag_in(h, (STR_T, TUPLE_T, LIST_T, DICT_T))


def num(h):
    """numeric value of a bool / int / finite float"""
    return If(tag(h) == BOOL_T, If(bv(h), RealVal(1), RealVal(0)), If(tag(h) == INT_T, ToReal(iv(h)), rv(h)))


def ext(h):
    """position on the extended real line: 0 = -inf, 1 = finite, 2 = +inf (flags, compared lexicographically)"""
    return If(tag(h) == FLOAT_T, If(fk(h) == NINF, 0, If(fk(h) == PINF, 2, 1)), 1)


def num_lt(a, b):
    """Python a < b on numbers (bool, int, float): every comparison with a NaN is False"""
    return And(Not(is_nan(a)), Not(is_nan(b)), Or(ext(a) < ext(b), And(ext(a) == 1, ext(b) == 1, num(a) < num(b))))


def num_eq(a, b):
    """Python a == b on numbers: exact (ints are not rounded), NaN equals nothing"""
    return And(Not(is_nan(a)), Not(is_nan(b)), ext(a) == ext(b), Implies(ext(a) == 1, num(a) == num(b)))


PYEQC = Function('py_eq_containers', _Z, _Z, _Bo)        # Python == between two containers (unfolded by contracts that need it)
NLTC = Function('py_lt_containers', _Z, _Z, _Bo)         # Python <  between two containers of one type
NLTC_RAISES = Function('py_lt_containers_raises', _Z, _Z, _Bo)


def scalar_eq(a, b):
    """Python == on two scalars of the universe; never raises (tz-naive datetimes, no numpy)"""
    return Or(And(is_num(a), is_num(b), num_eq(a, b)),
              And(tag(a) == NONE_T, tag(b) == NONE_T),
              And(tag(a) == STR_T, tag(b) == STR_T, sk(a) == sk(b)),
              And(tag(a) == DT_T, tag(b) == DT_T, do(a) == do(b), du(a) == du(b)))


def py_eq(a, b):
    """Python a == b over the universe: scalars as above, a scalar never equals a container, containers by PYEQC"""
    return If(And(is_scalar(a), is_scalar(b)), scalar_eq(a, b), If(And(Not(is_scalar(a)), Not(is_scalar(b))), PYEQC(a, b), False))


def lt_defined(a, b):
    """a < b does not raise TypeError"""
    return Or(And(is_num(a), is_num(b)), And(tag(a) == STR_T, tag(b) == STR_T), And(tag(a) == DT_T, tag(b) == DT_T),
              And(is_seq(a), tag(a) == tag(b), Not(NLTC_RAISES(a, b))))


def py_lt(a, b):
    return If(And(is_num(a), is_num(b)), num_lt(a, b),
              If(tag(a) == STR_T, sk(a) < sk(b),
                 If(tag(a) == DT_T, Or(do(a) < do(b), And(do(a) == do(b), du(a) < du(b))), NLTC(a, b))))


def typerank(tagterm):
    """rank of str(type(x)) among the literal type-name strings (ties impossible: the strings are distinct)"""
    r = IntVal(TYPERANK[DICT_T])
    for t in (LIST_T, TUPLE_T, DT_T, STR_T, FLOAT_T, INT_T, BOOL_T, NONE_T):
        r = If(tagterm == t, TYPERANK[t], r)
    return r


def wf(h, tags=SCALARS, int_bound=True):
    """well-formedness of one object of the universe (instance of the universe's axioms at handle h); int_bound=False drops
    the |i| <= 2**53 restriction on ints (used only to exhibit what lies outside it)"""
    return [tag_in(h, tags),
            Implies(tag(h) == NONE_T, h == NONE_H), Implies(tag(h) == BOOL_T, h == If(bv(h), TRUE_H, FALSE_H)),
            Implies(tag(h) == INT_T, And(-INT_EXACT <= iv(h), iv(h) <= INT_EXACT)) if int_bound else BoolVal(True),
            Implies(tag(h) == FLOAT_T, And(0 <= fk(h), fk(h) <= 3)),
            Implies(tag(h) == DT_T, And(O_LO <= do(h), do(h) < O_HI, 0 <= du(h), du(h) < DAYUS)),
            ln(h) >= 0, depth(h) >= 0, Implies(is_scalar(h), depth(h) == 0)]


SINGLETONS = [tag(NONE_H) == NONE_T, tag(TRUE_H) == BOOL_T, bv(TRUE_H), tag(FALSE_H) == BOOL_T, Not(bv(FALSE_H))]


def universe_axioms(tags, elem_tags=None, int_bound=True):
    """closure of the universe predicate inU: every member is well formed, the elements of a member tuple / list are members
    of strictly smaller nesting depth (finite, acyclic nesting)"""
    h, j = Int('h!u'), Int('j!u')
    et = tags if elem_tags is None else elem_tags
    return SINGLETONS + [
        ForAll([h], Implies(inU(h), And(*wf(h, tags, int_bound))), patterns=[inU(h)]),
        ForAll([h, j], Implies(And(inU(h), is_seq(h), 0 <= j, j < ln(h)),
                               And(inU(at(h, j)), depth(at(h, j)) < depth(h), tag_in(at(h, j), et))), patterns=[at(h, j)])]


# ---- names of types in isinstance(...) -> tags of the universe whose objects are instances ------------------------------
ISINSTANCE = {'int': (INT_T, BOOL_T), 'bool': (BOOL_T,), 'float': (FLOAT_T,), 'str': (STR_T,), 'tuple': (TUPLE_T,), 'list': (LIST_T,),
              'dict': (DICT_T,), 'datetime.datetime': (DT_T,), 'datetime.date': (DT_T,), 'Iterable': (STR_T, TUPLE_T, LIST_T, DICT_T),
              'type(None)': (NONE_T,), 'NoneType': (NONE_T,)}
FOREIGN_PREFIXES = ('np.', 'pd.')
FOREIGN = ('partial', 'Enum')


def _type_tags(ex, name):
    if name in ISINSTANCE:
        return ISINSTANCE[name]
    if name.startswith(FOREIGN_PREFIXES) or name in FOREIGN:
        ex.use('universe:numpy-free / pandas-free: no value of the universe is an instance of %s' % (
            'a numpy or pandas type' if name.startswith(FOREIGN_PREFIXES) else name))
        return ()
    raise OutOfSubset('isinstance against %s on the value universe' % name)


class Vals:
    """the executor's view of the value universe.  `contracts` maps a repo function name to fn(ex, st, args, kwargs) -> SV for
    calls taken by contract (recursive calls, callees verified separately, assumed helpers)."""

    def __init__(self, contracts=None):
        self.contracts = dict(contracts or {})
        self._consts = {}

    # -------------------------------------------------------------------------------------------------- new objects
    def new_float(self, ex, kind, real=None, label='flt'):
        h = fresh_int(label)
        ex.fact(And(tag(h) == FLOAT_T, fk(h) == kind))
        if real is not None:
            ex.fact(rv(h) == real)
        return V(h)

    def const_float(self, ex, kind, label):
        if label not in self._consts:
            self._consts[label] = Int('h!' + label)
        h = self._consts[label]
        ex.fact(And(tag(h) == FLOAT_T, fk(h) == kind))
        return V(h)

    # -------------------------------------------------------------------------------------------------- expressions
    def name(self, ex, st, ident):
        if ident in ('np', 'pd', 'datetime'):
            return SV('module', None, name=ident)
        return NotImplemented

    def attr(self, ex, st, e, recv, name):
        if recv.kind == 'module' and recv.f['name'] == 'np':
            if name == 'inf':
                ex.use('axiom:np.inf is the float +inf, np.nan a float NaN')
                return self.const_float(ex, PINF, 'np.inf')
            if name == 'nan':
                ex.use('axiom:np.inf is the float +inf, np.nan a float NaN')
                return self.const_float(ex, NAN, 'np.nan')
        return NotImplemented

    def expr(self, ex, st, e):
        if isinstance(e, ast.List):
            return SV('litlist', None, items=[ex.eval(st, x) for x in e.elts])
        if isinstance(e, ast.GeneratorExp):
            ex.use('axiom:a generator expression consumed at once by any/all/min/list is its list (raise conditions over-approximated)')
            return ex.e_ListComp(st, e)
        return NotImplemented

    def concrete_items(self, ex, st, it):
        if it.kind == 'litlist':
            return it.f['items']
        return NotImplemented

    def pre_call(self, ex, st, e):
        if isinstance(e.func, ast.Name) and e.func.id == 'isinstance' and len(e.args) == 2:
            v = ex.eval(st, e.args[0])
            if v.kind != 'val':
                if v.kind in ('bool', 'int'):           # a bool / int produced by the code itself
                    tn = e.args[1]
                    names = [ast.unparse(x) for x in tn.elts] if isinstance(tn, ast.Tuple) else [ast.unparse(tn)]
                    return B(any(('int' == n) or (n == 'bool' and v.kind == 'bool') for n in names))
                return NotImplemented
            tn = e.args[1]
            names = [ast.unparse(x) for x in tn.elts] if isinstance(tn, ast.Tuple) else [ast.unparse(tn)]
            tags = set()
            for n in names:
                tags |= set(_type_tags(ex, n))
            ex.use('axiom:isinstance by type tag (the universe holds no instances of subclasses other than bool < int, datetime < date)')
            return B(tag_in(v.t, sorted(tags)))
        return NotImplemented

    def call(self, ex, st, e, fname, args, kwargs):
        if fname in self.contracts:
            return self.contracts[fname](ex, st, args, kwargs)
        a0 = args[0] if args else None
        if fname == 'type' and len(args) == 1 and a0.kind == 'val':
            return SV('pytype', tag(a0.t))
        if fname == 'str' and len(args) == 1 and a0.kind == 'pytype':
            ex.use(TYPENAME_NOTE)
            return SV('typename', a0.t)
        if fname == 'float' and len(args) == 1 and a0.kind == 'val':
            h = a0.t
            ex.raise_if(st, Not(Or(is_num(h), tag(h) == STR_T)), 'TypeError')
            ex.raise_if(st, tag(h) == STR_T, 'ValueError')            # a string that may not spell a number
            ex.raise_if(st, And(tag(h) == INT_T, Or(iv(h) >= FLOAT_OVERFLOW, iv(h) <= -FLOAT_OVERFLOW)), 'OverflowError')
            ex.use('assumed:float(i) is exact and does not overflow for |i| <= 2**53 (the int universe of the contracts)')
            r = fresh_int('float')
            ex.fact(Implies(tag(h) == FLOAT_T, r == h))
            ex.fact(Implies(tag(h) != FLOAT_T, And(tag(r) == FLOAT_T, fk(r) == FIN, rv(r) == num(h))))
            return V(r)
        if fname == 'int' and len(args) == 1 and not kwargs and a0.kind == 'val':
            h = a0.t
            ex.raise_if(st, Not(Or(is_num(h), tag(h) == STR_T)), 'TypeError')
            ex.raise_if(st, Or(tag(h) == STR_T, is_nan(h)), 'ValueError')            # a string that may not spell an integer; int(nan)
            ex.raise_if(st, And(tag(h) == FLOAT_T, Or(fk(h) == PINF, fk(h) == NINF)), 'OverflowError')
            ex.use('axiom:int(x) is x itself for an object of exact type int (CPython returns the operand); a bool gives the int 0 / 1, a finite float '
                   'an int (its truncation, value not modelled)')
            r = fresh_int('int')
            ex.fact(Implies(tag(h) == INT_T, r == h))
            ex.fact(Implies(tag(h) == BOOL_T, And(tag(r) == INT_T, iv(r) == If(bv(h), 1, 0))))
            ex.fact(Implies(tag(h) == FLOAT_T, tag(r) == INT_T))
            return V(r)
        if fname == 'len' and len(args) == 1 and a0.kind == 'val':
            ex.raise_if(st, Not(has_len(a0.t)), 'TypeError')
            return I(ln(a0.t))
        if fname == 'hasattr' and len(args) == 2 and args[1].kind == 'str' and args[1].t is None:
            nm = args[1].lit
            if a0.kind == 'val':
                if nm == '__len__':
                    return B(has_len(a0.t))
                if nm in ('__shape__', '__array__', 'shape', 'index', 'columns'):
                    return B(False)
                raise OutOfSubset('hasattr(value, %r)' % nm)
            if a0.kind in ('bool', 'int') and nm in ('__array__', '__len__', '__shape__'):
                return B(False)
        if fname == 'getattr' and len(args) == 3 and a0.kind == 'val' and args[1].kind == 'str' and args[1].lit == '__len__':
            return SV('lenfn', a0.t, default=args[2])
        if fname in ('np.isnan', 'np.isinf') and len(args) == 1 and a0.kind == 'val':
            h = a0.t
            ex.raise_if(st, Not(is_num(h)), 'TypeError')
            ex.use('axiom:np.isnan / np.isinf on a Python number')
            if fname == 'np.isnan':
                return B(is_nan(h))
            return B(And(tag(h) == FLOAT_T, Or(fk(h) == PINF, fk(h) == NINF)))
        if fname == 'zip' and len(args) == 2 and all(a.kind == 'val' for a in args):
            for a in args:
                ex.raise_if(st, Not(Or(is_seq(a.t), tag(a.t) == STR_T, tag(a.t) == DICT_T)), 'TypeError')
            return SV('zipvals', None, a=args[0].t, b=args[1].t)
        if fname == 'list' and len(args) == 1 and a0.kind == 'val':
            ex.raise_if(st, Not(is_seq(a0.t)), 'TypeError')
            ex.use('axiom:list(xs) is a new list with the elements of the tuple / list xs')
            r = fresh_int('list')
            j = Int('j!cp')
            ex.fact(And(tag(r) == LIST_T, ln(r) == ln(a0.t), ForAll([j], at(r, j) == at(a0.t, j), patterns=[at(r, j)])))
            return V(r)
        if fname in ('min', 'max', 'all', 'any') and len(args) == 1 and a0.kind == 'lazylist' and not kwargs:
            return self._fold_bools(ex, st, fname, a0)
        return NotImplemented

    def _fold_bools(self, ex, st, fname, lst):
        """min / all / any of a list of booleans (the element expression evaluated at a generic index)"""
        j = fresh_int('j')
        sub = st.fork(); sub.guards = []; sub.pending = []
        sub.pc = st.pc + st.guards + [And(0 <= j, j < lst.n)]
        el = lst.at(sub, j)
        if el.kind != 'bool':
            raise OutOfSubset('%s over a list of %s' % (fname, el.kind))
        jb = Int(fresh_name('jb'))
        body = z3.substitute(el.t, (j, jb))
        rng = And(0 <= jb, jb < lst.n)
        if fname in ('min', 'max'):
            ex.raise_if(st, lst.n == 0, 'ValueError')
            ex.use('axiom:min / max of a non-empty list of booleans is their conjunction / disjunction (False < True)')
        if fname in ('any', 'max'):
            return B(Exists([jb], And(rng, body)))
        return B(ForAll([jb], Implies(rng, body)))

    def call_value(self, ex, st, e, fn, args, kwargs):
        if fn.kind == 'lenfn' and not args and not kwargs:
            h, default = fn.t, fn.f['default']
            st.guards.append(Not(has_len(h)))
            try:
                if default.kind == 'func':
                    dv = ex.call_func(st, default, [], {})
                else:
                    raise OutOfSubset('getattr default of kind %s called' % default.kind)
            finally:
                st.guards.pop()
            if dv.kind != 'int':
                raise OutOfSubset('__len__ default returns %s' % dv.kind)
            return I(If(has_len(h), ln(h), dv.t))
        return NotImplemented

    def compare(self, ex, st, e, op, a, b):
        if a.kind == 'val' and b.kind == 'val':
            x, y = a.t, b.t
            if op in ('Is', 'IsNot'):
                return (x == y) if op == 'Is' else (x != y)
            if op in ('Eq', 'NotEq'):
                ex.use('axiom:== on the value universe (numbers exact, NaN equals nothing, cross-type False, never raises)')
                r = py_eq(x, y)
                return r if op == 'Eq' else Not(r)
            if op in ('Lt', 'Gt', 'LtE', 'GtE'):
                ex.use('axiom:< on the value universe (numbers with NaN/inf flags, str, datetime; TypeError across types and for None)')
                ex.raise_if(st, Not(lt_defined(x, y)), 'TypeError')
                if op == 'Lt':
                    return py_lt(x, y)
                if op == 'Gt':
                    return py_lt(y, x)
                eqn = If(And(is_num(x), is_num(y)), num_eq(x, y), py_eq(x, y))
                return Or(py_lt(x, y), eqn) if op == 'LtE' else Or(py_lt(y, x), eqn)
        if a.kind == 'pytype' and b.kind == 'pytype' and op in ('Eq', 'NotEq', 'Is', 'IsNot'):
            return (a.t == b.t) if op in ('Eq', 'Is') else (a.t != b.t)
        if a.kind == 'typename' and b.kind == 'typename':
            ra, rb = typerank(a.t), typerank(b.t)
            return {'Lt': ra < rb, 'Gt': ra > rb, 'LtE': ra <= rb, 'GtE': ra >= rb, 'Eq': ra == rb, 'NotEq': ra != rb}.get(op, NotImplemented)
        return NotImplemented

    def unary(self, ex, st, e, op, v):
        if op == 'USub' and v.kind == 'val':
            h = v.t
            ex.raise_if(st, Not(is_num(h)), 'TypeError')
            r = fresh_int('neg')
            ex.use('axiom:unary minus on a number (NaN stays NaN, infinities swap)')
            ex.fact(Implies(tag(h) == FLOAT_T, And(tag(r) == FLOAT_T, rv(r) == -rv(h),
                                                   fk(r) == If(fk(h) == PINF, NINF, If(fk(h) == NINF, PINF, fk(h))))))
            ex.fact(Implies(tag(h) != FLOAT_T, And(tag(r) == INT_T, iv(r) == -If(tag(h) == BOOL_T, If(bv(h), 1, 0), iv(h)))))
            return V(r)
        return NotImplemented

    def is_none(self, ex, st, v):
        if v.kind == 'val':
            return tag(v.t) == NONE_T
        return NotImplemented

    def iterate(self, ex, st, it):
        if it.kind == 'zipvals':
            a, b = it.f['a'], it.f['b']
            n = If(ln(a) <= ln(b), ln(a), ln(b))
            ex.use('axiom:zip(xs, ys) pairs the elements up to the shorter length')
            return n, (lambda st2, j: T([V(at(a, j)), V(at(b, j))]))
        if it.kind == 'val':
            ex.raise_if(st, Not(is_seq(it.t)), 'TypeError')
            h = it.t
            return ln(h), (lambda st2, j: V(at(h, j)))
        return NotImplemented

    def fresh_like(self, ex, st, name, v):
        if v.kind == 'val':
            return V(fresh_int(name))
        return NotImplemented

    def truth(self, ex, st, v):
        if v.kind == 'val':
            h = v.t
            return If(tag(h) == NONE_T, False, If(tag(h) == BOOL_T, bv(h), If(tag(h) == INT_T, iv(h) != 0,
                      If(tag(h) == FLOAT_T, Not(And(fk(h) == FIN, rv(h) == 0)), If(tag(h) == DT_T, True, ln(h) > 0)))))
        return NotImplemented


def to_handle(sv):
    """the object a symbolic value denotes, as a handle: a value is its handle, a bool / None produced by the code is the singleton"""
    if sv.kind == 'val':
        return sv.t
    if sv.kind == 'bool':
        return If(sv.t, TRUE_H, FALSE_H)
    if sv.kind == 'none':
        return NONE_H
    raise OutOfSubset('%s as an object of the value universe' % sv.kind)


# ---- CPython axioms used by contracts about sorting ------------------------------------------------------------------------
FD = Function('py_first_diff', _Z, _Z, _Z)              # first index at which two sequences differ (`is` or ==), else min length


def same_elem(p, q):
    """the element test of tuple / list comparison: identical or equal"""
    return Or(p == q, py_eq(p, q))


def seq_lt_axiom(a, b):
    """CPython's tuple / list `<` (instance for the pair a, b of one sequence type): find the first index w where the
    elements are neither identical nor ==; if there is none compare the lengths, else the result - and any TypeError - is
    that of a[w] < b[w]"""
    n = If(ln(a) <= ln(b), ln(a), ln(b))
    w = FD(a, b)
    j = Int('j!fd')
    return And(0 <= w, w <= n,
               ForAll([j], Implies(And(0 <= j, j < w), same_elem(at(a, j), at(b, j))), patterns=[z3.MultiPattern(at(a, j), at(b, j))]),
               Implies(w < n, Not(same_elem(at(a, w), at(b, w)))),
               NLTC_RAISES(a, b) == And(w < n, Not(lt_defined(at(a, w), at(b, w)))),
               Implies(Not(NLTC_RAISES(a, b)), NLTC(a, b) == If(w < n, py_lt(at(a, w), at(b, w)), ln(a) < ln(b))))


SEQ_LT_NOTE = ('axiom:tuple / list `<` compares the first pair of elements that are neither identical nor ==, else the lengths; it raises '
               'exactly when that element comparison raises (CPython richcompare)')


def sorted_result(ex, st, L, le, label='sorted'):
    """the value returned by sorted(L, ...) when it returns: a new list that is a permutation of L (same objects) and is
    non-decreasing under the total preorder `le` with which the supplied comparison agrees (premise discharged by the caller).
    Returns (handle of the result, permutation function pi: result position -> source position)."""
    R = fresh_int(label)
    pi = Function(fresh_name('pi'), _Z, _Z)
    pinv = Function(fresh_name('pinv'), _Z, _Z)
    p, q = Int('p!srt'), Int('q!srt')
    n = ln(L)
    st.assume(And(tag(R) == LIST_T, ln(R) == n,
                  ForAll([p], Implies(And(0 <= p, p < n), And(0 <= pi(p), pi(p) < n, at(R, p) == at(L, pi(p)), pinv(pi(p)) == p)),
                         patterns=[pi(p), at(R, p)]),
                  ForAll([q], Implies(And(0 <= q, q < n), And(0 <= pinv(q), pinv(q) < n, pi(pinv(q)) == q)), patterns=[pinv(q)]),
                  ForAll([p, q], Implies(And(0 <= p, p < q, q < n), le(at(R, p), at(R, q))), patterns=[z3.MultiPattern(at(R, p), at(R, q))])))
    ex.use('axiom:sorted(xs, ...) returns a new list that is a permutation of xs; it is non-decreasing under every total preorder with which '
           'the supplied comparison agrees wherever that comparison is defined; it raises only an exception raised by a comparison it performs '
           '(which comparisons CPython performs is not modelled)')
    return R, pi, pinv


# ---- witnesses / replay helpers -------------------------------------------------------------------------------------------
def witness_fields(prefix, h):
    return {prefix + '_id': h, prefix + '_tag': tag(h), prefix + '_b': bv(h), prefix + '_i': iv(h), prefix + '_fk': fk(h), prefix + '_r': rv(h),
            prefix + '_s': sk(h), prefix + '_do': do(h), prefix + '_du': du(h), prefix + '_len': ln(h)}


def small_hints(h):
    """search hints that keep counterexample values small and exactly representable"""
    return [-8 <= iv(h), iv(h) <= 8, -8 <= rv(h), rv(h) <= 8, z3.IsInt(rv(h) * 2), 0 <= sk(h), sk(h) <= 8, ln(h) <= 3,
            du(h) == 0, do(h) <= O_LO + 400]


# ---- validation of the comparison axioms against CPython (run by the contracts on every build) ----------------------------
def _enc(h, v):
    """constraints that make handle h carry the concrete Python value v"""
    if v is None:
        return [tag(h) == NONE_T]
    if isinstance(v, bool):
        return [tag(h) == BOOL_T, bv(h) == v]
    if isinstance(v, int):
        return [tag(h) == INT_T, iv(h) == v]
    if isinstance(v, float):
        if v != v:
            return [tag(h) == FLOAT_T, fk(h) == NAN]
        if v in (float('inf'), float('-inf')):
            return [tag(h) == FLOAT_T, fk(h) == (PINF if v > 0 else NINF)]
        num_, den_ = v.as_integer_ratio()
        return [tag(h) == FLOAT_T, fk(h) == FIN, rv(h) == z3.Q(num_, den_)]
    if isinstance(v, datetime.datetime):
        return [tag(h) == DT_T, do(h) == v.toordinal(), du(h) == ((v.hour * 60 + v.minute) * 60 + v.second) * 10 ** 6 + v.microsecond]
    raise ValueError(v)


def validate_against_cpython():
    """every pair of a small concrete universe: ==, whether < raises TypeError, and the value of < as CPython computes them
    must be what scalar_eq / lt_defined / py_lt say; tuple < and == are checked against the statement of seq_lt_axiom /
    the container == axiom evaluated natively; the type-name order is recomputed.  Returns a list of disagreements."""
    D_ = datetime.datetime
    strs = ['', 'a', 'ab', 'b']
    scalars = [None, True, False, 0, 1, -3, 2 ** 53, 0.0, 1.0, 2.5, -1.5, float('nan'), float('inf'), float('-inf'), D_(2020, 1, 1), D_(2021, 6, 1, 12, 30)]
    probs = []
    a, b = Int('va!a'), Int('va!b')
    s = z3.Solver()

    def holds(cs, f):
        s.push()
        try:
            s.add(*cs); s.add(Not(f))
            return s.check() == z3.unsat
        finally:
            s.pop()
    vals = [(v, None) for v in scalars] + [(w, i) for i, w in enumerate(strs)]
    for x, xi in vals:
        for y, yi in vals:
            cs = ([tag(a) == STR_T, sk(a) == xi] if xi is not None else _enc(a, x)) + ([tag(b) == STR_T, sk(b) == yi] if yi is not None else _enc(b, y))
            try:
                lt, defined = (x < y), True
            except TypeError:
                lt, defined = None, False
            f_eq = scalar_eq(a, b) == BoolVal(bool(x == y))
            f_def = lt_defined(a, b) == BoolVal(defined)
            f_lt = (py_lt(a, b) == BoolVal(bool(lt))) if defined else BoolVal(True)
            if holds(cs, And(f_eq, f_def, f_lt)):
                continue
            if not holds(cs, f_eq):
                probs.append('== on %r, %r' % (x, y))
            if not holds(cs, f_def):
                probs.append('definedness of < on %r, %r' % (x, y))
            if not holds(cs, f_lt):
                probs.append('< on %r, %r' % (x, y))
    # tuple / list comparison: the axioms' statement evaluated natively
    nan = float('nan')
    elems = [None, 1, 1.0, 2, 'a', nan, (1,), (2,)]
    tups = [()] + [(p,) for p in elems] + [(p, q) for p in elems for q in elems]
    same = lambda p, q: p is q or p == q
    for x in tups:
        for y in tups:
            n = min(len(x), len(y))
            w = next((k for k in range(n) if not same(x[k], y[k])), n)
            try:
                lt, raised = (x < y), False
            except TypeError:
                lt, raised = None, True
            try:
                exp_raise, exp = False, ((x[w] < y[w]) if w < n else len(x) < len(y))
            except TypeError:
                exp_raise, exp = True, None
            if raised != exp_raise or (not raised and bool(lt) != bool(exp)):
                probs.append('tuple < on %r, %r' % (x, y))
            if (x == y) != (len(x) == len(y) and all(same(p, q) for p, q in zip(x, y))):
                probs.append('tuple == on %r, %r' % (x, y))
    if [1] == (1,) or not ([nan] == [nan]) or [float('nan')] == [float('nan')]:
        probs.append('list == (type / identity shortcut)')
    if sorted(set(str(type(v)) for v in _EXAMPLE.values())) != _ORDER:
        probs.append('type-name order')
    return probs


VALIDATION_NOTE = ('validated on this run:==, < (value and TypeError) on all pairs of a 20-value scalar universe, tuple < / == on 73 x 73 tuples '
                   'and the type-name order agree with the CPython that generates the obligations')
