#!/usr/bin/env python3
"""Regenerates MANIFEST.json from checks/props.py (claimed checks) and the not_applicable table below."""
import json, os, sys
ROOT = os.path.dirname(os.path.dirname(os.path.abspath(__file__)))
sys.path.insert(0, ROOT)
from checks.props import PROPS, NOT_APPLICABLE, TEXT

ALL = ['C%02d' % i for i in range(1, 21)]
checks = []
for pid in ALL:
    if pid not in PROPS:
        continue
    m = PROPS[pid]
    t = TEXT[pid]
    checks.append(dict(
        property_id=pid,
        quick_cmd='python3-vt checks/run.py check %s --tier quick' % pid,
        thorough_cmd='python3-vt checks/run.py check %s --tier thorough' % pid,
        evidence_file='evidence/%s.json' % pid,
        replay_cmd_template='python3-vt checks/run.py replay {path}',
        engine='pyvc',
        level_claimed=dict(category=m['level'], text=t['level_text'], design_ref=t.get('design_ref', 'DESIGN.md section 6')),
        level_note=t['level_note'],
        technique=t['technique']))
na = [dict(property_id=p, reason=NOT_APPLICABLE[p]) for p in ALL if p not in PROPS]
man = dict(
    version=1,
    setup_cmd='python3-vt checks/setup.py',
    hooks=dict(guard='PYG_BASE_VERIF', enable='no source hooks: contracts live in /verif/contracts as sidecars keyed by qualified name; the prover reads /repo/src/pyg_base/*.py as text on every run',
               baseline_off_cmd='cd /repo && /venv/bin/python -m pytest -ra -q -p no:cacheprovider --timeout=900 --continue-on-collection-errors',
               source_commits=[], add_only=True),
    engines=[dict(name='pyvc', path='pyvc/', serves_properties=[c['property_id'] for c in checks],
                  kind_free_text='self-built deductive verifier: symbolic execution of the real Python AST (re-read from /repo on every run) into verification '
                                 'conditions, sidecar contracts / loop invariants / lemmas in contracts/, discharged by z3 5.1 (API), cvc5 1.0.3 and z3 4.8.12; '
                                 'ownership/frame checker over the same AST'),
             dict(name='rac', path='rac/', serves_properties=[c['property_id'] for c in checks if PROPS[c['property_id']].get('rac')],
                  kind_free_text='bounded stand-in: the same contract clauses evaluated natively around the real functions over enumerated inputs '
                                 '(labelled bounded, never counted as proved); also the replay runner for solver counterexamples')],
    checks=checks,
    not_applicable=na,
    notes='Exit codes of every check: 0 held, 1 violation (VIOLATION line), 2 undecided (solver unknown / selector mismatch / construct outside the verified subset), 3 checker failure. '
          'Known findings are listed in known_findings.txt and printed as KNOWN-FINDING lines.')
json.dump(man, open(os.path.join(ROOT, 'MANIFEST.json'), 'w'), indent=1)
print('MANIFEST.json:', len(checks), 'checks,', len(na), 'not applicable')
