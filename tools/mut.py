#!/usr/bin/env python3
"""Sensitivity harness: apply a textual mutation to a scratch copy of /repo (outside /repo and /verif), run a check
against it with PYG_REPO pointing at the copy, report the verdict, remove the copy.
   python3-vt tools/mut.py <prop> <file under src/pyg_base> <old> <new> [--tier quick] [--count N]"""
import sys, os, shutil, subprocess, tempfile, argparse

ROOT = os.path.dirname(os.path.dirname(os.path.abspath(__file__)))


def run_mutant(prop, fname, old, new, tier='quick', count=1, quiet=False, env_extra=None):
    tmp = tempfile.mkdtemp(prefix='pygmut_')
    try:
        shutil.copytree('/repo/src', os.path.join(tmp, 'src'))
        p = os.path.join(tmp, 'src', 'pyg_base', fname)
        s = open(p).read()
        if s.count(old) < 1:
            return 'nomatch', ''
        s = s.replace(old, new, count)
        open(p, 'w').write(s)
        env = dict(os.environ, PYG_REPO=tmp, PYVC_STRICT='1')      # strict: an undecided run exits 2 so that it is told apart from a clean one
        env.update(env_extra or {})
        r = subprocess.run(['python3-vt', os.path.join(ROOT, 'checks', 'run.py'), 'check', prop, '--tier', tier], capture_output=True, text=True, env=env,
                           cwd=ROOT)
        return r.returncode, r.stdout + r.stderr[-2000:]
    finally:
        shutil.rmtree(tmp, ignore_errors=True)


if __name__ == '__main__':
    ap = argparse.ArgumentParser()
    ap.add_argument('prop'); ap.add_argument('file'); ap.add_argument('old'); ap.add_argument('new')
    ap.add_argument('--tier', default='quick'); ap.add_argument('--count', type=int, default=1)
    a = ap.parse_args()
    code, out = run_mutant(a.prop, a.file, a.old, a.new, a.tier, a.count)
    print(out)
    print('exit', code)
