#!/usr/bin/env python3
"""Behaviour-preserving refactorings (the checks must not report them).
   python3-vt tools/refactor.py verify <dir with patch.diff, equiv.py, meta.json>   # equiv.py prints the same before and after; suite unchanged
   python3-vt tools/refactor.py run <dir>                                          # the property's check against the refactored tree
Scratch git worktree of /repo under $TMPDIR, removed afterwards; /repo itself is not touched."""
import sys, os, json, subprocess, time
ROOT = os.path.dirname(os.path.dirname(os.path.abspath(__file__)))
sys.path.insert(0, ROOT)
from tools.seeded import scratch, drop, suite, PY


def equiv(d, prog):
    try:
        r = subprocess.run([PY, prog], env=dict(os.environ, PYTHONPATH=os.path.join(d, 'src')), capture_output=True, text=True, timeout=600, cwd=d)
    except subprocess.TimeoutExpired:
        return 124, 'timeout'
    return r.returncode, r.stdout


def verify(sd):
    meta = json.load(open(os.path.join(sd, 'meta.json')))
    d = scratch()
    try:
        prog = os.path.join(sd, 'equiv.py')
        c0, o0 = equiv(d, prog)
        base = suite(d)
        a = subprocess.run(['git', '-C', d, 'apply', os.path.join(sd, 'patch.diff')], capture_output=True, text=True)
        if a.returncode:
            return dict(ok=False, why='patch does not apply: ' + a.stderr[-200:])
        c1, o1 = equiv(d, prog)
        changed = suite(d)
        return dict(ok=c0 == 0 and c1 == 0 and o0 == o1 and len(o0) > 0 and changed == base, equiv_exit=[c0, c1], equiv_output_bytes=len(o0), equiv_identical=o0 == o1,
                    suite_clean_passed=len(base), suite_patched_passed=len(changed), suite_identical=changed == base, property=meta.get('property'))
    finally:
        drop(d)


def run(sd, tier='quick'):
    meta = json.load(open(os.path.join(sd, 'meta.json')))
    prop = meta['property']
    d = scratch()
    try:
        a = subprocess.run(['git', '-C', d, 'apply', os.path.join(sd, 'patch.diff')], capture_output=True, text=True)
        if a.returncode:
            return dict(property=prop, exit=None, why='patch does not apply')
        t0 = time.time()
        r = subprocess.run(['python3-vt', os.path.join(ROOT, 'checks', 'run.py'), 'check', prop, '--tier', tier], capture_output=True, text=True,
                           env=dict(os.environ, PYG_REPO=d), cwd=ROOT)
        lines = [l for l in r.stdout.splitlines() if l.startswith(('VIOLATION', 'UNDECIDED', 'CHECKER', '  obligation/key'))]
        return dict(property=prop, exit=r.returncode, wall_s=round(time.time() - t0, 1), lines=lines[:12], tail=r.stdout.splitlines()[-2:])
    finally:
        drop(d)


if __name__ == '__main__':
    cmd, sd = sys.argv[1], os.path.abspath(sys.argv[2])
    print(json.dumps(verify(sd) if cmd == 'verify' else run(sd), indent=1))
