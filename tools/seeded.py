#!/usr/bin/env python3
"""Evaluate seeded property-breaking changes.
   python3-vt tools/seeded.py verify <dir with patch.diff, demo.py, meta.json>   # confirm the change myself (demo fails/passes, suite unchanged)
   python3-vt tools/seeded.py run <dir> [--tier quick]                         # run the property's check against the changed tree
Both work on a scratch git worktree of /repo under $TMPDIR (removed afterwards); /repo itself is not touched."""
import sys, os, json, subprocess, tempfile, shutil, time

ROOT = os.path.dirname(os.path.dirname(os.path.abspath(__file__)))
PY = '/venv/bin/python'


def scratch():
    d = tempfile.mkdtemp(prefix='seedrun_')
    os.rmdir(d)
    subprocess.run(['git', '-C', '/repo', 'worktree', 'add', '-q', '--detach', d, 'HEAD'], check=True)
    return d


def drop(d):
    subprocess.run(['git', '-C', '/repo', 'worktree', 'remove', '--force', d], capture_output=True)
    shutil.rmtree(d, ignore_errors=True)


def run_demo(d, demo):
    try:
        r = subprocess.run([PY, demo], env=dict(os.environ, PYTHONPATH=os.path.join(d, 'src')), capture_output=True, text=True, timeout=180, cwd=d)
    except subprocess.TimeoutExpired:
        return 124, 'demo did not finish within 180 s (non-termination)'
    return r.returncode, (r.stdout + r.stderr)[-400:]


def suite(d):
    import xml.etree.ElementTree as ET
    out = tempfile.mktemp(suffix='.xml')
    subprocess.run('cd %s && PYTHONPATH=%s/src %s -m pytest -q -p no:cacheprovider --timeout=900 --continue-on-collection-errors --junitxml=%s' % (d, d, PY, out),
                   shell=True, capture_output=True)
    passed = set()
    for tc in ET.parse(out).getroot().iter('testcase'):
        if not any(ch.tag in ('failure', 'error', 'skipped') for ch in tc):
            passed.add('%s::%s' % (tc.get('classname'), tc.get('name')))
    os.unlink(out)
    return passed


def verify(sd):
    meta = json.load(open(os.path.join(sd, 'meta.json')))
    d = scratch()
    try:
        demo = os.path.join(sd, 'demo.py')
        c0, o0 = run_demo(d, demo)
        base = suite(d)
        a = subprocess.run(['git', '-C', d, 'apply', os.path.join(sd, 'patch.diff')], capture_output=True, text=True)
        if a.returncode:
            return dict(ok=False, why='patch does not apply: ' + a.stderr[-200:])
        c1, o1 = run_demo(d, demo)
        changed = suite(d)
        ok = c0 == 0 and c1 != 0 and changed == base
        return dict(ok=ok, demo_clean_exit=c0, demo_patched_exit=c1, demo_patched_output=o1[-300:], suite_clean_passed=len(base), suite_patched_passed=len(changed),
                    suite_identical=changed == base, property=meta.get('property'))
    finally:
        drop(d)


def run(sd, tier='quick'):
    meta = json.load(open(os.path.join(sd, 'meta.json')))
    prop = meta['property']
    d = scratch()
    try:
        a = subprocess.run(['git', '-C', d, 'apply', os.path.join(sd, 'patch.diff')], capture_output=True, text=True)
        if a.returncode:
            return dict(property=prop, exit=None, why='patch does not apply')
        t0 = time.time()
        r = subprocess.run(['python3-vt', os.path.join(ROOT, 'checks', 'run.py'), 'check', prop, '--tier', tier], capture_output=True, text=True,
                           env=dict(os.environ, PYG_REPO=d), cwd=ROOT)
        lines = [l for l in r.stdout.splitlines() if l.startswith(('VIOLATION', 'UNDECIDED', 'CHECKER'))]
        return dict(property=prop, exit=r.returncode, wall_s=round(time.time() - t0, 1), lines=lines[:12], tail=r.stdout.splitlines()[-1:])
    finally:
        drop(d)


if __name__ == '__main__':
    cmd, sd = sys.argv[1], os.path.abspath(sys.argv[2])
    tier = 'thorough' if '--tier=thorough' in sys.argv else 'quick'
    res = verify(sd) if cmd == 'verify' else run(sd, tier)
    print(json.dumps(res, indent=1))
