#!/usr/bin/env python3
"""Runs every seeded change under /verif/seeded against its property's check (scratch worktree + PYG_REPO) and writes
seeded/RESULTS.json and a markdown table (stdout).  python3-vt tools/seeded_all.py [--jobs 3]"""
import sys, os, json, glob, concurrent.futures as cf
ROOT = os.path.dirname(os.path.dirname(os.path.abspath(__file__)))
sys.path.insert(0, ROOT)
from tools.seeded import run

jobs = int(sys.argv[sys.argv.index('--jobs') + 1]) if '--jobs' in sys.argv else 3
dirs = sorted(glob.glob(os.path.join(ROOT, 'seeded', '*_?')))


def one(sd):
    r = run(sd)
    meta = json.load(open(os.path.join(sd, 'meta.json')))
    prop = r['property']
    lines = r.get('lines') or []
    ded = [l.split('replay=')[1].split()[0] for l in lines if l.startswith('VIOLATION') and 'replays/%s_%s.' % (prop, prop) in l]
    bnd = [l.split('replay=')[1].split()[0] for l in lines if l.startswith('VIOLATION') and 'replays/%s_%s.' % (prop, prop) not in l]
    return dict(id=os.path.basename(sd), property=prop, exit=r.get('exit'), wall_s=r.get('wall_s'), summary=meta.get('summary', '')[:200], needs=meta.get('needs', '')[:200],
                deductive=[d.replace('replays/', '').replace('.json', '') for d in ded[:3]], bounded=[b.replace('replays/', '').replace('.json', '') for b in bnd[:3]],
                undecided=[l[:160] for l in lines if l.startswith('UNDECIDED')][:2])


with cf.ThreadPoolExecutor(max_workers=jobs) as ex:
    res = list(ex.map(one, dirs))
json.dump(res, open(os.path.join(ROOT, 'seeded', 'RESULTS.json'), 'w'), indent=1)
print('| seed | exit | caught by deductive obligation | caught by bounded clause |')
print('|---|---|---|---|')
for r in res:
    print('| %s | %s | %s | %s |' % (r['id'], r['exit'], '; '.join(x.split('.', 1)[1] if '.' in x else x for x in r['deductive'][:2]) or '–',
                                    '; '.join(x.split('_', 1)[1] if '_' in x else x for x in r['bounded'][:2]) or '–'))
print('\ndetected %d / %d' % (sum(1 for r in res if r['exit'] == 1), len(res)))
