#!/usr/bin/env python3
"""runs every registered check (quick unless --tier thorough) with a few in parallel and prints one line per property"""
import sys, os, subprocess, json, time, concurrent.futures as cf
ROOT = os.path.dirname(os.path.dirname(os.path.abspath(__file__)))
sys.path.insert(0, ROOT)
from checks.props import PROPS
tier = 'thorough' if '--tier=thorough' in sys.argv else 'quick'
jobs = 3
only = [a for a in sys.argv[1:] if a.startswith('C')]


def one(p):
    t0 = time.time()
    r = subprocess.run(['python3-vt', 'checks/run.py', 'check', p, '--tier', tier], capture_output=True, text=True, cwd=ROOT)
    lines = [l for l in r.stdout.splitlines() if l.startswith(('VIOLATION', 'UNDECIDED', 'CHECKER', 'KNOWN'))]
    return p, r.returncode, time.time() - t0, lines, r.stdout.splitlines()[-1:] + r.stderr.splitlines()[-3:]


with cf.ThreadPoolExecutor(max_workers=jobs) as ex:
    for p, code, secs, lines, tail in ex.map(one, only or sorted(PROPS)):
        print('%s exit=%d %.0fs %s' % (p, code, secs, tail[0] if tail else ''))
        for l in lines:
            print('    ' + l[:200])
