#!/usr/bin/env python3
"""Sensitivity self-test: canned semantic mutations, each applied to a scratch copy of the source; every one must make
its check report a violation (exit 1).  A mutation that still verifies is an engine/contract weakness.
   python3-vt tools/mutants.py <prop>|all [--jobs 4]"""
import sys, os, json, concurrent.futures as cf
ROOT = os.path.dirname(os.path.dirname(os.path.abspath(__file__)))
sys.path.insert(0, ROOT)
from tools.mut import run_mutant

import glob
ENV_EXTRA = {}
MUTANTS = {os.path.basename(f)[:-5]: json.load(open(f)) for f in sorted(glob.glob(os.path.join(ROOT, 'tools', 'mutants', '*.json')))}


def one(args):
    prop, i, m = args
    code, out = run_mutant(prop, m['file'], m['old'], m['new'], count=m.get('count', 1), env_extra=ENV_EXTRA)
    viol = [l for l in out.splitlines() if l.startswith('VIOLATION')]
    und = [l for l in out.splitlines() if l.startswith(('UNDECIDED', 'CHECKER'))]
    return prop, i, m, code, viol, und


def selftest(prop, jobs=4):
    """deductive part only (no bounded runner): every canned mutation of tools/mutants/<prop>.json must fail a named obligation"""
    global ENV_EXTRA
    ENV_EXTRA = {'PYVC_NO_RAC': '1', 'VERIF_TIER': 'quick'}
    todo = [(prop, i, m) for i, m in enumerate(MUTANTS.get(prop, []))]
    res = []
    with cf.ThreadPoolExecutor(max_workers=jobs) as ex:
        for prop_, i, m, code, viol, und in ex.map(one, todo):
            expect_eq = m.get('expect') == 'equivalent'
            res.append(dict(mutation='%s -> %s' % (m['old'][:60], m['new'][:60]), exit=code, equivalent=expect_eq,
                            caught_by=[v.split('replay=')[-1][:120] for v in viol[:2]], undecided=und[:1]))
    real = [r for r in res if not r['equivalent']]
    return dict(mutants=len(real), caught_by_deductive_part=sum(1 for r in real if r['exit'] == 1), undecided=sum(1 for r in real if r['exit'] == 2),
                missed=sum(1 for r in real if r['exit'] == 0), details=res)


if __name__ == '__main__':
    which = sys.argv[1]
    jobs = int(sys.argv[3]) if len(sys.argv) > 3 else 4
    todo = [(p, i, m) for p, ms in MUTANTS.items() if which in ('all', p) for i, m in enumerate(ms)]
    bad = 0
    with cf.ThreadPoolExecutor(max_workers=jobs) as ex:
        for prop, i, m, code, viol, und in ex.map(one, todo):
            ok = (code == 1) if m.get('expect') != 'equivalent' else (code != 1)
            bad += not ok
            print('%s #%d %-8s exit=%s  %s -> %s   %s' % (prop, i, 'CAUGHT' if ok else 'MISSED', code, m['old'][:40].replace('\n', ' '), m['new'][:40].replace('\n', ' '),
                                                  (viol[0][:110] if viol else (und[0][:160] if und else ''))))
    sys.exit(1 if bad else 0)
