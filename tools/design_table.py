#!/usr/bin/env python3
"""Rewrites section 8.1 of DESIGN.md (everything after the marker line '## 8.1') from seeded/RESULTS.json.  python3-vt tools/design_table.py"""
import os, json
ROOT = os.path.dirname(os.path.dirname(os.path.abspath(__file__)))
res = json.load(open(os.path.join(ROOT, 'seeded', 'RESULTS.json')))
p = os.path.join(ROOT, 'DESIGN.md')
s = open(p).read()
head = s[:s.index('## 8.1')]
n, det, ded = len(res), sum(1 for r in res if r['exit'] == 1), sum(1 for r in res if r['exit'] == 1 and r['deductive'])
out = ['## 8.1 Seeded changes: result table', '',
       'Output of `python3-vt tools/seeded_all.py` (exit 1 = reported with a VIOLATION line; third column: failing named obligations of the',
       'deductive part, fourth: clause keys of the bounded part). %d of %d seeds are reported; %d of them also fail a named deductive obligation.' % (det, n, ded), '',
       '| seed | exit | caught by deductive obligation | caught by bounded clause |', '|---|---|---|---|']
for r in res:
    out.append('| %s | %s | %s | %s |' % (r['id'], r['exit'], '; '.join(x.split('.', 1)[1] if '.' in x else x for x in r['deductive'][:2]) or '–',
                                        '; '.join(x.split('_', 1)[1] if '_' in x else x for x in r['bounded'][:2]) or '–'))
out += ['', 'detected %d / %d' % (det, n), '']
open(p, 'w').write(head + '\n'.join(out))
print('section 8.1: %d seeds, %d detected, %d by a deductive obligation' % (n, det, ded))
