#!/usr/bin/env python3
"""Runs every behaviour-preserving refactoring under /verif/harmless against its property's check (scratch worktree + PYG_REPO) and writes
harmless/RESULTS.json.  None may be reported (exit 1 / VIOLATION line).   python3-vt tools/harmless_all.py [--jobs 3]"""
import sys, os, json, glob, concurrent.futures as cf
ROOT = os.path.dirname(os.path.dirname(os.path.abspath(__file__)))
sys.path.insert(0, ROOT)
from tools.refactor import run

jobs = int(sys.argv[sys.argv.index('--jobs') + 1]) if '--jobs' in sys.argv else 3
dirs = sorted(glob.glob(os.path.join(ROOT, 'harmless', '*_?')))


def one(sd):
    r = run(sd)
    meta = json.load(open(os.path.join(sd, 'meta.json')))
    lines = r.get('lines') or []
    return dict(id=os.path.basename(sd), property=r['property'], exit=r.get('exit'), kind=meta.get('kind'), summary=meta.get('summary', '')[:160],
                reported=[l[:200] for l in lines if l.startswith('VIOLATION')][:3], undecided=[l[:200] for l in lines if l.startswith('UNDECIDED')][:3])


with cf.ThreadPoolExecutor(max_workers=jobs) as ex:
    res = list(ex.map(one, dirs))
json.dump(res, open(os.path.join(ROOT, 'harmless', 'RESULTS.json'), 'w'), indent=1)
bad = [r for r in res if r['exit'] != 0]
print('%d refactorings: %d exit 0 with every obligation decided, %d exit 0 with undecided sections, %d reported' % (
    len(res), sum(1 for r in res if r['exit'] == 0 and not r['undecided']), sum(1 for r in res if r['exit'] == 0 and r['undecided']), len(bad)))
for r in bad:
    print('REPORTED', r['id'], r['exit'], r['reported'][:1])
sys.exit(1 if bad else 0)
