#!/usr/bin/env python3
"""Runs the repository's pinned test suite (guard off) and compares the passing set with /root/.vp/BASELINE.json."""
import json, subprocess, sys, tempfile, os, xml.etree.ElementTree as ET
base = json.load(open('/root/.vp/BASELINE.json'))
out = tempfile.mktemp(suffix='.xml')
env = {k: v for k, v in os.environ.items() if k != 'PYG_BASE_VERIF'}
subprocess.run('cd /repo && /venv/bin/python -m pytest -ra -q -p no:cacheprovider --timeout=900 --continue-on-collection-errors --junitxml=%s' % out,
               shell=True, capture_output=True, env=env)
passed = set()
for tc in ET.parse(out).getroot().iter('testcase'):
    if not any(ch.tag in ('failure', 'error', 'skipped') for ch in tc):
        passed.add('%s::%s' % (tc.get('classname'), tc.get('name')))
os.unlink(out)
want = set(base['stable_pass'])
missing = sorted(want - passed)
print('passed %d, baseline %d, baseline tests no longer passing: %s' % (len(passed), len(want), missing))
sys.exit(1 if missing else 0)
