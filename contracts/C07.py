"""C07 - cmp is a total preorder over mixed types; sort / dictable.sort follow it stably.

Universe (pyvc/th_values.py): objects are handles; None, bool, int (|i| <= 2**53), float (finite / NaN / +inf / -inf), str,
tz-naive datetime, and tuples / lists of these nested to any finite depth.  NaN objects of different identity are different
handles.  dict values, numpy scalars and dates other than datetime are outside this universe (bounded stand-in only).

Functions under contract (real source, re-read on every run):
  pyg_base._sort:cmp      whole body, with len0 / _zero (pyg_base._loop), is_nan / is_float / is_iterable / is_str (pyg_base._types)
                          inlined; `cmparr` taken by contract at its two call sites, the dict branch excluded by the universe
  pyg_base._sort:cmparr   whole body against its loop contract (first non-zero element comparison, else 0); the recursive
                          call of cmp uses cmp's own contract on elements of strictly smaller nesting depth
  pyg_base._sort:_has_nan whole body against its recursive spec HASNAN (a NaN at some depth)
  pyg_base._sort:sort     whole body, given the sorted() axiom (th_values.sorted_result): the `_has_nan` guard establishes the
                          axiom's premise "Python's own < agrees with cmp wherever it is defined" (lemma sort.lemma.*, by
                          structural induction, needs the tuple </== axioms of CPython); the fallback sorted(..., key=Cmp)
                          executes the real Cmp.__init__ / Cmp.cmp / Cmp.__lt__ on a generic pair of elements
  pyg_base._dictable:dictable.sort   body from `by = as_tuple(by)` to the return: (key, row number) pairs, sort() by contract,
                          transposition, re-ordering of a generic column; the **byval branch is excluded; what the table is
                          (len, self[by], items(), constructor) is assumed (C01)
Structural induction on the nesting depth D: the laws are assumed for all values of depth < D (instances for the elements
at the witness indices of cmparr's contract) and proved for depth <= D; the base case (scalars) needs no hypothesis.
pyg_base._as_primitive:as_primitive / _as_primitive   whole bodies on the universe (is_bool / is_int / is_float / is_date / is_str inlined, the loop(list,
                          tuple) decorator by the contract of loops._wrapped from C19, dt(datetime) by C04): a scalar comes back as the very same
                          object, a tuple / list as a new container of the same class and length with - by induction - the very same leaves.  cmp's
                          contract keeps the original handle of a container (model note in the trusted base); numpy / date / Enum normalisation
                          is bounded-checked only.
sort's quantifier (lists of scalars None / int / finite float / NaN / str / datetime, or of equal-length tuples of them - no
bools, no infinities) is generalised to lists of pairwise *shape-compatible* values (COMPAT), which is what dictable.sort
hands to sort: ((key, ...), row number) pairs.
"""
import ast
import z3
from z3 import And, Or, Not, If, Implies, Int, Ints, IntVal, BoolVal, ForAll, Function, IntSort, BoolSort

from pyvc.front import select, SelectorError, OutOfSubset, find_all, strip_doc as front_strip
from pyvc.symex import Exec, State, LoopSpec
from pyvc.contract import suffix
from pyvc.sv import SV, I, B, T, fresh_int
from pyvc import th_values as tv
from pyvc.th_values import (V, Vals, tag, bv, iv, fk, rv, sk, do, du, ln, at, depth, inU, is_seq, is_scalar, is_num, is_nan,
                            NONE_T, BOOL_T, INT_T, FLOAT_T, STR_T, DT_T, TUPLE_T, LIST_T, FIN, NAN, PINF, NINF)

PROP = 'C07'
REPLAY_MODULE = 'rac.C07_ded'
TAGS = tv.SCALARS + tv.SEQS

CMP = Function('CMP', IntSort(), IntSort(), IntSort())     # cmp's own contract on smaller arguments: the value it returns
D = Int('D')                                               # induction measure: nesting depth of the arguments is <= D


# ------------------------------------------------------------------------------------------------ contracts used at call sites
def as_primitive_contract(ex, st, args, kwargs):
    if len(args) != 1 or args[0].kind != 'litlist':
        raise OutOfSubset('as_primitive of %s' % [a.kind for a in args])
    ex.use('callee contract:as_primitive returns the very object it is given for None, bool, int, float, str and tz-naive datetime (body verified in '
           'as_primitive.scalar.*); for a tuple / list it returns a new container of the same class and length holding - recursively - the very same '
           'leaf objects (as_primitive.container.*, by the loops._wrapped contract of C19); numpy / date / Enum normalisation is bounded-checked only')
    ex.use('model:cmp continues with the structural copy as_primitive makes of a tuple / list argument; the contract keeps the original handle, i.e. it relies on '
           'cmp reading a container only through type(), len() and its elements (which are the same objects)')
    return T(args[0].f['items'])


def cmp_contract(ex, st, args, kwargs):
    """recursive call cmp(a, b) on elements: measure obligation, then the induction hypothesis 'returns CMP(a,b) in {-1,0,1},
    does not raise'"""
    a, b = args
    if a.kind != 'val' or b.kind != 'val':
        raise OutOfSubset('cmp by contract on %s/%s' % (a.kind, b.kind))
    ex.oblige(st, 'call.cmp.arguments_of_smaller_depth', And(inU(a.t), inU(b.t), depth(a.t) < D, depth(b.t) < D), kind='pre')
    ex.use('induction hypothesis:cmp on values of nesting depth < D returns CMP in {-1,0,1} without raising (structural induction, schema trusted)')
    st.assume(And(CMP(a.t, b.t) >= -1, CMP(a.t, b.t) <= 1))
    return I(CMP(a.t, b.t))


def cmparr_post(a, b, res, w):
    """loop contract of cmparr(a, b): the first non-zero element comparison (at witness index w), else 0"""
    n = If(ln(a) <= ln(b), ln(a), ln(b))
    j = Int('j!arr')
    zero_upto = lambda m: ForAll([j], Implies(And(0 <= j, j < m), CMP(at(a, j), at(b, j)) == 0), patterns=[CMP(at(a, j), at(b, j))])
    return And(-1 <= res, res <= 1,
               Or(And(res == 0, zero_upto(n)),
                  And(0 <= w, w < n, res == CMP(at(a, w), at(b, w)), res != 0, zero_upto(w))))


def named(st, term, label):
    """a plain constant equal to the handle term (quantifier patterns must not contain if-then-else)"""
    if z3.is_const(term) and term.decl().kind() == z3.Z3_OP_UNINTERPRETED:
        return term
    c = fresh_int(label)
    st.assume(c == term)
    return c


def _has_quantifier(e, seen=None):
    seen = set() if seen is None else seen
    if e.get_id() in seen:
        return False
    seen.add(e.get_id())
    if z3.is_quantifier(e):
        return True
    return any(_has_quantifier(c, seen) for c in e.children())


def instances(hyps, terms):
    """quantifier-free weakening of a hypothesis list: conjunctions are split, a universally quantified hypothesis over one or
    two integers is replaced by its instances at the given terms, any other hypothesis containing a quantifier is dropped.
    Every formula returned is implied by the list given, so an obligation discharged from the result holds a fortiori; the
    query is decidable, which is what makes a *failing* obligation produce a counterexample instead of `unknown`."""
    out, stack = [], list(hyps)
    while stack:
        h = stack.pop()
        if z3.is_and(h):
            stack.extend(h.children())
        elif z3.is_quantifier(h):
            if h.is_forall() and h.num_vars() <= 2 and all(h.var_sort(k) == IntSort() for k in range(h.num_vars())) and not _has_quantifier(h.body()):
                if h.num_vars() == 1:
                    out.extend(z3.substitute_vars(h.body(), t) for t in terms)
                else:
                    out.extend(z3.substitute_vars(h.body(), t1, t2) for t1 in terms for t2 in terms)
        elif not _has_quantifier(h):
            out.append(h)
    return out


class Witnesses:
    def __init__(self):
        self.items = []          # (a, b, res, w) of every cmparr call taken by contract


def cmparr_contract(wits):
    def contract(ex, st, args, kwargs):
        a, b = args
        if a.kind != 'val' or b.kind != 'val':
            raise OutOfSubset('cmparr by contract on %s/%s' % (a.kind, b.kind))
        ex.oblige(st, 'call.cmparr.pre.sequences_of_the_universe',
                  And(inU(a.t), inU(b.t), is_seq(a.t), is_seq(b.t), depth(a.t) <= D, depth(b.t) <= D), kind='pre')
        res, w = fresh_int('cmparr'), fresh_int('w')
        ha, hb = named(st, a.t, 'arr_a'), named(st, b.t, 'arr_b')
        ex.use('callee contract:cmparr(a,b) is the first non-zero cmp of paired elements, else 0 (body verified in cmparr.*)')
        st.assume(cmparr_post(ha, hb, res, w))
        wits.items.append((ha, hb, res, w))
        return I(res)
    return contract


# ------------------------------------------------------------------------------------------------ sort: specification and theory
HASNAN = Function('HASNAN', IntSort(), BoolSort())          # _has_nan's own contract: a NaN at some depth
COMPAT = Function('COMPAT', IntSort(), IntSort(), BoolSort())  # spec predicate: two values of sort's universe of compatible shape


def HASNAN_unf(h):
    j = Int('j!hn')
    return If(is_seq(h), z3.Exists([j], And(0 <= j, j < ln(h), HASNAN(at(h, j)))), is_nan(h))


def HASNAN_DEF():
    """_has_nan computes HASNAN_unf (obligation has_nan.body_returns_the_unfolded_spec) - definition of HASNAN on the universe"""
    h = Int('h!hn')
    return ForAll([h], Implies(inU(h), HASNAN(h) == HASNAN_unf(h)), patterns=[HASNAN(h)])


def sort_scalar(h):
    """the scalars of sort's quantifier: None, ints, finite floats, NaN, strings, datetimes (no bools, no infinities)"""
    return And(tv.tag_in(h, (NONE_T, INT_T, FLOAT_T, STR_T, DT_T)), Implies(tag(h) == FLOAT_T, Or(fk(h) == FIN, fk(h) == NAN)))


def COMPAT_unf(a, b):
    """sort's quantifier, generalised: scalars are None, ints, finite floats, NaN, strings, datetimes; two sequences of one type
    must have equal length and pairwise compatible elements (equal-length tuples of scalars, and any nesting of them);
    a scalar next to a sequence, or a list next to a tuple, is unconstrained (Python's < is undefined between them)"""
    j = Int('j!cp')
    return If(And(is_scalar(a), is_scalar(b)), And(sort_scalar(a), sort_scalar(b)),
              If(And(is_seq(a), is_seq(b), tag(a) == tag(b)),
                 And(ln(a) == ln(b), ForAll([j], Implies(And(0 <= j, j < ln(a)), COMPAT(at(a, j), at(b, j))), patterns=[COMPAT(at(a, j), at(b, j))])),
                 True))


def COMPAT_DEF():
    a, b = Ints('a!cd b!cd')
    return ForAll([a, b], Implies(And(inU(a), inU(b)), COMPAT(a, b) == COMPAT_unf(a, b)), patterns=[COMPAT(a, b)])


def PYEQC_unf(a, b):
    """CPython's tuple / list ==: same type, same length, elements identical or == (trusted axiom, instance for a, b)"""
    j = Int('j!pe')
    return And(tag(a) == tag(b), ln(a) == ln(b),
               ForAll([j], Implies(And(0 <= j, j < ln(a)), tv.same_elem(at(a, j), at(b, j))), patterns=[z3.MultiPattern(at(a, j), at(b, j))]))


def LEMMA(a, b):
    """on NaN-free values of compatible shape: cmp is 0 exactly on identical-or-== values, and wherever Python's < is defined it
    says what cmp says"""
    return Implies(And(inU(a), inU(b), COMPAT(a, b), Not(HASNAN(a)), Not(HASNAN(b))),
                   And((CMP(a, b) == 0) == tv.same_elem(a, b), Implies(tv.lt_defined(a, b), tv.py_lt(a, b) == (CMP(a, b) < 0))))


def sort_pre(xs):
    i, j = Ints('i!sp j!sp')
    return [inU(xs), is_seq(xs),
            ForAll([i, j], Implies(And(0 <= i, i < ln(xs), 0 <= j, j < ln(xs)), COMPAT(at(xs, i), at(xs, j))),
                   patterns=[z3.MultiPattern(at(xs, i), at(xs, j))])]


def sort_contract(calls):
    """sort(xs) taken by contract (sort.* obligations): a new list, a permutation of xs, non-decreasing under cmp; never raises"""
    def contract(ex, st, args, kwargs):
        (a,) = args
        if a.kind != 'val':
            raise OutOfSubset('sort by contract on %s' % a.kind)
        h = named(st, a.t, 'sort_in')
        ex.oblige(st, 'call.sort.pre.list_of_compatible_values', And(*sort_pre(h)), kind='pre')
        ex.use('callee contract:sort(xs) returns a permutation of xs that is non-decreasing under cmp and never raises (sort.* obligations)')
        R, pi, pinv = tv.sorted_result(ex, st, h, lambda p, q: CMP(p, q) <= 0, label='sort')
        calls.append((h, R, pi, pinv))
        return V(R)
    return contract


def cmp_top_contract(ex, st, args, kwargs):
    """cmp called from Cmp.cmp: the contract established by the cmp.* obligations for values of any nesting depth"""
    a, b = args
    if a.kind != 'val' or b.kind != 'val':
        # e.g. a Cmp wrapper object handed to cmp: not a value of the universe the contract speaks about
        ex.oblige(st, 'call.cmp.pre.arguments_in_the_universe', BoolVal(False), kind='pre')
        return I(fresh_int('cmp_undef'))
    ex.oblige(st, 'call.cmp.pre.arguments_in_the_universe', And(inU(a.t), inU(b.t)), kind='pre')
    ex.use('callee contract:cmp(a,b) returns CMP(a,b) in {-1,0,1} without raising, CMP a total preorder (cmp.* obligations, all depths by induction)')
    # stated as a fact of the executor: an assumption made inside an inlined expression call does not reach the caller's path condition
    ex.fact(Implies(And(inU(a.t), inU(b.t)), And(CMP(a.t, b.t) >= -1, CMP(a.t, b.t) <= 1)))
    return I(CMP(a.t, b.t))


def hasnan_contract(recursive):
    def contract(ex, st, args, kwargs):
        (a,) = args
        if a.kind != 'val':
            raise OutOfSubset('_has_nan by contract on %s' % a.kind)
        if recursive:
            ex.oblige(st, 'call._has_nan.argument_of_smaller_depth', And(inU(a.t), depth(a.t) < D), kind='pre')
            ex.use('induction hypothesis:_has_nan on values of nesting depth < D returns the boolean HASNAN without raising')
        else:
            ex.oblige(st, 'call._has_nan.pre.argument_in_the_universe', inU(a.t), kind='pre')
            ex.use('callee contract:_has_nan(v) returns the boolean HASNAN(v) without raising (has_nan.* obligations)')
        return B(HASNAN(a.t))
    return contract


class SortTh(Vals):
    """Vals + the Cmp wrapper class of pyg_base._sort (objects with a field x; methods are executed from the real source) and
    the sorted() axiom instantiated with the order of cmp"""

    def __init__(self, contracts=None):
        Vals.__init__(self, contracts)
        self.sorted_calls = []          # (input handle, result handle, pi, pinv, how)

    def name(self, ex, st, ident):
        if ident == 'Cmp':
            return SV('class', None, name='Cmp')
        return Vals.name(self, ex, st, ident)

    def pre_call(self, ex, st, e):
        if isinstance(e.func, ast.Name) and e.func.id == 'isinstance' and len(e.args) == 2 and ast.unparse(e.args[1]) == 'Cmp':
            v = ex.eval(st, e.args[0])
            return B(v.kind == 'obj' and v.f.get('cls') == 'Cmp')
        return Vals.pre_call(self, ex, st, e)

    def attr(self, ex, st, e, recv, name):
        if recv.kind == 'obj':
            if name in recv.f.get('fields', {}):
                return recv.f['fields'][name]
            ex.raise_if(st, BoolVal(True), 'AttributeError')
            return SV('none')
        return Vals.attr(self, ex, st, e, recv, name)

    def store_attr(self, ex, st, tg, recv, name, v):
        if recv.kind == 'obj':
            fields = dict(recv.f.get('fields', {})); fields[name] = v
            return SV('obj', None, cls=recv.f['cls'], fields=fields)
        return NotImplemented

    def construct_cmp(self, ex, st, v):
        """Cmp(v): the real __init__ executed on a blank object"""
        blank = SV('obj', None, cls='Cmp', fields={})
        outs = ex.run_function(st, 'Cmp.__init__', [blank, v], {})
        objs = [o.st.env.get('self') for o in outs if o.kind == 'return']
        if len(outs) != 1 or len(objs) != 1 or objs[0] is None:
            raise OutOfSubset('Cmp.__init__ has more than one path')
        return objs[0]

    def call(self, ex, st, e, fname, args, kwargs):
        if fname == 'sorted' and len(args) == 1 and args[0].kind == 'val':
            return self.sorted(ex, st, args[0], kwargs.get('key'))
        return Vals.call(self, ex, st, e, fname, args, kwargs)

    def sorted(self, ex, st, L, key):
        hL = named(st, L.t, 'srt_in')
        ex.raise_if(st, Not(is_seq(hL)), 'TypeError')
        i0, j0 = fresh_int('i0'), fresh_int('j0')
        ea, eb = at(hL, i0), at(hL, j0)
        sub = st.fork(); sub.guards = []; sub.pending = []
        sub.pc = st.pc + st.guards + [0 <= i0, i0 < ln(hL), 0 <= j0, j0 < ln(hL)]
        if key is None:
            # the comparison supplied is Python's own `<`; the total preorder it must agree with (where defined) is cmp's
            ex.use(tv.SEQ_LT_NOTE)
            ex.use('lemma:native order agrees with cmp on NaN-free elements of sort\'s universe (sort.lemma.* obligations), instantiated for a generic pair')
            sub.pc.append(LEMMA(ea, eb))
            ex.oblige(sub, 'call.sorted.native_order_agrees_with_cmp_wherever_it_is_defined',
                      Implies(tv.lt_defined(ea, eb), tv.py_lt(ea, eb) == (CMP(ea, eb) < 0)), kind='pre')
            raises = z3.Bool(tv.fresh_name('sorted_raises'))
            i, j = Int('i!sr'), Int('j!sr')
            st.assume(Implies(raises, z3.Exists([i, j], And(0 <= i, i < ln(hL), 0 <= j, j < ln(hL), Not(tv.lt_defined(at(hL, i), at(hL, j)))))))
            ex.raise_if(st, raises, 'TypeError')
            how = 'native'
        elif key.kind == 'class' and key.f.get('name') == 'Cmp':
            # the comparison supplied is Cmp(a) < Cmp(b): execute the real wrapper class on a generic pair of elements
            oa = self.construct_cmp(ex, sub, V(ea))
            ob = self.construct_cmp(ex, sub, V(eb))
            base = len(sub.pc)
            outs = ex.run_function(sub, 'Cmp.__lt__', [oa, ob], {})
            bad = [suffix(o.st, base) for o in outs if o.kind != 'return']
            ex.oblige(sub, 'call.sorted.key_comparison_never_raises', Not(Or(*bad)) if bad else BoolVal(True), kind='pre')
            for o in outs:
                if o.kind == 'return':
                    if o.val.kind != 'bool':
                        raise OutOfSubset('Cmp.__lt__ returns a %s' % o.val.kind)
                    ex.oblige(o.st, 'call.sorted.key_comparison_is_the_strict_part_of_cmp', o.val.t == (CMP(ea, eb) < 0), kind='pre')
            how = 'key=Cmp'
        else:
            raise OutOfSubset('sorted with key of kind %s' % key.kind)
        R, pi, pinv = tv.sorted_result(ex, st, hL, lambda a, b: CMP(a, b) <= 0)
        self.sorted_calls.append((hL, R, pi, pinv, how))
        return V(R)


# ------------------------------------------------------------------------------------------------ dictable.sort: the table as seen by sort
class TableTh(Vals):
    """what dictable.sort needs to know about `self` (assumed here, property C01's business): len(self) = N rows, every column is
    a list of N values, self[by] is the list K of one key per row, type(self)(dict of columns) is the table with those columns.
    zip(keys, range(n)), list(...) of it and zip(*rows) are axiomatised on the handle model (new tuple objects per row)."""

    def __init__(self, contracts, N, K, COL):
        Vals.__init__(self, contracts)
        self.N, self.K, self.COL = N, K, COL
        self.pair = None
        self.reads = []                 # (sequence handle, position read) of every xs[i] executed

    def call(self, ex, st, e, fname, args, kwargs):
        a0 = args[0] if args else None
        if fname == 'len' and len(args) == 1 and a0.kind == 'obj' and a0.f.get('cls') == 'dictable':
            ex.use('assumed contract:len(table) is its number of rows N (C01)')
            return I(self.N)
        if fname == 'len' and len(args) == 1 and a0.kind == 'kwdict':
            return I(a0.t)
        if fname == 'type' and len(args) == 1 and a0.kind == 'obj':
            return SV('class', None, name=a0.f.get('cls'))
        if fname == 'zip' and len(args) == 2 and a0.kind == 'val' and args[1].kind == 'range':
            ex.raise_if(st, Not(is_seq(a0.t)), 'TypeError')
            return SV('zipvr', None, a=a0.t, r=args[1])
        if fname == 'list' and len(args) == 1 and a0.kind == 'zipvr':
            return self.list_of_pairs(ex, st, a0)
        return Vals.call(self, ex, st, e, fname, args, kwargs)

    def list_of_pairs(self, ex, st, zv):
        """list(zip(xs, range(..))): a new list of new 2-tuples (xs[j], the int lo + j*step)"""
        a, r = zv.f['a'], zv.f['r']
        Z = fresh_int('pairs')
        PAIR = Function(tv.fresh_name('PAIR'), IntSort(), IntSort())
        n = If(ln(a) <= r.n, ln(a), r.n)
        j = Int('j!pr')
        ex.use('axiom:list(zip(xs, range(n))) is a new list of new tuples (xs[j], j); tuples / lists built from values of the universe are values of '
               'the universe (row counts stay below 2**53)')
        ex.fact(And(tag(Z) == LIST_T, ln(Z) == n, inU(Z),
                    ForAll([j], Implies(And(0 <= j, j < n),
                                        And(at(Z, j) == PAIR(j), tag(PAIR(j)) == TUPLE_T, ln(PAIR(j)) == 2, at(PAIR(j), 0) == at(a, j),
                                            tag(at(PAIR(j), 1)) == INT_T, iv(at(PAIR(j), 1)) == r.lo + j * r.step)), patterns=[at(Z, j)], ),
                    ForAll([j], Implies(And(0 <= j, j < n), And(tag(PAIR(j)) == TUPLE_T, ln(PAIR(j)) == 2, at(PAIR(j), 0) == at(a, j),
                                                                iv(at(PAIR(j), 1)) == r.lo + j * r.step)), patterns=[PAIR(j)])))
        self.pair = PAIR
        return V(Z)

    def method(self, ex, st, e, recv, mname, args, kwargs):
        if recv.kind == 'obj' and recv.f.get('cls') == 'dictable':
            if mname == 'copy' and not args:
                ex.use('assumed contract:table.copy() is a table with the same rows (C01)')
                return recv
            if mname == 'items' and not args:
                return SV('tableitems', None, table=recv)
        return NotImplemented

    def subscript(self, ex, st, e, recv, idx):
        if recv.kind == 'obj' and recv.f.get('cls') == 'dictable' and idx.kind == 'val':
            ex.use('assumed contract:table[tuple of key columns / key functions] is the list of one key per row (dictable.__getitem__, C01)')
            return V(self.K)
        if recv.kind == 'val' and idx.kind == 'val':
            h, i = recv.t, idx.t
            ex.raise_if(st, Not(is_seq(h)), 'TypeError')
            ex.raise_if(st, Not(tv.tag_in(i, (INT_T, BOOL_T))), 'TypeError')
            k = If(tag(i) == BOOL_T, If(bv(i), 1, 0), iv(i))
            ex.raise_if(st, Not(And(-ln(h) <= k, k < ln(h))), 'IndexError')
            ex.use('axiom:xs[i] on a tuple / list with an int index (negative indices count from the end, IndexError outside)')
            pos = If(k >= 0, k, k + ln(h))
            self.reads.append((h, pos))
            return V(at(h, pos))
        return NotImplemented

    def pre_call(self, ex, st, e):
        if isinstance(e.func, ast.Name) and e.func.id == 'zip' and len(e.args) == 1 and isinstance(e.args[0], ast.Starred) and not e.keywords:
            v = ex.eval(st, e.args[0].value)
            if v.kind != 'val':
                raise OutOfSubset('zip(*%s)' % v.kind)
            ex.raise_if(st, Not(is_seq(v.t)), 'TypeError')
            return SV('zipstar', named(st, v.t, 'rows'))
        return Vals.pre_call(self, ex, st, e)

    def unpack(self, ex, st, v, k):
        if v.kind == 'zipstar':
            R = v.t
            p = Int('p!zs')
            ex.use('axiom:zip(*rows) transposes: unpacking it into k names needs at least one row... every row of length k')
            ex.raise_if(st, ln(R) == 0, 'ValueError')
            ex.raise_if(st, z3.Exists([p], And(0 <= p, p < ln(R), Not(And(is_seq(at(R, p)), ln(at(R, p)) == k)))), 'ValueError')
            cols = []
            for c in range(k):
                cols.append(SV('lazylist', None, n=ln(R), at=(lambda st2, j, c=c: V(at(at(R, j), c)))))
            return T(cols)
        return NotImplemented

    def expr(self, ex, st, e):
        if isinstance(e, ast.DictComp) and len(e.generators) == 1 and not e.generators[0].ifs:
            g = e.generators[0]
            it = ex.eval(st, g.iter)
            if it.kind != 'tableitems':
                raise OutOfSubset('dict comprehension over %s' % it.kind)
            ex.use('assumed contract:table.items() yields (column name, column) and every column is a list of N values (rectangular, C01); '
                   'the comprehension is evaluated for a generic column')
            sub = st.fork(); sub.env = dict(st.env); sub.pending = []; sub.guards = list(st.guards)
            ex.assign(sub, g.target, T([SV('colname'), V(self.COL)]), None)
            kv = ex.eval(sub, e.key)
            vv = ex.eval(sub, e.value)
            st.pc = sub.pc
            st.pending.extend(sub.pending)
            return SV('tabledict', None, key=kv, value=vv)
        return Vals.expr(self, ex, st, e)

    def dictcomp(self, ex, st, e):
        """hook name used by executors that have an e_DictComp handler; same treatment as in `expr`"""
        return self.expr(ex, st, e)

    def call_value(self, ex, st, e, fn, args, kwargs):
        if fn.kind == 'class' and fn.f.get('name') == 'dictable' and len(args) == 1 and args[0].kind == 'tabledict':
            ex.use('assumed contract:type(self)(dict of equal-length columns) is the table with those columns (C01)')
            return SV('obj', None, cls='dictable', columns=args[0])
        return Vals.call_value(self, ex, st, e, fn, args, kwargs)


# ------------------------------------------------------------------------------------------------ machinery
def machinery(ctx):
    ms, ml, mt = ctx.mod('_sort'), ctx.mod('_loop'), ctx.mod('_types')
    helpers = {'len0': (ml, ml.func('len0')), '_zero': (ml, ml.func('_zero')), 'is_nan': (mt, mt.func('is_nan')),
               'is_float': (mt, mt.func('is_float')), 'is_iterable': (mt, mt.func('is_iterable')), 'is_str': (mt, mt.func('is_str'))}
    return ms, ml, mt, helpers


def pre(*hs, **kw):
    """the quantifier's universe: members of U (closed under `at`) of nesting depth <= D"""
    out = tv.universe_axioms(TAGS, int_bound=kw.get('int_bound', True))
    for h in hs:
        out += [inU(h), depth(h) <= D]
    return out


def run_cmp(ctx, mach, x, y, label, int_bound=True):
    """symbolic execution of the real cmp body on (x, y); returns (rel, raises, ex, witnesses, hyps) where rel(R) is the summary
    as a relation: some returning path is taken and R is the value it returns"""
    ms, ml, mt, helpers = mach
    wits = Witnesses()
    inline = dict(helpers); inline['cmp'] = (ms, ms.func('cmp'))
    ex = Exec(ms, [Vals({'as_primitive': as_primitive_contract, 'cmparr': cmparr_contract(wits)})], inline=inline, name=label)
    st = State(); st.pc += pre(x, y, int_bound=int_bound)
    base = len(st.pc)
    outs = ex.run_function(st, 'cmp', [V(x), V(y)], {})
    rets = [(suffix(o.st, base), o.val) for o in outs if o.kind == 'return']
    raises = [(suffix(o.st, base), o.val) for o in outs if o.kind == 'raise']
    if not rets:
        raise OutOfSubset('cmp has no returning path')
    for c, v in rets:
        if v.kind != 'int':
            raise OutOfSubset('cmp returns a %s' % v.kind)
    rel = lambda R: Or(*[And(c, R == v.t) for c, v in rets])
    return rel, raises, ex, wits, rets


def preorder_on(hs):
    """the laws of a total preorder for CMP among the given handles (instances)"""
    out = []
    for a in hs:
        for b in hs:
            out.append(And(CMP(a, b) >= -1, CMP(a, b) <= 1, CMP(a, b) == -CMP(b, a)))
    for a in hs:
        for b in hs:
            for c in hs:
                if a is b or b is c or a is c:
                    continue
                out.append(Implies(And(CMP(a, b) <= 0, CMP(b, c) <= 0), CMP(a, c) <= 0))
    return out


def IH(hs):
    """induction hypothesis instance: the handles are members of the universe of depth < D  =>  cmp's laws hold among them"""
    return Implies(And(*[And(inU(h), depth(h) < D) for h in hs]), And(*preorder_on(hs)))


def elem_IH(wits_list, tops):
    """hypothesis instances for the elements of the top-level values at every witness index of the cmparr contracts used"""
    out = []
    seen = set()
    for wits in wits_list:
        for (_a, _b, _r, w) in wits.items:
            if w.get_id() in seen:
                continue
            seen.add(w.get_id())
            out.append(IH([at(t, w) for t in tops]))
    return out


# ------------------------------------------------------------------------------------------------ as_primitive (what cmp normalises its arguments with)
AP = Function('AS_PRIMITIVE', IntSort(), IntSort())                 # the object the decorated _as_primitive returns for an object
SAMELEAVES = Function('SAME_LEAVES', IntSort(), IntSort(), BoolSort())   # spec: r is h itself (scalar) or a container of h's class and length whose elements are SAME_LEAVES
BODY = '_as_primitive.body'


def sameleaves_unf(r, h, j):
    return If(is_scalar(h), r == h, And(tag(r) == tag(h), ln(r) == ln(h), Implies(And(0 <= j, j < ln(h)), SAMELEAVES(at(r, j), at(h, j)))))


def looped_contract(box):
    """the object `_as_primitive` names is loop(list, tuple)(body): by the contract of loops._wrapped (C19 _wrapped.leaf.* / _wrapped.list.*) a value that is
    not a list / tuple is handed to the body, a list / tuple gives a new container of the same class and length whose j-th element is the result on x[j]"""
    def contract(ex, st, args, kwargs):
        if len(args) != 1 or kwargs or args[0].kind != 'val':
            raise OutOfSubset('_as_primitive(%s)' % [a.kind for a in args])
        if not box.get('decorated'):
            raise SelectorError('_as_primitive is no longer decorated with loop(list, tuple)')
        v = args[0].t
        ex.use('callee contract:loop(list, tuple)(f)(x) is f(x) for x not a list / tuple; for a list / tuple it is a new container of the same class and length '
               'whose j-th element is the result on x[j] (wrapper.__call__ forwards to wrapped: C18 wrapper.__call__.*; loops.wrapped hands a single positional '
               'argument on to loops._wrapped(x, (), {}): C19 wrapped.positional.*; loops._wrapped: C19 _wrapped.leaf.* / _wrapped.list.*)')
        R = fresh_int('as_primitive')
        leaf = Not(is_seq(v))
        sub = st.fork(); sub.pc = st.pc + list(st.guards) + [leaf]; sub.guards = []; sub.pending = []
        base = len(sub.pc)
        if ex.feasible(sub):
            for o in ex.run_function(sub, BODY, [V(v)], {}):
                cond = And(*o.st.pc[base:]) if len(o.st.pc) > base else BoolVal(True)
                if o.kind == 'raise':
                    ex.raise_if(st, And(leaf, cond), o.val)
                else:
                    st.assume(Implies(And(leaf, cond), R == tv.to_handle(o.val)))
        j = Int('j!ap')
        st.assume(Implies(is_seq(v), And(tag(R) == tag(v), ln(R) == ln(v),
                                         ForAll([j], Implies(And(0 <= j, j < ln(v)), at(R, j) == AP(at(v, j))), patterns=[at(R, j)]))))
        return V(R)
    return contract


def dt_contract(ex, st, args, kwargs):
    if len(args) != 1 or kwargs or args[0].kind != 'val':
        raise OutOfSubset('dt(%s)' % [a.kind for a in args])
    ex.oblige(st, 'call.dt.pre.a_tz_naive_datetime', tag(args[0].t) == DT_T, kind='pre')
    ex.use('callee contract:dt(t) returns a tz-naive datetime t itself (no bump arguments: reduce(dt_bump, [], t) is t; C04 dt.datetime.returned_unchanged)')
    return args[0]


def as_primitive_section(ctx):
    mp, mt = ctx.mod('_as_primitive'), ctx.mod('_types')
    f_pub, f_body = mp.func('as_primitive'), mp.func('_as_primitive')
    decs = [ast.unparse(d_) for d_ in f_body.decorator_list]
    box = dict(decorated=(decs == ['loop(list, tuple)']))
    ctx.post('as_primitive.decorator_is_loop_list_tuple', [], BoolVal(box['decorated']), kind='post')
    inline = {'as_primitive': (mp, f_pub), BODY: (mp, f_body)}
    for nm in ('is_bool', 'is_int', 'is_float', 'is_date', 'is_str'):
        inline[nm] = (mt, mt.func(nm))
    h, J = Ints('h J')
    ex = Exec(mp, [Vals({'_as_primitive': looped_contract(box), 'dt': dt_contract})], inline=inline, name='as_primitive')
    st = State(); st.pc += pre(h)
    hy0 = list(st.pc); base = len(st.pc)
    outs = ex.run_function(st, 'as_primitive', [V(h)], {})
    ctx.absorb(ex)
    ctx.record_function(mp, 'as_primitive', f_pub, ex.stmts_executed)
    ctx.record_function(mp, '_as_primitive', f_body, ex.stmts_executed,
                        excluded=['Enum members (value.value), numpy scalars, datetime.date / np.datetime64 (normalised through dt): outside the deductive universe, bounded stand-in only'])
    for nm in ('is_bool', 'is_int', 'is_float', 'is_date', 'is_str'):
        ctx.record_function(mt, nm, inline[nm][1], ex.stmts_executed, how='inlined into _as_primitive')
    wh = dict(D=D, J=J); wh.update(tv.witness_fields('x', h))
    for k in range(3):
        wh.update(tv.witness_fields('x%d' % k, at(h, k)))
    kw = dict(witness=wh, replay=rp('as_primitive'))
    bad, nret = [], 0
    for out in outs:
        if out.kind != 'return':
            bad.append(suffix(out.st, base)); continue
        nret += 1
        if out.val.kind != 'val':
            raise OutOfSubset('as_primitive returns a %s' % out.val.kind)
        R = out.val.t
        hy = ex.facts + out.st.pc
        ctx.post('as_primitive.scalar.returns_the_very_object', hy + [is_scalar(h)], R == h, **kw)
        for nm, tg in (('None', NONE_T), ('bool', BOOL_T), ('int', INT_T), ('float', FLOAT_T), ('str', STR_T), ('datetime', DT_T)):
            ctx.cover('as_primitive.scalar.reachable.' + nm, hy + [tag(h) == tg])
        # containers: structural induction on the nesting depth - the elements' results have the same leaves (hypothesis, instance at J)
        ih = Implies(And(0 <= J, J < ln(h)), SAMELEAVES(AP(at(h, J)), at(h, J)))
        ctx.post('as_primitive.container.same_class_and_length', hy + [is_seq(h)], And(tag(R) == tag(h), ln(R) == ln(h)), **kw)
        ctx.post('as_primitive.container.elements_have_the_same_leaves', hy + [is_seq(h), ih], sameleaves_unf(R, h, J), **kw)
        ctx.cover('as_primitive.container.reachable', hy + [tag(h) == TUPLE_T, ln(h) == 2, tag(at(h, 0)) == LIST_T])
    ctx.post('as_primitive.never_raises', ex.facts + hy0, Not(Or(*bad)) if bad else BoolVal(True), kind='safety', **kw)
    if not nret:
        raise OutOfSubset('as_primitive has no returning path')
    ctx.trust('spec:SAME_LEAVES(r, h) is defined by structural recursion - r is h for a scalar, else a container of the class and length of h whose elements are '
              'SAME_LEAVES - and AS_PRIMITIVE(e) names the result on an element e; as_primitive.container.* is the induction step (hypothesis at the witness index)')


# ------------------------------------------------------------------------------------------------ build
def build(ctx):
    mach = machinery(ctx)
    ms, ml, mt, helpers = mach
    x, y, z = Ints('x y z')
    wit2 = dict(D=D); wit2.update(tv.witness_fields('x', x)); wit2.update(tv.witness_fields('y', y))
    wit3 = dict(wit2); wit3.update(tv.witness_fields('z', z))
    for k in range(3):
        for nm, h in (('x', x), ('y', y), ('z', z)):
            (wit3 if nm == 'z' else wit2).update(tv.witness_fields('%s%d' % (nm, k), at(h, k)))
            wit3.update(tv.witness_fields('%s%d' % (nm, k), at(h, k)))
    hints = []
    for h in (x, y, z):
        hints += tv.small_hints(h)
        for k in range(3):
            hints += tv.small_hints(at(h, k)) + [is_scalar(at(h, k))]
    ctx.default_meta = dict(search_hints=hints)
    fcmp = ms.func('cmp')
    EXCL = ['dict branch (sorted items, two cmparr calls): no value of the deductive universe is a dict; bounded stand-in only',
            'numpy scalars, datetime.date, Enum (as_primitive normalisation): bounded stand-in only',
            'ints beyond +-2**53 (float(i) inexact; beyond ~1.8e308 cmp raises OverflowError)']

    # ------------------------------------------------------------------ the theory's comparison axioms against CPython, on every run
    def axiom_validation():
        probs = tv.validate_against_cpython()
        if probs:
            raise OutOfSubset('comparison axioms of the value universe disagree with CPython: %s' % '; '.join(probs[:5]))
        ctx.trust(tv.VALIDATION_NOTE)
    ctx.guarded('axiom validation', axiom_validation)

    # ------------------------------------------------------------------ cmparr: body against its loop contract
    def cmparr_section():
        farr = ms.func('cmparr')
        loop = select(farr, 'For#0')
        a, b = Ints('a b')

        def inv(st, entry):
            k = st.ghost['For0.k']
            j = Int('j!inv')
            return [('running_comparison_is_zero', st.env['c'].t == 0),
                    ('earlier_pairs_compare_zero', ForAll([j], Implies(And(0 <= j, j < k), CMP(at(a, j), at(b, j)) == 0),
                                                          patterns=[CMP(at(a, j), at(b, j))]))]
        ex = Exec(ms, [Vals({'cmp': cmp_contract})], loops={id(loop): LoopSpec('For0', inv)},
                  inline={'cmparr': (ms, farr)}, name='cmparr')
        st = State()
        st.pc += pre(a, b) + [is_seq(a), is_seq(b)]
        hy0 = list(st.pc)
        base = len(st.pc)
        outs = ex.run_function(st, 'cmparr', [V(a), V(b)], {})
        ctx.absorb(ex)
        ctx.record_function(ms, 'cmparr', farr, ex.stmts_executed)
        wa = dict(D=D); wa.update(tv.witness_fields('x', a)); wa.update(tv.witness_fields('y', b))
        nret, bad = 0, []
        for out in outs:
            if out.kind != 'return':
                bad.append(suffix(out.st, base))
                continue
            nret += 1
            k = out.st.ghost.get('For0.k', IntVal(0))
            ctx.post('cmparr.post.first_nonzero_comparison_else_zero', ex.facts + out.st.pc, cmparr_post(a, b, out.val.t, k), witness=wa,
                     replay=rp('cmparr'))
        ctx.post('cmparr.never_raises', ex.facts + hy0, Not(Or(*bad)) if bad else BoolVal(True), kind='safety', witness=wa, replay=rp('cmparr'))
        if nret < 1:
            raise OutOfSubset('cmparr has no returning path')
        ctx.cover('cmparr.pre_satisfiable', hy0 + [ln(a) == 2, ln(b) == 2, tag(a) == TUPLE_T])
    ctx.guarded('cmparr', cmparr_section)
    ctx.guarded('as_primitive', lambda: as_primitive_section(ctx))

    # ------------------------------------------------------------------ cmp: summary, safety, laws (induction step; base = scalars)
    def cmp_section():
        rel_xy, raises_xy, ex_xy, w_xy, rets_xy = run_cmp(ctx, mach, x, y, 'cmp')
        ctx.absorb(ex_xy)
        executed = set(ex_xy.stmts_executed)
        ctx.record_function(ms, 'cmp', fcmp, executed, excluded=EXCL)
        for name, (m_, f_) in helpers.items():
            ctx.record_function(m_, name, f_, executed, how='inlined into cmp')
        hy2 = pre(x, y) + ex_xy.facts
        R1, R2, R3 = Ints('R1 R2 R3')
        # safety: no path raises (TypeError of `<`, of len / zip, ...)
        ctx.post('cmp.never_raises', hy2, Not(Or(*[c for c, _ in raises_xy])) if raises_xy else BoolVal(True), kind='safety',
                 witness=wit2, replay=rp('cmp.never_raises'))
        ctx.post('cmp.result_in_minus1_0_1', hy2 + [rel_xy(R1)], And(R1 >= -1, R1 <= 1), witness=wit2, replay=rp('cmp.range'))
        # antisymmetry
        rel_yx, _, ex_yx, w_yx, _ = run_cmp(ctx, mach, y, x, 'cmp.yx')
        ctx.trusted |= ex_yx.trusted
        hy_as = pre(x, y) + ex_xy.facts + ex_yx.facts + [rel_xy(R1), rel_yx(R2)] + elem_IH([w_xy, w_yx], [x, y])
        ctx.post('cmp.antisymmetric', hy_as, R1 == -R2, witness=wit2, replay=rp('cmp.antisymmetric'))
        # transitivity: three instances of the summary
        rel_yz, _, ex_yz, w_yz, _ = run_cmp(ctx, mach, y, z, 'cmp.yz')
        rel_xz, _, ex_xz, w_xz, _ = run_cmp(ctx, mach, x, z, 'cmp.xz')
        ctx.trusted |= ex_yz.trusted | ex_xz.trusted
        hy_tr = pre(x, y, z) + ex_xy.facts + ex_yz.facts + ex_xz.facts + [rel_xy(R1), rel_yz(R2), rel_xz(R3)] \
            + elem_IH([w_xy, w_yz, w_xz], [x, y, z])
        ctx.post('cmp.transitive', hy_tr + [R1 <= 0, R2 <= 0], R3 <= 0, witness=wit3, replay=rp('cmp.transitive'))
        ctx.post('cmp.transitive.strict_when_one_step_is_strict', hy_tr + [R1 <= 0, R2 <= 0, Or(R1 < 0, R2 < 0)], R3 < 0, witness=wit3,
                 replay=rp('cmp.transitive'))
        ctx.post('cmp.transitive.zero_is_an_equivalence', hy_tr + [R1 == 0, R2 == 0], R3 == 0, witness=wit3, replay=rp('cmp.transitive'))
        ctx.cover('cmp.antisymmetry_hypotheses_satisfiable.tuples', hy_as + [tag(x) == TUPLE_T, tag(y) == TUPLE_T, ln(x) == 2, ln(y) == 2, R1 == 1,
                                                                           CMP(at(x, 0), at(y, 0)) == 0])
        ctx.cover('cmp.transitivity_hypotheses_satisfiable.tuples', hy_tr + [R1 == -1, R2 == -1, tag(x) == TUPLE_T, tag(y) == TUPLE_T, tag(z) == TUPLE_T,
                                                                             ln(x) == 2, ln(y) == 2, ln(z) == 2, CMP(at(x, 0), at(y, 0)) == 0])
        ctx.cover('cmp.transitivity_hypotheses_satisfiable.mixed_scalars', hy_tr + [R1 == -1, R2 == -1, tag(x) == NONE_T, is_nan(y), tag(z) == STR_T])
        # scalar clauses of the statement
        ctx.post('cmp.zero_for_numerically_equal_int_and_float',
                 hy2 + [rel_xy(R1), tag(x) == INT_T, tag(y) == FLOAT_T, fk(y) == FIN, z3.ToReal(iv(x)) == rv(y)], R1 == 0,
                 witness=wit2, replay=rp('cmp.int_float'))
        finite = lambda h: Or(tag(h) == INT_T, And(tag(h) == FLOAT_T, fk(h) == FIN))
        ctx.post('cmp.nan_above_every_finite_number', hy2 + [rel_xy(R1), is_nan(x), finite(y)], R1 == 1, witness=wit2, replay=rp('cmp.nan_above'))
        ctx.post('cmp.every_finite_number_below_nan', hy2 + [rel_xy(R1), is_nan(y), finite(x)], R1 == -1, witness=wit2, replay=rp('cmp.nan_above'))
        ctx.post('cmp.two_nan_objects_compare_equal', hy2 + [rel_xy(R1), is_nan(x), is_nan(y)], R1 == 0, witness=wit2, replay=rp('cmp.nan_nan'))
        # outside the int universe of this contract (kept visible, not claimed): with ints of any size the OverflowError of float(i) is reachable
        _, raises_big, ex_big, _, _ = run_cmp(ctx, mach, x, y, 'cmp.unbounded_ints', int_bound=False)
        over = [c for c, exc in raises_big if exc == 'OverflowError']
        if not over:
            raise OutOfSubset('float(i) no longer has an overflow path: review the |i| <= 2**53 restriction of the contract')
        ctx.cover('cmp.outside_the_contract.int_beyond_float_range_raises_OverflowError', pre(x, y, int_bound=False) + ex_big.facts + [Or(*over)])
        ctx.trust('domain:ints are restricted to |i| <= 2**53; outside it float(i) is inexact and from 2**1024 on cmp raises OverflowError '
                  '(cover cmp.outside_the_contract.* shows the path is reachable: cmp(10**400, 1))')
        # vacuity / reachability
        ctx.cover('cmp.pre_satisfiable.scalars', hy2 + [tag(x) == INT_T, is_nan(y), D == 0])
        ctx.cover('cmp.pre_satisfiable.nested', hy2 + [tag(x) == TUPLE_T, tag(y) == TUPLE_T, ln(x) == 2, ln(y) == 2, tag(at(x, 0)) == LIST_T, x != y])
        ctx.cover('cmp.two_distinct_nan_objects', hy2 + [is_nan(x), is_nan(y), x != y])
        ctx.cover('cmp.lexicographic_path_reachable', hy2 + [rel_xy(R1), R1 == 1, tag(x) == TUPLE_T, tag(y) == TUPLE_T, ln(x) == 3, ln(y) == 3,
                                                             CMP(at(x, 0), at(y, 0)) == 0])
    ctx.guarded('cmp', cmp_section)
    # ------------------------------------------------------------------ _has_nan: body against its recursive spec
    def hasnan_section():
        fh = ms.func('_has_nan')
        h = Int('h')
        ex = Exec(ms, [Vals({'_has_nan': hasnan_contract(True)})], inline={'_has_nan': (ms, fh)}, name='has_nan')
        st = State(); st.pc += pre(h)
        hy0 = list(st.pc); base = len(st.pc)
        outs = ex.run_function(st, '_has_nan', [V(h)], {})
        ctx.absorb(ex)
        ctx.record_function(ms, '_has_nan', fh, ex.stmts_executed)
        wh = dict(D=D); wh.update(tv.witness_fields('x', h))
        bad = []
        for out in outs:
            if out.kind != 'return':
                bad.append(suffix(out.st, base)); continue
            if out.val.kind != 'bool':
                raise OutOfSubset('_has_nan returns a %s' % out.val.kind)
            ctx.post('has_nan.body_returns_the_unfolded_spec', ex.facts + out.st.pc, out.val.t == HASNAN_unf(h), witness=wh, replay=rp('has_nan'))
        ctx.post('has_nan.never_raises', ex.facts + hy0, Not(Or(*bad)) if bad else BoolVal(True), kind='safety', witness=wh, replay=rp('has_nan'))
    ctx.guarded('has_nan', hasnan_section)

    # ------------------------------------------------------------------ sort: lemmas linking Python's native order with cmp
    def sort_lemmas():
        a, b = Ints('a b')
        rel_ab, _, ex_ab, w_ab, _ = run_cmp(ctx, mach, a, b, 'sort.lemma.cmp')
        ctx.trusted |= ex_ab.trusted
        idx = [w for (_a, _b, _r, w) in w_ab.items] + [tv.FD(a, b)]
        small = lambda h: And(inU(h), depth(h) < D)
        ih = [Implies(And(small(at(a, w)), small(at(b, w))), LEMMA(at(a, w), at(b, w))) for w in idx]
        wab = dict(D=D); wab.update(tv.witness_fields('x', a)); wab.update(tv.witness_fields('y', b))
        for k in range(3):
            wab.update(tv.witness_fields('x%d' % k, at(a, k))); wab.update(tv.witness_fields('y%d' % k, at(b, k)))
        both = And(is_seq(a), is_seq(b))
        defs = [rel_ab(CMP(a, b)), HASNAN_DEF(), COMPAT_DEF(), Implies(both, tv.seq_lt_axiom(a, b)), Implies(both, tv.PYEQC(a, b) == PYEQC_unf(a, b))]
        hy = pre(a, b) + ex_ab.facts + defs + ih
        ctx.post('sort.lemma.native_order_and_equality_agree_with_cmp', hy, LEMMA(a, b), kind='lemma', witness=wab, replay=rp('sort.lemma'))
        ctx.cover('sort.lemma.premise_satisfiable.scalars', hy + [is_scalar(a), is_scalar(b), COMPAT(a, b), Not(HASNAN(a)), Not(HASNAN(b)),
                                                                  tv.lt_defined(a, b), tag(a) == INT_T, tag(b) == FLOAT_T])
        ctx.cover('sort.lemma.premise_satisfiable.tuples', hy + [tag(a) == TUPLE_T, tag(b) == TUPLE_T, ln(a) == 2, COMPAT(a, b), Not(HASNAN(a)), Not(HASNAN(b)),
                                                                 tv.lt_defined(a, b), CMP(a, b) < 0, tv.FD(a, b) == 1])
        ctx.trust('definition:CMP(a,b) is the value cmp(a,b) returns - it satisfies the summary of the real body (instance rel(CMP(a,b)) in sort.lemma.*)')
        ctx.trust('axiom:tuple / list == requires the same type and length and compares elements with `a is b or a == b` (CPython)')
        ctx.trust('spec:COMPAT is defined by structural recursion (well founded on the nesting depth)')
    ctx.guarded('sort.lemma', sort_lemmas)

    # ------------------------------------------------------------------ sort: body, given the sorted() axiom
    def sort_section():
        fs = ms.func('sort')
        xs = Int('xs')
        th = SortTh({'_has_nan': hasnan_contract(False), 'cmp': cmp_top_contract})
        inline = {'sort': (ms, fs)}
        for meth in ('__init__', 'cmp', '__lt__'):
            inline['Cmp.' + meth] = (ms, ms.func('Cmp.' + meth))
        ex = Exec(ms, [th], inline=inline, name='sort')
        j = Int('j!xs')
        st = State()
        st.pc += tv.universe_axioms(TAGS) + sort_pre(xs) + [COMPAT_DEF()]
        hy0 = list(st.pc); base = len(st.pc)
        outs = ex.run_function(st, 'sort', [V(xs)], {})
        ws = dict(); ws.update(tv.witness_fields('x', xs))
        sort_hints = [ln(xs) <= 3, tag(xs) == LIST_T]
        for k in range(3):
            ws.update(tv.witness_fields('x%d' % k, at(xs, k)))
            sort_hints += tv.small_hints(at(xs, k)) + [is_scalar(at(xs, k))]
        for ob in ex.obligations:           # call-site obligations: replayable on the list handed to sort
            ob.witness = ob.witness or ws
            ob.meta.setdefault('replay', rp('sort'))
            ob.meta['search_hints'] = sort_hints
        ctx.default_meta = dict(search_hints=sort_hints)
        ctx.absorb(ex)
        ctx.record_function(ms, 'sort', fs, ex.stmts_executed)
        for meth in ('__init__', 'cmp', '__lt__'):
            ctx.record_function(ms, 'Cmp.' + meth, ms.func('Cmp.' + meth), ex.stmts_executed, how='executed for a generic pair of elements at sorted(..., key=Cmp)')
        bad, nret = [], 0
        p, q = Ints('p!post q!post')
        n = ln(xs)
        for out in outs:
            if out.kind != 'return':
                bad.append(suffix(out.st, base)); continue
            if out.val.kind != 'val':
                raise OutOfSubset('sort returns a %s' % out.val.kind)
            R = out.val.t
            rec = [c for c in th.sorted_calls if c[1].get_id() == R.get_id()]
            if not rec:
                raise OutOfSubset('sort returns a value that is not the result of sorted()')
            _hL, _R, pi, pinv, how = rec[0]
            nret += 1
            hy = ex.facts + out.st.pc
            tagp = how.replace('=', '_')
            ctx.post('sort.%s.returns_a_permutation_of_its_input' % tagp, hy,
                     And(ln(R) == n,
                         ForAll([p], Implies(And(0 <= p, p < n), And(0 <= pi(p), pi(p) < n, at(R, p) == at(xs, pi(p)), pinv(pi(p)) == p))),
                         ForAll([q], Implies(And(0 <= q, q < n), And(0 <= pinv(q), pinv(q) < n, pi(pinv(q)) == q)))),
                     witness=ws, replay=rp('sort'))
            ctx.post('sort.%s.result_is_nondecreasing_under_cmp' % tagp, hy,
                     ForAll([p, q], Implies(And(0 <= p, p < q, q < n), CMP(at(R, p), at(R, q)) <= 0)), witness=ws, replay=rp('sort'))
            ctx.cover('sort.%s.path_reachable' % tagp, hy + [ln(xs) == 2, at(xs, 0) != at(xs, 1)] + ([is_nan(at(xs, 0))] if how != 'native' else []))
        ctx.post('sort.never_raises', ex.facts + hy0, Not(Or(*bad)) if bad else BoolVal(True), kind='safety', witness=ws, replay=rp('sort'))
        if nret < 1:
            raise OutOfSubset('sort has no returning path')
        ctx.cover('sort.pre_satisfiable.nan_and_mixed_types', hy0 + [ln(xs) == 3, is_nan(at(xs, 0)), tag(at(xs, 1)) == STR_T, tag(at(xs, 2)) == NONE_T])
        ctx.cover('sort.pre_satisfiable.tuples', hy0 + [ln(xs) == 2, tag(at(xs, 0)) == TUPLE_T, tag(at(xs, 1)) == TUPLE_T, ln(at(xs, 0)) == 2,
                                                        at(xs, 0) != at(xs, 1), is_nan(at(at(xs, 0), 1))])
    base_meta = ctx.default_meta
    ctx.guarded('sort', sort_section)
    ctx.default_meta = base_meta

    # ------------------------------------------------------------------ dictable.sort: stable permutation of the rows
    def table_section():
        md = ctx.mod('_dictable')
        fd = md.func('dictable.sort')
        N, K, COL, BY, NBV = Ints('N K COL BY NBV')
        calls = []

        def as_tuple_contract(ex, st, args, kwargs):
            ex.use('assumed contract:as_tuple(by) is the tuple of the key columns / key functions given (C19)')
            return args[0]
        th = TableTh({'sort': sort_contract(calls), 'as_tuple': as_tuple_contract}, N, K, COL)
        ex = Exec(md, [th], inline={}, name='dictable.sort')
        i, j = Ints('i!k j!k')
        st = State(env={'self': SV('obj', None, cls='dictable'), 'by': V(BY), 'byval': SV('kwdict', NBV)})
        st.pc += tv.universe_axioms(TAGS) + [COMPAT_DEF(), 0 <= N, N < tv.INT_EXACT, NBV >= 0, tag(BY) == TUPLE_T, ln(BY) >= 1,
                                              inU(K), tag(K) == LIST_T, ln(K) == N, tag(COL) == LIST_T, ln(COL) == N,
                                              ForAll([i, j], Implies(And(0 <= i, i < N, 0 <= j, j < N), COMPAT(at(K, i), at(K, j))),
                                                     patterns=[z3.MultiPattern(at(K, i), at(K, j))])]
        hy0 = list(st.pc); base = len(st.pc)
        outs = ex.run_block(st, front_strip(fd.body))
        wt = dict(N=N); wt.update(tv.witness_fields('x', K))
        t_hints = [N <= 3]
        for k in range(3):
            wt.update(tv.witness_fields('x%d' % k, at(K, k)))
            t_hints += tv.small_hints(at(K, k)) + [is_scalar(at(K, k))]
        for ob in ex.obligations:
            ob.witness = ob.witness or wt
            ob.meta.setdefault('replay', rp('dictable.sort'))
            ob.meta['search_hints'] = t_hints
        ctx.default_meta = dict(search_hints=t_hints)
        ctx.absorb(ex)
        ctx.record_function(md, 'dictable.sort', fd, ex.stmts_executed,
                            excluded=['**byval branch (value orders: dict(zip(vals, range)), d.get(row[k], len(d))): dict keys are outside the deductive '
                                      'universe; bounded stand-in only',
                                      'self[by], self.copy(), self.items(), type(self)(...), as_tuple: assumed contracts of the table (C01 / C19)'])
        bad, main = [], 0
        p, q = Ints('P Q')
        for out in outs:
            if out.kind != 'return':
                bad.append(suffix(out.st, base)); continue
            r = out.val
            if r.kind == 'obj' and 'columns' not in r.f:
                # `return self.copy()`: no rows, or no keys given
                ctx.post('dictable.sort.copy_only_without_rows_or_keys', ex.facts + out.st.pc, Or(N == 0, ln(BY) == 0), witness=wt, replay=rp('dictable.sort'))
                continue
            if r.kind != 'obj':
                raise OutOfSubset('dictable.sort returns a %s' % r.kind)
            main += 1
            if len(calls) != 1:
                # the row order does not come from one call of sort(): nothing orders the rows
                ctx.post('dictable.sort.rows_ordered_by_key_and_ties_keep_original_order', ex.facts + out.st.pc, BoolVal(False), witness=wt,
                         replay=rp('dictable.sort'))
                continue
            Z, R, pi, pinv = calls[0]
            NC = r.f['columns'].f['value']
            if NC.kind != 'lazylist':
                raise OutOfSubset('the new column is a %s' % NC.kind)
            hy = ex.facts + out.st.pc
            # (1) every column is re-ordered by one and the same permutation pi of the row numbers
            s2 = out.st.fork(); s2.pc = list(out.st.pc) + [0 <= p, p < N]
            del th.reads[:]
            el = NC.at(s2, p)
            if len(th.reads) != 1 or th.reads[0][0].get_id() != COL.get_id() or el.t.get_id() != at(COL, th.reads[0][1]).get_id():
                raise OutOfSubset('the new column is not built from one read value[i] of the old column')
            qf = instances(ex.facts + s2.pc, [p, pi(p), pinv(p)])
            ctx.post('dictable.sort.each_column_is_permuted_by_the_sorting_permutation', qf, And(NC.n == N, th.reads[0][1] == pi(p)),
                     witness=dict(wt, P=p), replay=rp('dictable.sort'))
            ctx.post('dictable.sort.the_sorting_permutation_is_a_bijection_of_the_rows', qf,
                     And(0 <= pi(p), pi(p) < N, pinv(pi(p)) == p, 0 <= pinv(p), pinv(p) < N, pi(pinv(p)) == p), witness=dict(wt, P=p),
                     replay=rp('dictable.sort'))
            # (2) rows are ordered by key under cmp and ties keep their original order: lexicographic cmp of the (key, row number) pairs
            Pp, Qq = at(R, p), at(R, q)
            rel_PQ, _, ex1, w1, _ = run_cmp(ctx, mach, Pp, Qq, 'dictable.sort.cmp_of_pairs')
            rel_ij, _, ex2, w2, _ = run_cmp(ctx, mach, at(Pp, 1), at(Qq, 1), 'dictable.sort.cmp_of_row_numbers')
            ctx.trusted |= ex1.trusted | ex2.trusted
            defs = [rel_PQ(CMP(Pp, Qq)), rel_ij(CMP(at(Pp, 1), at(Qq, 1))), depth(Pp) <= D, depth(Qq) <= D]
            kp, kq = at(K, pi(p)), at(K, pi(q))
            ctx.post('dictable.sort.rows_ordered_by_key_and_ties_keep_original_order',
                     hy + ex1.facts + ex2.facts + defs + [0 <= p, p < q, q < N, And(CMP(kp, kq) >= -1, CMP(kp, kq) <= 1)],
                     And(CMP(kp, kq) <= 0, Implies(CMP(kp, kq) == 0, pi(p) < pi(q))), witness=dict(wt, P=p, Q=q), replay=rp('dictable.sort'))
            ctx.cover('dictable.sort.tie_between_two_rows_reachable', hy + ex1.facts + ex2.facts + defs + [0 <= p, p < q, q < N, N == 2, CMP(kp, kq) == 0,
                                                                                                       is_nan(at(K, 0)), is_nan(at(K, 1)), at(K, 0) != at(K, 1)])
        ctx.post('dictable.sort.never_raises', ex.facts + hy0, Not(Or(*bad)) if bad else BoolVal(True), kind='safety', witness=wt, replay=rp('dictable.sort'))
        if main != 1:
            raise OutOfSubset('dictable.sort: expected one path through sort(), found %d' % main)
        ctx.cover('dictable.sort.pre_satisfiable', hy0 + [N == 3, ln(BY) == 2, tag(at(K, 0)) == TUPLE_T, ln(at(K, 0)) == 2, is_nan(at(at(K, 0), 0)),
                                                         at(K, 0) != at(K, 1)])
        ctx.trust('definition:CMP(a,b) is the value cmp(a,b) returns (instances of the body summary for the (key, row number) pairs and for two row numbers)')
        ctx.trust('dictable.sort precondition:the keys of the rows are pairwise shape-compatible values of sort\'s universe (scalars, or equal-length '
                  'tuples / lists of them); fewer than 2**53 rows')

        # idempotence, on the characterisation just proved: sorting an already stably sorted key column leaves every row in place
        SG = Function('sigma', IntSort(), IntSort()); SGI = Function('sigma_inv', IntSort(), IntSort())
        KK = Function('sorted_key', IntSort(), IntSort())
        a, b = Ints('a!idem b!idem')
        inr = lambda t: And(0 <= t, t < N)
        le = lambda u, v: CMP(KK(u), KK(v)) <= 0
        sorted_keys = ForAll([a, b], Implies(And(inr(a), inr(b), a < b), le(a, b)))                          # the table is already sorted
        bij = [ForAll([a], Implies(inr(a), And(inr(SG(a)), SGI(SG(a)) == a))), ForAll([a], Implies(inr(a), And(inr(SGI(a)), SG(SGI(a)) == a)))]
        stable = ForAll([a, b], Implies(And(inr(a), inr(b), a < b), And(le(SG(a), SG(b)), Implies(CMP(KK(SG(a)), KK(SG(b))) == 0, SG(a) < SG(b)))))
        anti = ForAll([a, b], Implies(And(inr(a), inr(b)), CMP(KK(a), KK(b)) == -CMP(KK(b), KK(a))))       # cmp.antisymmetric on the keys
        hyI = [N >= 0, sorted_keys, stable, anti] + bij
        ctx.post('dictable.sort.idempotent.permutation_of_sorted_rows_is_increasing', hyI + [inr(p), inr(q), p < q], SG(p) < SG(q), kind='lemma')
        inc = ForAll([a, b], Implies(And(inr(a), inr(b), a < b), SG(a) < SG(b)))
        inci = ForAll([a, b], Implies(And(inr(a), inr(b), a < b), SGI(a) < SGI(b)))
        ctx.post('dictable.sort.idempotent.inverse_is_increasing', [N >= 0, inc] + bij + [inr(p), inr(q), p < q], SGI(p) < SGI(q), kind='lemma')
        for nm, f, mono in (('permutation', SG, inc), ('inverse', SGI, inci)):
            ctx.post('dictable.sort.idempotent.%s_at_least_identity.base' % nm, [N >= 1, mono] + bij, f(0) >= 0, kind='lemma')
            ctx.post('dictable.sort.idempotent.%s_at_least_identity.step' % nm, [mono] + bij + [inr(p), inr(p + 1), f(p) >= p], f(p + 1) >= p + 1, kind='lemma')
        ge = lambda f: ForAll([a], Implies(inr(a), f(a) >= a))
        ctx.post('dictable.sort.idempotent.sorting_a_sorted_table_moves_no_row', [N >= 0, ge(SG), ge(SGI)] + bij + [inr(p)], SG(p) == p, kind='lemma')
        ctx.trust('induction schema over the integers (base and step of `an increasing map of [0,N) into itself is >= identity` are separate obligations)')
    ctx.guarded('dictable.sort', table_section)
    ctx.default_meta = base_meta

    ctx.trust('induction schema over the nesting depth (finite, acyclic nesting): the step is discharged with the hypothesis instantiated at '
              'the witness indices of cmparr; the base case D = 0 is the same obligations on scalars')
    ctx.trust('universe:handles model object identity; None / True / False are singletons; strings enter only through an order-embedding')
    ctx.guarded('dictable.sort.byval', lambda: byval_section(ctx))

def rp(kind):
    def mk(model):
        d = dict(kind=kind)
        d.update(model)
        return d
    return mk


# ------------------------------------------------------------------------------------------------ dictable.sort(**byval): the rank expression
def byval_section(ctx):
    """`dicts = {k: dict(zip(vals, range(len(vals)))) ...}` and `keys = [[d.get(row[k], len(d)) for k, d in dicts.items()] for row in self]`:
    a listed value is ranked by its position in the given order, an unlisted one by the number of listed values, i.e. after all of them."""
    import ast as _ast
    from z3 import Function, IntSort, BoolSort, Int, If, And, Implies, BoolVal, DeclareSort, Const
    from pyvc.front import walk_no_defs, SelectorError
    from pyvc.symex import Exec, State
    from pyvc.sv import SV, I
    m = ctx.mod('_dictable')
    fdef = m.func('dictable.sort')
    gets = [c for c in walk_no_defs(fdef) if isinstance(c, _ast.Call) and isinstance(c.func, _ast.Attribute) and c.func.attr == 'get' and len(c.args) == 2]
    zips = [c for c in walk_no_defs(fdef) if isinstance(c, _ast.Call) and _ast.unparse(c.func) == 'dict' and c.args and _ast.unparse(c.args[0]).startswith('zip(')]
    if len(gets) != 1 or len(zips) != 1:
        raise SelectorError('dictable.sort: expected one dict(zip(vals, range(len(vals)))) and one d.get(row[k], len(d))')
    CellS = DeclareSort('Cell')
    LISTED = Function('listed', CellS, BoolSort())
    POS = Function('position_in_order', CellS, IntSort())
    NV = Int('NVALS')

    class Rank:
        def call(self, ex, st, e, fname, args, kwargs):
            if fname == 'len' and len(args) == 1 and args[0].kind == 'tablerows':
                return I(Int('NROWS'))
            if fname == 'len' and len(args) == 1 and args[0].kind in ('orderlist', 'rankdict'):
                ex.use('model:an explicit value order is a list of NVALS distinct values; dict(zip(vals, range(len(vals)))) has NVALS keys')
                return I(NV)
            if fname == 'zip' and len(args) == 2 and args[0].kind == 'orderlist' and args[1].kind == 'range':
                ex.oblige(st, 'byval.positions_start_at_0_and_count_the_values', And(args[1].lo == 0, args[1].step == 1, args[1].n == NV), kind='post')
                return SV('zippedorder')
            if fname == 'dict' and len(args) == 1 and args[0].kind == 'zippedorder':
                ex.use('axiom:dict(zip(vals, range(len(vals)))) maps each listed value to its position')
                return SV('rankdict')
            return NotImplemented

        def method(self, ex, st, e, recv, mname, args, kwargs):
            if recv.kind == 'rankdict' and mname == 'get' and len(args) == 2 and args[0].kind == 'cell' and args[1].kind == 'int':
                return I(If(LISTED(args[0].t), POS(args[0].t), args[1].t))
            return NotImplemented

        def subscript(self, ex, st, e, recv, idx):
            if recv.kind == 'rowobj':
                return SV('cell', Const('CELL', CellS))
            return NotImplemented

    th = [Rank()]
    # 1. the rank dictionary
    ex = Exec(m, th, name='dictable.sort.byval')
    st = State(env={'vals': SV('orderlist')})
    st.pc += [NV >= 0]
    d = ex.eval(st, zips[0])
    # 2. the rank of a cell
    g = gets[0]
    dname = _ast.unparse(g.func.value)
    st2 = State(env={dname: d, 'row': SV('rowobj'), 'k': SV('colname'), 'self': SV('tablerows')})
    st2.pc += [NV >= 0]
    # names the rank expression reads that are bound earlier in the function (e.g. a hoisted default) are evaluated from their assignment
    for nm in [n.id for n in _ast.walk(g) if isinstance(n, _ast.Name) and n.id not in st2.env]:
        defs = [a for a in walk_no_defs(fdef) if isinstance(a, _ast.Assign) and len(a.targets) == 1 and isinstance(a.targets[0], _ast.Name) and a.targets[0].id == nm]
        if len(defs) == 1:
            st2.env[nm] = ex.eval(st2, defs[0].value)
    r = ex.eval(st2, g)
    ctx.absorb(ex)
    c = Const('CELL', CellS)
    hy = [NV >= 0, Implies(LISTED(c), And(0 <= POS(c), POS(c) < NV))]
    ctx.post('dictable.sort.byval.listed_value_ranked_by_its_position', hy + [LISTED(c)], r.t == POS(c))
    ctx.post('dictable.sort.byval.unlisted_value_ranked_after_every_listed_one', hy + [z3.Not(LISTED(c))], And(r.t == NV, r.t > NV - 1))
    ctx.trust('dictable.sort(**byval): only the rank expression is symbolically executed; that rows are then ordered by these ranks is the by-key path proved above')
