"""C08 - timeseries operators equal the pointwise operation on aligned operands.

What the pointwise operation on aligned pandas objects computes is pandas' and presync's business (bounded stand-in rac/C08.py).  Under
deductive contract is the pure-Python logic of the wrappers, with every pandas / numpy operation an uninterpreted function of its operands
(pyvc/th_pandas.py) and every presync kernel / public wrapper *called* taken by contract `R.<name>(arguments bound by the real signature)`:

  reducer                  left fold: default for an empty sequence, the single element, otherwise reduce(f, seq[1:], seq[0]) = FOLD over the
                           whole sequence from the left (instances for 2 and 3 elements spelled out)
  add_ / mul_              hand reducer the list as_list(a) + as_list(b), no default, and a function that applied to any (x, y) is the kernel
                           _add_ / _mul_ called with exactly the caller's join, method, columns
  sub_ / div_              pre-reduce list operands with add_ / mul_ and call the kernel, every nested call receiving exactly the caller's
                           join, method, columns
  pow_ gt_ ge_ lt_ le_     forward (a, b, join, method, columns) to their kernel
  _add_ _sub_ _mul_ _pow_ _gt_ _ge_ _lt_ _le_   (kernel bodies) apply exactly their operator to (a, b)
  _div_                    scalar divisor: a / (NaN if b == 0 else b) - NaN of the operand's shape for a zero divisor; otherwise the zeros of
                           a *copy* of the divisor are replaced by NaN before dividing
  min_ / max_              sync the list as_list(a) + as_list(b) with the caller's policies and fold _minimum / _maximum over it
  _mask / mask2v           NaN mask via np.isnan, value mask via ==, list of values via the maximum of the masks; masked cells replaced on a copy
  df_count df_sum df_mean df_std   sync with the caller's policies, mask by exc, sum the masked operands, count the unmasked ones; the zero-count
                           guard writes NaN (scalar and array paths) - never a finite value
Assumed: as_list, presync dispatch (join / method / columns are popped from the keywords, falling back to the decorator's defaults),
functools.reduce = left fold.  Bounded only: everything pandas / presync compute (alignment, neutral elements, pointwise values).
"""
import ast
import z3
from z3 import And, Or, Not, If, Implies, Int, IntVal, BoolVal, Const, Select, Lambda

from pyvc.front import SelectorError, OutOfSubset
from pyvc.symex import Exec, State
from pyvc.theories import TypePreds, ConcreteStr
from pyvc.sv import SV, I, B, S, T, NONE
from pyvc import th_pandas as tp
from pyvc.th_pandas import (Pandas, PV, PArr, NONEPV, P, F, M, A, R, OP, UN, CMP, GETITEM, SETITEM, TRUTH, LEN, ITEM, ISA, isa, MKLIST, INTV, FLOAT,
                            GLOBAL, FOLD, CALLV, base_facts, fresh_plist, run_def, as_list_of, seq_of, mapped, concat, fold_unroll, at as lat)

PROP = 'C08'
REPLAY_MODULE = 'rac.C08_ded'
NAN = GLOBAL('np.nan')

KERNEL_OPS = {'_sub_': ('op', 'Sub'), '_add_': ('op', 'Add'), '_mul_': ('op', 'Mult'), '_pow_': ('op', 'Pow'), '_gt_': ('cmp', 'Gt'), '_ge_': ('cmp', 'GtE'),
              '_lt_': ('cmp', 'Lt'), '_le_': ('cmp', 'LtE')}
FORWARDERS = {'pow_': '_pow_', 'gt_': '_gt_', 'ge_': '_ge_', 'lt_': '_lt_', 'le_': '_le_'}


def build(ctx):
    m = ctx.mod('_pandas')
    # replays are fixed native batteries per obligation family (the counterexamples are interpretations of uninterpreted pandas operations)
    ctx.default_meta = dict(replay_without_model=True)
    mr = ctx.mod('_reducer')
    Av, Bv, J, Mth, C, EXC = [Const(n, PV) for n in ('A', 'B', 'JOIN', 'METHOD', 'COLUMNS', 'EXC')]
    bf = base_facts

    def theories(**kw):
        th = Pandas(m, extra_mods=[mr], **kw)
        return th, [th, ConcreteStr(m), TypePreds()]

    def returns(label, outs, ex, want, rp, extra=(), raises_ok=None):
        """every returning path returns the specification term; raising paths are failures unless raises_ok(cond hyps) says otherwise"""
        n = 0
        for o in outs:
            hy = ex.facts + bf() + list(extra) + o.st.pc
            if o.kind == 'raise':
                if raises_ok is not None:
                    raises_ok(o, hy)
                else:
                    ctx.post(label + '.never_raises', hy, BoolVal(False), kind='safety', replay=rp, witness=dict(path=IntVal(n)))
                continue
            n += 1
            if not tp.Pandas.convertible(None, o.val) or o.val.kind == 'func':
                ctx.post(label + '.returns_a_value', hy, BoolVal(False), replay=rp, witness=dict(path=IntVal(n)))
                continue
            yield o, hy
        if n == 0:
            raise OutOfSubset('%s has no returning path' % label)

    # =========================================================================================== reducer
    def reducer_section():
        fdef = mr.func('reducer')
        FN, DFLT = Const('FUNCTION', PV), Const('DEFAULT', PV)
        N = Int('N')
        seq = fresh_plist('SEQ', n=N)
        th, ths = theories()
        ex = Exec(mr, ths, name='reducer')
        st = State(); st.pc += [N >= 0]
        outs = run_def(ex, st, fdef, [P(FN), seq, P(DFLT)])
        ctx.absorb(ex); ctx.record_function(mr, 'reducer', fdef, ex.stmts_executed)
        rp = replay_of('reducer')
        j = Int('j!tail')
        tail = Lambda([j], Select(seq.arr, j + 1))
        s0 = lat(seq, 0)
        for o, hy in returns('reducer', outs, ex, None, rp):
            r = tp.sv_pv(o.val)
            w = dict(n=N)
            ctx.post('reducer.empty_sequence_gives_the_default', hy + [N == 0], r == DFLT, witness=w, replay=rp)
            ctx.post('reducer.single_element_is_returned_as_is', hy + [N == 1], r == s0, witness=w, replay=rp)
            ctx.post('reducer.otherwise_the_left_fold_of_the_whole_sequence', hy + [N >= 2], r == FOLD(FN, N - 1, tail, s0), witness=w, replay=rp)
            ctx.post('reducer.two_elements_are_f_of_first_and_second', hy + [N == 2] + fold_unroll(FN, 1, tail, s0), r == CALLV(FN, s0, lat(seq, 1)), witness=w, replay=rp)
            ctx.post('reducer.three_elements_associate_to_the_left', hy + [N == 3] + fold_unroll(FN, 2, tail, s0),
                     r == CALLV(FN, CALLV(FN, s0, lat(seq, 1)), lat(seq, 2)), witness=w, replay=rp)
        ctx.cover('reducer.long_sequence_reachable', [N == 5])
    ctx.guarded('reducer', reducer_section)

    # =========================================================================================== kernels: the operator applied
    def kernel_section():
        for name, (kind, op) in KERNEL_OPS.items():
            fdef = m.func(name)
            th, ths = theories()
            ex = Exec(m, ths, name=name)
            outs = run_def(ex, State(), fdef, [P(Av), P(Bv)])
            ctx.absorb(ex); ctx.record_function(m, name, fdef, ex.stmts_executed, excluded=['presync decoration (alignment before the kernel runs): bounded only'])
            want = OP(op, Av, Bv) if kind == 'op' else CMP(op, Av, Bv)
            rp = replay_of('kernel', name=name)
            for o, hy in returns(name, outs, ex, want, rp):
                ctx.post('%s.applies_exactly_its_operator_to_a_and_b' % name, hy, tp.sv_pv(o.val) == want, replay=rp, witness=dict(k=IntVal(0)))
        # _div_
        fdef = m.func('_div_')
        th, ths = theories()
        ex = Exec(m, ths, name='_div_')
        outs = run_def(ex, State(), fdef, [P(Av), P(Bv)])
        ctx.absorb(ex); ctx.record_function(m, '_div_', fdef, ex.stmts_executed, excluded=['presync decoration: bounded only'])
        isnum = TRUTH(F('is_num', Bv))
        iszero = TRUTH(CMP('Eq', Bv, 0))
        cp = M('copy', Bv)
        rp = replay_of('div')
        for o, hy in returns('_div_', outs, ex, None, rp):
            r = tp.sv_pv(o.val)
            ctx.post('_div_.zero_scalar_divisor_yields_nan_of_the_operands_shape', hy + [isnum, iszero], r == OP('Div', Av, NAN), replay=rp, witness=dict(k=IntVal(0)))
            ctx.post('_div_.nonzero_scalar_divisor_divides', hy + [isnum, Not(iszero)], r == OP('Div', Av, Bv), replay=rp, witness=dict(k=IntVal(0)))
            ctx.post('_div_.zeros_of_a_copy_of_the_divisor_become_nan_before_dividing', hy + [Not(isnum)],
                     r == OP('Div', Av, SETITEM(cp, CMP('Eq', cp, 0), NAN)), replay=rp, witness=dict(k=IntVal(0)))
        ctx.cover('_div_.zero_scalar_reachable', bf() + [isnum, iszero])
    ctx.guarded('kernels', kernel_section)

    # =========================================================================================== add_ / mul_
    def fold_wrapper(name, kernel):
        fdef = m.func(name)
        th, ths = theories()
        ex = Exec(m, ths, name=name)
        outs = run_def(ex, State(), fdef, [P(Av), P(Bv), P(J), P(Mth), P(C)])
        ctx.absorb(ex); ctx.record_function(m, name, fdef, ex.stmts_executed)
        la, lb = as_list_of(Av), as_list_of(Bv)
        q = Int('Q')
        X, Y = Const('X', PV), Const('Y', PV)
        rp = replay_of('wrapper', name=name)
        for o, hy in returns(name, outs, ex, None, rp):
            evs = [e for e in th.calls('reducer') if e['res'] is o.val]
            ctx.post('%s.returns_the_reduction' % name, hy, BoolVal(len(evs) == 1), replay=rp, witness=dict(k=IntVal(0)))
            if len(evs) != 1:
                continue
            a = evs[0]['args']
            seq, fn, dflt = a['sequence'], a['function'], a['default']
            if seq.kind not in ('plist', 'lazylist'):
                ctx.post('%s.reduces_a_list' % name, hy, BoolVal(False), replay=rp, witness=dict(k=IntVal(0)))
                continue
            seq = th.as_plist(ex, o.st, seq)
            ctx.post('%s.reduces_as_list_a_followed_by_as_list_b' % name, hy + [0 <= q, q < la.n + lb.n],
                     And(seq.n == la.n + lb.n, lat(seq, q) == If(q < la.n, lat(la, q), lat(lb, q - la.n))), replay=rp, witness=dict(q=q))
            ctx.post('%s.no_default_for_the_reduction' % name, hy, BoolVal(dflt.kind == 'none'), replay=rp, witness=dict(k=IntVal(0)))
            if fn.kind != 'func':
                ctx.post('%s.folds_a_function' % name, hy, BoolVal(False), replay=rp, witness=dict(k=IntVal(0)))
                continue
            s2 = o.st.fork(); s2.pending = []
            v = ex.call_func(s2, fn, [P(X), P(Y)], {})
            ctx.absorb(ex)
            for pend in s2.pending:
                ctx.post('%s.folded_function_never_raises' % name, ex.facts + bf() + pend.st.pc, BoolVal(False), kind='safety', replay=rp, witness=dict(k=IntVal(0)))
            ctx.post('%s.folds_the_kernel_with_exactly_the_callers_join_method_columns' % name, ex.facts + bf() + s2.pc,
                     tp.sv_pv(v) == R(kernel, X, Y, J, Mth, C) if tp.Pandas.convertible(None, v) else BoolVal(False), replay=rp, witness=dict(k=IntVal(0)))
    ctx.guarded('add_', lambda: fold_wrapper('add_', '_add_'))
    ctx.guarded('mul_', lambda: fold_wrapper('mul_', '_mul_'))

    # =========================================================================================== sub_ / div_ / forwarders
    def prereduce_wrapper(name, kernel, reducer_name):
        fdef = m.func(name)
        th, ths = theories()
        ex = Exec(m, ths, name=name)
        outs = run_def(ex, State(), fdef, [P(Av), P(Bv), P(J), P(Mth), P(C)])
        ctx.absorb(ex); ctx.record_function(m, name, fdef, ex.stmts_executed)
        red = lambda x: If(isa(x, 'list'), R(reducer_name, x, None, J, Mth, C), x)
        want = R(kernel, red(Av), red(Bv), J, Mth, C)
        rp = replay_of('wrapper', name=name)
        for o, hy in returns(name, outs, ex, want, rp):
            ctx.post('%s.list_operands_pre_reduced_and_every_nested_call_gets_exactly_the_callers_join_method_columns' % name, hy, tp.sv_pv(o.val) == want,
                     replay=rp, witness=dict(k=IntVal(0)))
        ctx.cover('%s.list_on_the_right_reachable' % name, bf() + [isa(Bv, 'list'), Not(isa(Av, 'list'))])
    ctx.guarded('sub_', lambda: prereduce_wrapper('sub_', '_sub_', 'add_'))
    ctx.guarded('div_', lambda: prereduce_wrapper('div_', '_div_', 'mul_'))

    def forwarders():
        for name, kernel in FORWARDERS.items():
            fdef = m.func(name)
            th, ths = theories()
            ex = Exec(m, ths, name=name)
            outs = run_def(ex, State(), fdef, [P(Av), P(Bv), P(J), P(Mth), P(C)])
            ctx.absorb(ex); ctx.record_function(m, name, fdef, ex.stmts_executed)
            want = R(kernel, Av, Bv, J, Mth, C)
            rp = replay_of('wrapper', name=name)
            for o, hy in returns(name, outs, ex, want, rp):
                ctx.post('%s.forwards_operands_and_exactly_the_callers_join_method_columns_to_its_kernel' % name, hy, tp.sv_pv(o.val) == want, replay=rp, witness=dict(k=IntVal(0)))
    ctx.guarded('forwarders', forwarders)

    # =========================================================================================== min_ / max_
    def synced(lst):
        return R('df_sync', tp.sv_pv(lst), J, Mth, C)

    def minmax(name, kernel):
        fdef = m.func(name)
        th, ths = theories()
        ex = Exec(m, ths, name=name)
        outs = run_def(ex, State(), fdef, [P(Av), P(Bv), P(J), P(Mth), P(C)])
        ctx.absorb(ex); ctx.record_function(m, name, fdef, ex.stmts_executed)
        want = R('reducer', Const('fn.' + kernel, PV), synced(concat(as_list_of(Av), as_list_of(Bv))), None)
        rp = replay_of('wrapper', name=name)
        for o, hy in returns(name, outs, ex, want, rp):
            ctx.post('%s.folds_%s_over_the_operands_synced_with_the_callers_policies' % (name, kernel), hy, tp.sv_pv(o.val) == want, replay=rp, witness=dict(k=IntVal(0)))
    ctx.guarded('min_', lambda: minmax('min_', '_minimum'))
    ctx.guarded('max_', lambda: minmax('max_', '_maximum'))

    # =========================================================================================== _mask / mask2v
    DFv, VAL, MASK = Const('DF', PV), Const('VALUE', PV), Const('MASK', PV)

    def mask_section():
        fdef = m.func('_mask')
        th, ths = theories()
        ex = Exec(m, ths, name='_mask')
        outs = run_def(ex, State(), fdef, [P(DFv), P(VAL)])
        ctx.absorb(ex); ctx.record_function(m, '_mask', fdef, ex.stmts_executed)
        isnum, isnan, islist = TRUTH(F('is_num', VAL)), TRUTH(F('np.isnan', VAL)), isa(VAL, 'list')
        per_value = mapped(seq_of(VAL), lambda v: R('_mask', DFv, v))
        rp = replay_of('mask')
        w = dict(k=IntVal(0))

        def raises_ok(o, hy):
            ctx.post('_mask.raises_only_ValueError_for_an_unusable_value', hy, And(BoolVal(o.val == 'ValueError'), Not(isnum), Not(islist)), kind='safety', replay=rp, witness=w)
        for o, hy in returns('_mask', outs, ex, None, rp, raises_ok=raises_ok):
            r = tp.sv_pv(o.val)
            ctx.post('_mask.nan_value_masks_by_isnan', hy + [isnum, isnan], r == F('np.isnan', DFv), replay=rp, witness=w)
            ctx.post('_mask.other_number_masks_by_equality', hy + [isnum, Not(isnan)], r == CMP('Eq', DFv, VAL), replay=rp, witness=w)
            ctx.post('_mask.list_of_values_is_the_maximum_of_the_masks', hy + [Not(isnum), islist],
                     r == R('reducer', GLOBAL('np.maximum'), tp.sv_pv(per_value), None), replay=rp, witness=w)
            ctx.post('_mask.returns_only_for_a_number_or_a_list', hy, Or(isnum, islist), replay=rp, witness=w)
        fdef = m.func('mask2v')
        th, ths = theories()
        ex = Exec(m, ths, name='mask2v')
        outs = run_def(ex, State(), fdef, [P(DFv), P(MASK), P(VAL)])
        ctx.absorb(ex); ctx.record_function(m, 'mask2v', fdef, ex.stmts_executed)
        isnum_df = TRUTH(F('is_num', DFv))
        m_scalar = If(TRUTH(F('is_bool', MASK)), MASK, R('_mask', DFv, MASK))
        m_arr = If(TRUTH(F('is_pd', MASK)), MASK, R('_mask', DFv, MASK))
        for o, hy in returns('mask2v', outs, ex, None, rp):
            r = tp.sv_pv(o.val)
            ctx.post('mask2v.scalar_is_replaced_iff_masked', hy + [isnum_df], r == If(TRUTH(m_scalar), VAL, DFv), replay=rp, witness=w)
            ctx.post('mask2v.masked_cells_of_a_copy_are_replaced', hy + [Not(isnum_df)], r == SETITEM(M('copy', DFv), m_arr, VAL), replay=rp, witness=w)
    ctx.guarded('_mask', mask_section)

    # =========================================================================================== df_count / df_sum / df_mean / df_std
    def aggregates():
        dfs = seq_of(synced(concat(as_list_of(Av), as_list_of(Bv))))
        masks = mapped(dfs, lambda d: R('_mask', d, EXC))
        clean = mapped(dfs, lambda d: R('mask2v', d, R('_mask', d, EXC), FLOAT(0.0)))
        total = F('sum', tp.sv_pv(clean))
        cnt = F('sum', tp.sv_pv(mapped(masks, lambda k: UN('Invert', k))))
        m2 = F('sum', tp.sv_pv(mapped(clean, lambda d: OP('Pow', d, 2))))
        isnum = TRUTH(F('is_num', cnt))
        zero = CMP('Eq', cnt, 0)
        std = lambda n: OP('Pow', OP('Sub', OP('Div', m2, n), OP('Pow', OP('Div', total, n), 2)), FLOAT(0.5))
        specs = {
            'df_count': [('counts_the_unmasked_operands_after_syncing_with_the_callers_policies', [], cnt)],
            'df_sum': [('scalar_count_zero_gives_nan_else_the_masked_sum', [isnum], If(TRUTH(zero), NAN, total)),
                       ('cells_without_data_are_set_to_nan_in_the_masked_sum', [Not(isnum)], SETITEM(total, zero, NAN))],
            'df_mean': [('scalar_count_zero_gives_nan_else_sum_over_count', [isnum], If(TRUTH(zero), NAN, OP('Div', total, cnt))),
                        ('zero_counts_become_nan_before_dividing', [Not(isnum)], OP('Div', total, SETITEM(cnt, zero, NAN)))],
            'df_std': [('scalar_count_below_two_gives_nan', [isnum], If(TRUTH(CMP('Lt', cnt, 2)), NAN, std(cnt))),
                       ('counts_below_two_become_nan_before_dividing', [Not(isnum)], std(SETITEM(cnt, CMP('Lt', cnt, 2), NAN)))],
        }
        for name, clauses in specs.items():
            fdef = m.func(name)
            th, ths = theories()
            ex = Exec(m, ths, name=name)
            outs = run_def(ex, State(), fdef, [P(Av), P(Bv), P(J), P(Mth), P(C), P(EXC)])
            ctx.absorb(ex); ctx.record_function(m, name, fdef, ex.stmts_executed)
            rp = replay_of('aggregate', name=name)
            for o, hy in returns(name, outs, ex, None, rp):
                for cname, extra, want in clauses:
                    ctx.post('%s.%s' % (name, cname), hy + extra, tp.sv_pv(o.val) == want, replay=rp, witness=dict(k=IntVal(0)))
        ctx.cover('aggregates.array_path_reachable', bf() + [Not(TRUTH(F('is_num', Const('COUNT', PV))))])
    ctx.guarded('aggregates', aggregates)

    ctx.trust('pandas / presync semantics (alignment on the join policy, neutral element for outer-joined columns, pointwise arithmetic, NaN propagation) are '
              'uninterpreted here and decided by the bounded stand-in rac/C08.py only')
    ctx.trust('presync dispatch: a kernel called with join / method / columns keywords syncs with exactly those (presync.wrapped pops them), assumed')


def replay_of(kind, **kw):
    def mk(model):
        return dict(kind=kind, **kw)
    return mk
