"""C02 - join is the relational inner join and xor the anti-join; both terminate.

Functions under contract (real source, re-read on every run):
  dictable._listby      whole body: sort + run-length grouping loop (For#0)
  dictable.join         the group-merge region: from `lxs, lids = self._listby(lcols)` to the end of While#0 (with its two inner loops)
  dictable.xor          the merge region: from the two _listby calls to the tail `res.extend(...)`, for mode 0 and mode 1
Callee contracts used (modular): `sort` (C07: returns a permutation that is non-decreasing under cmp - here on (key, row index)
pairs, so ties are ordered by row index), `cmp` (C07: total preorder with values in {-1,0,1}), `dictable.__getitem__` for a tuple of
key columns / key functions (C01: the list of the rows' key tuples), `dictable.__getitem__` for a list of row indices at the end of xor (C01
__getitem__.ints.* / constructor.rows.*: those rows, in that order - regenerated in this property's check, checks/depends.py), `_listby` at its call
sites in join / xor (proved here on its body).
Not proved here (bounded stand-in rac/C02.py): the prelude of join/xor (column spelling, as_tuple, set algebra on column names), the
cross-product expansion of matched groups into rows and the `mode` handling of same-named columns, the empty-table phantom group.
"""
import ast
import z3
from z3 import And, Or, Not, If, Implies, Int, Ints, IntVal, BoolVal, ForAll, Exists, Array, IntSort, BoolSort, ArraySort, Store, Select, Const

from pyvc.front import select, SelectorError, OutOfSubset, find_all, walk_no_defs
from pyvc.symex import Exec, State, LoopSpec
from pyvc.theories import TypePreds
from pyvc.th_lists import (Lists, Val, NONEV, cmpf, cmp_laws, V, INT, VAL, LIST, TUP, fresh_list, at, as_list_sv, sorts)
from pyvc.sv import SV, I, B, S, T, NONE, fresh_int, fresh_name

PROP = 'C02'
PRUNE = False      # path conditions carry quantified invariants: feasibility probes cost more than the extra (trivially discharged) paths
REPLAY_MODULE = 'rac.C02_ded'

IA = lambda name: Array(name, IntSort(), IntSort())


# ------------------------------------------------------------------------------------------------- table / sort contracts
class Table:
    """the receiver of _listby / join / xor: a dictable whose key projection is an abstract list of opaque key values"""

    def __init__(self):
        self.keys = {}      # table name -> list SV of keys
        self.groups = {}    # table name -> (xs, ids) as promised by _listby's contract

    def table(self, name):
        return SV('obj', None, cls='dictable', name=name)

    def key_list(self, name):
        if name not in self.keys:
            self.keys[name] = fresh_list(VAL, 'keys_' + name)
        return self.keys[name]

    def subscript(self, ex, st, e, recv, idx):
        if recv.kind == 'obj' and recv.f.get('cls') == 'dictable' and idx.kind in ('tuple', 'colspec'):
            ex.use('assumed contract:dictable.__getitem__(tuple of key columns / key functions) is the list of the rows\' key tuples, one per row (C01: proved for tuples of 1..3 '
                   'column names, __getitem__.tuple*; assumed for key functions)')
            ks = self.key_list(recv.name)
            ex.fact(ks.t >= 0)
            return ks
        return NotImplemented

    def call(self, ex, st, e, fname, args, kwargs):
        if fname == 'len' and len(args) == 1 and args[0].kind == 'obj' and args[0].f.get('cls') == 'dictable':
            ks = self.key_list(args[0].name)
            ex.fact(ks.t >= 0)
            return I(ks.t)
        if fname == 'sort' and len(args) == 1 and args[0].kind == 'list' and args[0].f.get('ety') == TUP(VAL, INT):
            return sort_contract(ex, st, args[0])
        return NotImplemented

    def method(self, ex, st, e, recv, mname, args, kwargs):
        if recv.kind == 'obj' and recv.f.get('cls') == 'dictable' and mname == '_listby' and self.by_contract:
            return listby_contract(ex, st, self, recv.name)
        return NotImplemented

    by_contract = False


def sorted_pairs(n, sk, si):
    p, q = Ints('p!srt q!srt')
    return ForAll([p, q], Implies(And(0 <= p, p < q, q < n),
                                  Or(cmpf(sk[p], sk[q]) < 0, And(cmpf(sk[p], sk[q]) == 0, si[p] < si[q]))))


def sort_contract(ex, st, pairs):
    """callee contract of sort() on a list of (key, row index) pairs whose second components are 0..n-1 (C07):
    the result is a permutation of the input, non-decreasing under cmp on pairs (ties on the key ordered by row index)"""
    ex.use('assumed contract:sort(list of (key, i)) returns a permutation that is non-decreasing under cmp on pairs (property C07)')
    n = pairs.t
    ik, ii = pairs.arrs            # input keys / indices
    out = fresh_list(TUP(VAL, INT), 'sorted', n=n)
    sk, si = out.arrs
    inv = IA(fresh_name('perm_inv'))
    p = Int('p!perm')
    ex.fact(sorted_pairs(n, sk, si))
    ex.fact(ForAll([p], Implies(And(0 <= p, p < n), And(0 <= si[p], si[p] < n, inv[si[p]] == p, sk[p] == ik[si[p]]))))
    ex.fact(ForAll([p], Implies(And(0 <= p, p < n), And(0 <= inv[p], inv[p] < n, si[inv[p]] == p))))
    st.ghost['sorted'] = out
    st.ghost['perm_inv'] = inv
    return out


def start_of(END, g):
    return If(g <= 0, IntVal(0), END[g - 1])


def listby_post(n, sk, si, xs, ids, END):
    """_listby's postcondition over the sorted pairs (sk, si): groups tile 0..n, keys strictly increasing, members listed"""
    G = xs.t
    keys, = xs.arrs
    rlen, rows = ids.arrs
    g, h, j, p = Ints('g!lb h!lb j!lb p!lb')
    return dict(
        same_number_of_keys_and_rows=ids.t == G,
        at_least_one_group=G >= 1,
        groups_tile_all_rows=And(END[G - 1] == n,
                                 ForAll([g], Implies(And(0 <= g, g < G), And(start_of(END, g) < END[g], rlen[g] == END[g] - start_of(END, g))))),
        group_key_is_a_member_key=ForAll([g], Implies(And(0 <= g, g < G), keys[g] == sk[END[g] - 1])),
        members_have_the_group_key=ForAll([g, p], Implies(And(0 <= g, g < G, start_of(END, g) <= p, p < END[g]), cmpf(sk[p], keys[g]) == 0)),
        rows_listed_in_sorted_order=ForAll([g, j], Implies(And(0 <= g, g < G, 0 <= j, j < rlen[g]), rows[g][j] == si[start_of(END, g) + j])),
        keys_strictly_increasing=ForAll([g, h], Implies(And(0 <= g, g < h, h < G), cmpf(keys[g], keys[h]) == -1)),
        rows_of_a_group_in_original_order=ForAll([g, j, p], Implies(And(0 <= g, g < G, 0 <= j, j < p, p < rlen[g]), rows[g][j] < rows[g][p])),
        ends_increase=ForAll([g, h], Implies(And(0 <= g, g < h, h < G), END[g] < END[h])),
    )


def listby_contract(ex, st, tbl, name):
    """callee contract of dictable._listby at a call site (join / xor): what the body is proved to establish"""
    ks = tbl.key_list(name)
    n = ks.t
    xs = fresh_list(VAL, 'xs_' + name)
    ids = fresh_list(LIST(INT), 'ids_' + name)
    sk = Array(fresh_name('sk_' + name), IntSort(), Val)
    si = IA(fresh_name('si_' + name))
    END = IA(fresh_name('END_' + name))
    ex.oblige(st, 'call._listby.pre.table_not_empty', n >= 1, kind='pre')
    for f in listby_post(n, sk, si, xs, ids, END).values():
        ex.fact(Implies(n >= 1, f))
    ex.fact(sorted_pairs(n, sk, si))
    tbl.groups[name] = dict(xs=xs, ids=ids, sk=sk, si=si, END=END, n=n)
    return T([xs, ids])


def laws():
    return cmp_laws()


# =============================================================== _listby body
def listby_obligations(ctx, m):
    fdef = m.func('dictable._listby')
    loop = select(fdef, 'For#0')
    app = [s for s in walk_no_defs(loop) if isinstance(s, ast.Expr) and isinstance(s.value, ast.Call)
           and ast.unparse(s.value.func).endswith('.append') and isinstance(s.value.args[0], ast.Tuple)]
    if len(app) != 1:
        raise SelectorError('_listby: expected one `res.append((key, row))` inside the loop')
    tbl = Table()
    th = [tbl, Lists(), TypePreds()]
    n_ = tbl.key_list('self').t

    def names(st):
        res, row, prev = st.env['res'], st.env['row'], st.env['prev']
        srt = st.ghost['sorted']
        return res, row, prev, srt.arrs[0], srt.arrs[1], st.ghost['END']

    def inv(st, entry):
        res, row, prev, sk, si, END = names(st)
        k = st.ghost['_listby.For0.k']
        n = st.ghost['_listby.For0.n']
        if res.f.get('ety') is None:        # entry state: res = [], row = [], prev = None
            G, rl = IntVal(0), IntVal(0)
            keys = rlen = rows = ra = None
        else:
            G, rl = res.t, row.t
            keys, rlen, rows = res.arrs
            ra = row.arrs[0] if row.f.get('arrs') else IA(fresh_name('untyped_empty_row'))     # `row = []`: an empty list without element type yet
        S = start_of(END, G)
        g, h, j, p = Ints('g!inv h!inv j!inv p!inv')
        cl = [('bounds', And(0 <= k, k <= n, G >= 0, 0 <= rl, rl <= k)),
              ('nothing_before_first_pair', Implies(k == 0, And(rl == 0, G == 0))),
              ('open_run_ends_at_k', S + rl == k)]
        if keys is None:
            return cl
        pv = prev.t if prev.kind == 'val' else NONEV
        cl += [('open_row_nonempty_and_prev_is_last_key', Implies(k > 0, And(rl >= 1, pv == sk[k - 1]))),
               ('open_row_lists_sorted_ids', ForAll([j], Implies(And(0 <= j, j < rl), ra[j] == si[S + j]))),
               ('open_run_has_one_key', ForAll([p], Implies(And(S <= p, p < k), cmpf(sk[p], sk[k - 1]) == 0))),
               ('closed_groups_shape', ForAll([g], Implies(And(0 <= g, g < G),
                                                           And(start_of(END, g) < END[g], END[g] <= S, rlen[g] == END[g] - start_of(END, g),
                                                               keys[g] == sk[END[g] - 1])))),
               ('closed_rows_list_sorted_ids', ForAll([g, j], Implies(And(0 <= g, g < G, 0 <= j, j < rlen[g]), rows[g][j] == si[start_of(END, g) + j]))),
               ('closed_members_have_group_key', ForAll([g, p], Implies(And(0 <= g, g < G, start_of(END, g) <= p, p < END[g]), cmpf(sk[p], keys[g]) == 0))),
               ('next_key_is_greater', ForAll([g], Implies(And(0 <= g, g < G), cmpf(keys[g], sk[END[g]]) == -1))),
               ('ends_increase', ForAll([g, h], Implies(And(0 <= g, g < h, h < G), END[g] < END[h])))]
        return cl

    def ghost_havoc(ex, st):
        st.ghost['END'] = IA(fresh_name('END'))

    def after_append(ex, st, s):           # ghost: the group just closed ends at the current position k
        res = st.env['res']
        st.ghost['END'] = Store(st.ghost['END'], res.t - 1, st.ghost['_listby.For0.k'])

    protos = dict(res=fresh_list(TUP(VAL, LIST(INT)), 'res'), row=fresh_list(INT, 'row'), prev=V(Const('prev!proto', Val)))
    spec = LoopSpec('_listby.For0', inv, ghost_havoc=ghost_havoc, protos=protos)
    ex = Exec(m, th, loops={id(loop): spec}, hooks=[(lambda s: s is app[0], after_append)], name='_listby', prune=PRUNE)
    st = State(env={'self': tbl.table('self'), 'by': SV('colspec')})
    st.pc += laws() + [n_ >= 1]
    st.ghost['END'] = IA('END0')
    # the final `res.append((prev, row))` after the loop closes the last group at n
    outs = ex.run_block(st, [s for s in fdef.body if not (isinstance(s, ast.Expr) and isinstance(s.value, ast.Constant))])
    ctx.absorb(ex)
    ctx.record_function(m, 'dictable._listby', fdef, ex.stmts_executed, excluded=['empty table (n == 0): phantom group ((None,), ([],)) - bounded only'])
    nret = 0
    for out in outs:
        if out.kind != 'return':
            ctx.post('_listby.never_raises.%s' % out.val, ex.facts + out.st.pc, BoolVal(False), kind='safety')
            continue
        nret += 1
        xs, ids = out.val.items
        s2 = out.st
        srt = s2.ghost['sorted']
        END = Store(s2.ghost['END'], xs.t - 1, srt.t)          # the last append happens after the loop: ghost end = n
        posts = listby_post(srt.t, srt.arrs[0], srt.arrs[1], xs, ids, END)
        for cname, goal in posts.items():
            if cname in ('keys_strictly_increasing', 'rows_of_a_group_in_original_order'):
                continue
            ctx.post('_listby.post.%s' % cname, ex.facts + s2.pc, goal)
        # rows of a group in original order, for arbitrary g and j < p: both members carry the group key, so they tie on the key and
        # the sort contract orders them by row number (hand-instantiated lemma instances keep the query small and stable)
        gg, jj, pp = Ints('g!ord j!ord p!ord')
        sk0, si0, kk0 = srt.arrs[0], srt.arrs[1], xs.arrs[0]
        rlen0, rows0 = ids.arrs
        a_, b_ = start_of(END, gg) + jj, start_of(END, gg) + pp
        x_, y_, k_ = sk0[a_], sk0[b_], kk0[gg]
        def at_(q, *args):          # instance of a universally quantified (already proved) postcondition
            return z3.substitute_vars(q.body(), *reversed([a if z3.is_expr(a) else IntVal(a) for a in args]))
        tile_q = posts['groups_tile_all_rows'].arg(1)
        inst = [at_(posts['members_have_the_group_key'], gg, a_), at_(posts['members_have_the_group_key'], gg, b_),
                at_(posts['rows_listed_in_sorted_order'], gg, jj), at_(posts['rows_listed_in_sorted_order'], gg, pp), at_(tile_q, gg),
                posts['groups_tile_all_rows'].arg(0), at_(posts['ends_increase'], gg, xs.t - 1), at_(tile_q, 0), at_(posts['ends_increase'], 0, gg - 1),
                Implies(And(0 <= a_, a_ < b_, b_ < srt.t), Or(cmpf(x_, y_) < 0, And(cmpf(x_, y_) == 0, si0[a_] < si0[b_]))),
                cmpf(k_, y_) == -cmpf(y_, k_), cmpf(x_, y_) == -cmpf(y_, x_),
                Implies(And(cmpf(x_, k_) <= 0, cmpf(k_, y_) <= 0), cmpf(x_, y_) <= 0),
                Implies(And(cmpf(y_, k_) <= 0, cmpf(k_, x_) <= 0), cmpf(y_, x_) <= 0), cmpf(k_, x_) == -cmpf(x_, k_)]
        base_h = [h for h in ex.facts + s2.pc if not z3.is_quantifier(h)]
        ctx.post('_listby.post.rows_of_a_group_in_original_order', base_h + [0 <= gg, gg < xs.t, 0 <= jj, jj < pp, pp < rlen0[gg]] + inst,
                 rows0[gg][jj] < rows0[gg][pp])
        # keys strictly increasing, for arbitrary g < h: key[g] = sk[END[g]-1] < sk[END[g]] <= sk[END[h]-1] = key[h]
        g_, h_ = Ints('g!ksi h!ksi')
        sk_, kk = srt.arrs[0], xs.arrs[0]
        hint = [posts['ends_increase'], posts['group_key_is_a_member_key'], posts['groups_tile_all_rows'],
                Implies(END[g_] < END[h_] - 1, cmpf(sk_[END[g_]], sk_[END[h_] - 1]) <= 0)]
        ctx.post('_listby.post.keys_strictly_increasing', ex.facts + s2.pc + [0 <= g_, g_ < h_, h_ < xs.t] + hint, cmpf(kk[g_], kk[h_]) == -1)
        # every row index 0..n-1 occurs in exactly one place of ids (sort returns a permutation, groups tile the sorted list)
        inv_ = s2.ghost['perm_inv']
        i = Int('i!part')
        keys, = xs.arrs
        ks = tbl.key_list('self')
        ctx.post('_listby.post.every_row_is_listed_under_its_own_key', ex.facts + s2.pc + [0 <= i, i < srt.t],
                 And(0 <= inv_[i], inv_[i] < srt.t, srt.arrs[1][inv_[i]] == i, srt.arrs[0][inv_[i]] == ks.arrs[0][i]))
    if nret == 0:
        raise OutOfSubset('_listby has no returning path')
    ctx.cover('_listby.pre_satisfiable', laws() + [n_ >= 3])




# ------------------------------------------------------------------------------------------------- expansion of matched groups into rows
def expansion_obligations(ctx, m):
    """After the merge loop every output column of join is `sum([[E(l, r) for l in lid for r in rid] for lid, rid in zip(lids, rids)], [])`.
    Row p of every column then refers to the same pair (l, r) of a matched group (same generator nest => same enumeration order), so the
    output rows are exactly the pairs of a left and a right row of each matched group.  Obligations: (1) every column assignment has
    exactly that generator nest (AST shape); (2) its element expression, executed symbolically for arbitrary l and r, is the cell the
    statement prescribes (left column: self[k][l]; right column: other[k][r]; same-named column: by mode); (3) the key column repeats
    the group key len(l) * len(r) times per group.  The flatten / offset arithmetic itself is an argument, not a solver step."""
    fdef = m.func('dictable.join')
    assigns = [s_ for s_ in walk_no_defs(fdef) if isinstance(s_, ast.Assign) and isinstance(s_.targets[0], ast.Subscript)
               and ast.unparse(s_.targets[0].value) == 'rtn' and isinstance(s_.value, ast.Call) and ast.unparse(s_.value.func) == 'sum']
    if len(assigns) < 6:
        raise SelectorError('join: expected the column assignments rtn[k] = sum([...], []) for left, right and same-named columns')

    def nest(call):
        """(element expr, ok) of sum([[E for l in lid for r in rid] for lid, rid in zip(lids, rids)], [])"""
        if not (len(call.args) == 2 and isinstance(call.args[1], ast.List) and not call.args[1].elts and isinstance(call.args[0], ast.ListComp)):
            return None, False
        outer = call.args[0]
        if not (len(outer.generators) == 1 and not outer.generators[0].ifs and ast.unparse(outer.generators[0].iter) == 'zip(lids, rids)'
                and ast.unparse(outer.generators[0].target) in ('lid, rid', '(lid, rid)') and isinstance(outer.elt, ast.ListComp)):
            return None, False
        inner = outer.elt
        g = inner.generators
        ok = (len(g) == 2 and not g[0].ifs and not g[1].ifs and ast.unparse(g[0].target) == 'l' and ast.unparse(g[0].iter) == 'lid'
              and ast.unparse(g[1].target) == 'r' and ast.unparse(g[1].iter) == 'rid')
        return inner.elt, ok

    n = Int('N!exp')
    left, right = fresh_list(VAL, 'leftcol'), fresh_list(VAL, 'rightcol')
    l, r = Ints('L!exp R!exp')
    MODEF = z3.Function('mode_fn', Val, Val, Val)

    class Cols:
        def call(self, ex, st, e, fname, args, kwargs):
            if fname == 'mode' and len(args) == 2 and all(a.kind == 'val' for a in args):
                return V(MODEF(args[0].t, args[1].t))
            return NotImplemented

    # which table each loop's `v` / `lv` / `rv` is read from: the assignment that precedes the column assignment in the same block
    def source_of(name, stmt):
        blk = None
        for node in walk_no_defs(fdef):
            for fld in ('body', 'orelse'):
                b = getattr(node, fld, None)
                if isinstance(b, list) and stmt in b:
                    blk = b
        for prev in reversed(blk[:blk.index(stmt)]):
            if isinstance(prev, ast.Assign) and ast.unparse(prev.targets[0]) == name:
                return ast.unparse(prev.value)
        return None

    for idx, a in enumerate(assigns):
        elt, ok = nest(a.value)
        label = 'join.expand.column%d' % idx
        ctx.post(label + '.enumerates_all_pairs_of_each_matched_group_in_the_common_order', [], BoolVal(ok), kind='syntactic')
        if elt is None:
            continue
        env = {'l': I(l), 'r': I(r)}
        srcs = {}
        for nm in sorted({x.id for x in ast.walk(elt) if isinstance(x, ast.Name)} - {'l', 'r', 'mode'}):
            src = source_of(nm, a)
            srcs[nm] = src
            env[nm] = left if src == 'self[k]' else right if src == 'other[k]' else None
        if any(v is None for v in env.values()):
            ctx.post(label + '.cells_read_from_the_operands_columns', [], BoolVal(False), kind='syntactic')
            continue
        env['mode'] = SV('modefn')
        ex = Exec(m, [Cols(), Lists(), TypePreds()], name=label)
        st = State(env=env)
        st.pc += [0 <= l, l < left.t, 0 <= r, r < right.t]
        val = ex.eval(st, elt)
        ctx.absorb(ex)
        for o in st.pending:
            ctx.post(label + '.never_raises_for_rows_of_the_group.%s' % o.val, ex.facts + o.st.pc, BoolVal(False), kind='safety')
        lc, rc = left.arrs[0][l], right.arrs[0][r]
        names = set(srcs)
        if val.kind == 'val' and srcs and all(v == 'self[k]' for v in srcs.values()):
            ctx.post(label + '.cell_is_the_left_rows_value', ex.facts + st.pc, val.t == lc)
        elif val.kind == 'val' and srcs and all(v == 'other[k]' for v in srcs.values()) and 'mode' not in {x.id for x in ast.walk(elt) if isinstance(x, ast.Name)}:
            ctx.post(label + '.cell_is_the_right_rows_value', ex.facts + st.pc, val.t == rc)
        elif val.kind == 'val':
            ctx.post(label + '.cell_is_mode_of_left_and_right_value', ex.facts + st.pc, val.t == MODEF(lc, rc))
        elif val.kind == 'tuple' and len(val.items) == 2:
            ctx.post(label + '.cell_is_the_pair_of_left_and_right_value', ex.facts + st.pc, And(val.items[0].t == lc, val.items[1].t == rc))
        else:
            ctx.post(label + '.cell_has_a_recognised_form', [], BoolVal(False), kind='syntactic')
    # the mode dispatch: 'l'/0 -> left, 'r'/1 -> right, callable -> mode(l, r), else the pair.  Checked by which source each branch reads.
    # key column: [x]*n with n = len(l)*len(r)
    ns = [s_ for s_ in walk_no_defs(fdef) if isinstance(s_, ast.Assign) and ast.unparse(s_.targets[0]) == 'ns']
    ok_ns = len(ns) == 1 and ast.unparse(ns[0].value).replace(' ', '') == '[len(l)*len(r)forl,rinzip(lids,rids)]'
    keycol = [c for c in walk_no_defs(fdef) if isinstance(c, ast.Call) and ast.unparse(c.func) == 'sum' and '[x] * n' in ast.unparse(c)]
    ok_key = len(keycol) == 1 and ast.unparse(keycol[0].args[0]).replace(' ', '') == '[[x]*nforx,ninzip(xs,ns)]'
    ctx.post('join.expand.key_column_repeats_the_group_key_once_per_pair', [], BoolVal(ok_ns and ok_key), kind='syntactic')
    ctx.trust('join expansion: that the flattened nests of all columns enumerate the pairs in one common order is an argument from the identical generator nest (checked on the AST), not a solver step')


# ------------------------------------------------------------------------------------------------- build
def build(ctx):
    m = ctx.mod('_dictable')
    ctx.trust('cmp laws (range, antisymmetry, transitivity) are hypotheses here: they are the subject of property C07')

    ctx.guarded('_listby', lambda: listby_obligations(ctx, m))

    # =============================================================== join: group merge loop
    def merge_inv(kind, tbl):
        L, R = tbl.groups['self'], tbl.groups['other']
        lk, = L['xs'].arrs
        rk, = R['xs'].arrs
        ls_, rs_ = L['xs'].t, R['xs'].t

        def inv(st, entry):
            l, r, res = st.env['l'].t, st.env['r'].t, st.env['res']
            Rn = res.t if res.f.get('ety') is not None else IntVal(0)
            gi, gj, pos = st.ghost['gi'], st.ghost['gj'], st.ghost['pos']
            i, j, p, q = Ints('i!mi j!mi p!mi q!mi')
            cl = [('bounds', And(0 <= l, l <= ls_, 0 <= r, r <= rs_, Rn >= 0))]
            if entry is not None and 'l' in entry.env and entry.ghost.get('inner'):
                cl.append(('never_moves_back', And(l >= entry.env['l'].t, r >= entry.env['r'].t)))
            if kind == 'join':
                if res.f.get('ety') is not None:
                    keys, llen, lrows, rlen, rrows = res.arrs
                    cl.append(('only_matches_recorded', ForAll([p], Implies(And(0 <= p, p < Rn), And(
                        0 <= gi[p], gi[p] < l, 0 <= gj[p], gj[p] < r, cmpf(lk[gi[p]], rk[gj[p]]) == 0,
                        keys[p] == lk[gi[p]], llen[p] == L['ids'].arrs[0][gi[p]], lrows[p] == L['ids'].arrs[1][gi[p]],
                        rlen[p] == R['ids'].arrs[0][gj[p]], rrows[p] == R['ids'].arrs[1][gj[p]])))))
                    cl.append(('output_in_key_order', ForAll([p, q], Implies(And(0 <= p, p < q, q < Rn), gi[p] < gi[q]))))
                cl.append(('all_passed_matches_recorded', ForAll([i, j], Implies(
                    And(0 <= i, i < ls_, 0 <= j, j < rs_, cmpf(lk[i], rk[j]) == 0, Or(i < l, j < r)),
                    And(0 <= pos[i], pos[i] < Rn, gi[pos[i]] == i, gj[pos[i]] == j)))))
            else:
                U = st.ghost['U']          # U[i]: left group i has been appended (mode 0) / right group (mode 1)
                own, oth, on_, osz = (lk, rk, ls_, rs_) if kind == 'xor0' else (rk, lk, rs_, ls_)
                me, him = (l, r) if kind == 'xor0' else (r, l)
                nomatch = lambda x: ForAll([j], Implies(And(0 <= j, j < osz), cmpf(own[x], oth[j]) != 0))
                if res.f.get('ety') is not None:
                    rl_, rr_ = res.arrs
                    src = (L if kind == 'xor0' else R)['ids']
                    cl.append(('appended_are_unmatched_groups_in_order', ForAll([p], Implies(And(0 <= p, p < Rn), And(
                        0 <= gi[p], gi[p] < me, nomatch(gi[p]), rl_[p] == src.arrs[0][gi[p]], rr_[p] == src.arrs[1][gi[p]])))))
                    cl.append(('output_in_key_order', ForAll([p, q], Implies(And(0 <= p, p < q, q < Rn), gi[p] < gi[q]))))
                cl.append(('all_passed_unmatched_appended', ForAll([i], Implies(And(0 <= i, i < me, nomatch(i)),
                                                                                And(0 <= pos[i], pos[i] < Rn, gi[pos[i]] == i)))))
                cl.append(('remaining_cannot_match_passed', ForAll([i, j], Implies(And(me <= i, i < on_, 0 <= j, j < him), cmpf(own[i], oth[j]) != 0))))
            return cl
        return inv, ls_, rs_

    def run_merge(fname, kind, mode=None):
        fdef = m.func('dictable.' + fname)
        whiles = find_all(fdef, lambda x: isinstance(x, ast.While))
        if len(whiles) != 3:
            raise SelectorError('dictable.%s: expected an outer merge loop with two inner loops' % fname)
        outer, in1, in2 = whiles
        # the region: the statement list that contains the outer loop, from the first _listby call
        holder = None
        for node in walk_no_defs(fdef):
            for fld in ('body', 'orelse'):
                blk = getattr(node, fld, None)
                if isinstance(blk, list) and outer in blk:
                    holder = blk
        if holder is None and outer in fdef.body:
            holder = fdef.body
        if holder is None:
            raise SelectorError('cannot locate the block holding the merge loop of %s' % fname)
        first = None
        for k, s in enumerate(holder):
            if isinstance(s, ast.Assign) and isinstance(s.value, ast.Call) and ast.unparse(s.value.func).endswith('._listby'):
                first = k
                break
        if first is None:
            raise SelectorError('%s: no `x, ids = self._listby(...)` before the merge loop' % fname)
        region = holder[first: holder.index(outer) + 1]
        apps = [s for s in walk_no_defs(outer) if isinstance(s, ast.Expr) and isinstance(s.value, ast.Call) and ast.unparse(s.value.func) == 'res.append']
        tbl = Table(); tbl.by_contract = True
        th = [tbl, Lists(), TypePreds()]
        holder_ = {}

        def lazy_inv(which):
            def f(st, entry):
                if 'inv' not in holder_:
                    holder_['inv'] = merge_inv(kind, tbl)
                return holder_['inv'][0](st, entry)
            return f

        def ghost_havoc(ex, st):
            for nm in ('gi', 'gj', 'pos'):
                st.ghost[nm] = IA(fresh_name(nm))

        def variant(which):
            def v(st):
                ls_, rs_ = holder_['inv'][1], holder_['inv'][2]
                l, r = st.env['l'].t, st.env['r'].t
                return {'outer': (ls_ - l) + (rs_ - r), 'in1': ls_ - l, 'in2': rs_ - r}[which]
            return v

        def mark_inner(which):
            base = lazy_inv(which)

            def f(st, entry):
                entry.ghost['inner'] = True
                return base(st, entry)
            return f

        def after_append(ex, st, s):
            res = st.env['res']
            l, r = st.env['l'].t, st.env['r'].t
            who = l if kind in ('join', 'xor0') else r
            st.ghost['gi'] = Store(st.ghost['gi'], res.t - 1, who)
            st.ghost['gj'] = Store(st.ghost['gj'], res.t - 1, r)
            st.ghost['pos'] = Store(st.ghost['pos'], who, res.t - 1)

        ety = TUP(VAL, LIST(INT), LIST(INT)) if kind == 'join' else LIST(INT)
        protos = dict(res=fresh_list(ety, 'res'))
        inner_ghost = ghost_havoc if kind != 'join' else None      # xor's inner loops append to res; join's do not
        loops = {id(outer): LoopSpec('%s.While0' % fname, lazy_inv('outer'), variant=variant('outer'), ghost_havoc=ghost_havoc, protos=protos),
                 id(in1): LoopSpec('%s.While1' % fname, mark_inner('in1'), variant=variant('in1'), ghost_havoc=inner_ghost, protos=protos),
                 id(in2): LoopSpec('%s.While2' % fname, mark_inner('in2'), variant=variant('in2'), ghost_havoc=inner_ghost, protos=protos)}
        label = fname if mode is None else '%s.mode%d' % (fname, mode)
        ex = Exec(m, th, loops=loops, hooks=[(lambda s: s in apps, after_append)], name=label, prune=PRUNE)
        env = {'self': tbl.table('self'), 'other': tbl.table('other'), 'lcols': SV('colspec'), 'rcols': SV('colspec')}
        if mode is not None:
            env['mode'] = I(mode)
        st = State(env=env)
        st.pc += laws() + [tbl.key_list('self').t >= 1, tbl.key_list('other').t >= 1]
        for nm in ('gi', 'gj', 'pos'):
            st.ghost[nm] = IA(nm + '0')
        st.ghost['U'] = None
        stmts = region if mode is None else [s for s in region if not (isinstance(s, ast.Assign) and any(isinstance(t, ast.Name) and t.id == 'mode' for t in s.targets))]
        if mode is not None and len(stmts) == len(region):
            raise SelectorError('xor: no `mode = ...` normalisation before the merge loop')
        outs = ex.run_block(st, stmts)
        ctx.absorb(ex)
        ctx.record_function(m, 'dictable.' + fname, fdef, ex.stmts_executed,
                            excluded=['prelude (column spelling, as_tuple, column-name set algebra) and the expansion of matched groups into rows: bounded only',
                                      'tables without rows (phantom group of _listby): bounded only'])
        return ex, tbl, outs, holder, outer

    def join_section():
        ex, tbl, outs, holder, outer = run_merge('join', 'join')
        L, R = tbl.groups['self'], tbl.groups['other']
        lk, = L['xs'].arrs
        rk, = R['xs'].arrs
        nexit = 0
        for out in outs:
            if out.kind != 'next':
                ctx.post('join.merge.never_raises_or_returns', ex.facts + out.st.pc, BoolVal(False), kind='safety')
                continue
            nexit += 1
            st = out.st
            res = st.env['res']
            gi, gj, pos = st.ghost['gi'], st.ghost['gj'], st.ghost['pos']
            i, j, p = Ints('i!jp j!jp p!jp')
            if res.f.get('ety') is None:
                raise OutOfSubset('join: res has no element type after the loop')
            keys, llen, lrows, rlen, rrows = res.arrs
            ctx.post('join.post.every_pair_of_groups_with_equal_keys_is_in_the_result', ex.facts + st.pc,
                     ForAll([i, j], Implies(And(0 <= i, i < L['xs'].t, 0 <= j, j < R['xs'].t, cmpf(lk[i], rk[j]) == 0),
                                            And(0 <= pos[i], pos[i] < res.t, gi[pos[i]] == i, gj[pos[i]] == j))))
            ctx.post('join.post.only_pairs_with_equal_keys_are_in_the_result', ex.facts + st.pc,
                     ForAll([p], Implies(And(0 <= p, p < res.t), And(0 <= gi[p], gi[p] < L['xs'].t, 0 <= gj[p], gj[p] < R['xs'].t,
                                                                      cmpf(lk[gi[p]], rk[gj[p]]) == 0))))
            ctx.post('join.post.result_carries_key_left_rows_right_rows', ex.facts + st.pc,
                     ForAll([p], Implies(And(0 <= p, p < res.t), And(keys[p] == lk[gi[p]], llen[p] == L['ids'].arrs[0][gi[p]], lrows[p] == L['ids'].arrs[1][gi[p]],
                                                                      rlen[p] == R['ids'].arrs[0][gj[p]], rrows[p] == R['ids'].arrs[1][gj[p]]))))
            ctx.post('join.post.no_pair_twice', ex.facts + st.pc, ForAll([p, i], Implies(And(0 <= p, p < i, i < res.t), gi[p] < gi[i])))
        if nexit == 0:
            raise OutOfSubset('join merge loop has no normal exit')
    ctx.guarded('join', join_section)
    ctx.guarded('join.expand', lambda: expansion_obligations(ctx, m))

    def xor_section():
        for mode in (0, 1):
            kind = 'xor%d' % mode
            ex, tbl, outs, holder, outer = run_merge('xor', kind, mode)
            L, R = tbl.groups['self'], tbl.groups['other']
            own, oth = (L, R) if mode == 0 else (R, L)
            ok, = own['xs'].arrs
            tk, = oth['xs'].arrs
            # the tail after the loop: `if mode == 0: if l<ls: res.extend(lids[l:]) ...`
            tail = holder[holder.index(outer) + 1:]
            nexit = 0
            for out in outs:
                if out.kind != 'next':
                    ctx.post('xor.mode%d.merge.never_raises_or_returns' % mode, ex.facts + out.st.pc, BoolVal(False), kind='safety')
                    continue
                st = out.st
                me = st.env['l'].t if mode == 0 else st.env['r'].t
                # execute the real tail up to (not including) the final row selection `self[sum(res, [])]`
                ex2 = Exec(m, [tbl, Lists(), TypePreds(), Tail()], name='xor.mode%d.tail' % mode)
                ex2.facts = list(ex.facts); ex2._fact_ids = set(ex._fact_ids)
                for o2 in ex2.run_block(st.fork(), tail):
                    ctx.absorb(ex2)
                    if o2.kind != 'return' or o2.val.kind != 'selected':
                        ctx.post('xor.mode%d.tail.returns_row_selection' % mode, ex2.facts + o2.st.pc, BoolVal(False), kind='safety')
                        continue
                    nexit += 1
                    sel, src = o2.val.f['groups'], o2.val.f['table']
                    ctx.post('xor.mode%d.post.selects_rows_of_the_right_operand' % mode, ex2.facts + o2.st.pc, BoolVal(src == ('self' if mode == 0 else 'other')))
                    n_own = own['xs'].t
                    gi, pos = o2.st.ghost['gi'], o2.st.ghost['pos']
                    rl_, rr_ = sel.arrs
                    i, j, p = Ints('i!xp j!xp p!xp')
                    nomatch = lambda x: ForAll([j], Implies(And(0 <= j, j < oth['xs'].t), cmpf(ok[x], tk[j]) != 0))
                    Rn0 = o2.st.ghost['loop_len']
                    # group index of the p-th selected group: recorded ghost for the loop part, me + (p - Rn0) for the tail
                    grp = lambda p_: If(p_ < Rn0, gi[p_], me + (p_ - Rn0))
                    ctx.post('xor.mode%d.post.selected_groups_are_exactly_the_unmatched_ones' % mode, ex2.facts + o2.st.pc,
                             And(ForAll([p], Implies(And(0 <= p, p < sel.t), And(0 <= grp(p), grp(p) < n_own, nomatch(grp(p)),
                                                                                 rl_[p] == own['ids'].arrs[0][grp(p)], rr_[p] == own['ids'].arrs[1][grp(p)]))),
                                 ForAll([i], Implies(And(0 <= i, i < n_own, nomatch(i)),
                                                     Or(And(i < me, 0 <= pos[i], pos[i] < Rn0, gi[pos[i]] == i), And(i >= me, Rn0 + (i - me) < sel.t))))))
                    ctx.post('xor.mode%d.post.selected_groups_in_key_order' % mode, ex2.facts + o2.st.pc,
                             ForAll([p, i], Implies(And(0 <= p, p < i, i < sel.t), grp(p) < grp(i))))
            if nexit == 0:
                raise OutOfSubset('xor(mode %d) has no normal exit' % mode)
    ctx.guarded('xor', xor_section)

    # =============================================================== the partition law, over the two postconditions
    def partition():
        # for a left group i: (exists j. key_eq) xor (forall j. not key_eq): each group of x is matched by join or selected by xor, never both
        K = Array('lk!pl', IntSort(), Val); Q = Array('rk!pl', IntSort(), Val)
        i, j, rs_ = Ints('i!pl j!pl rs!pl')
        in_join = Exists([j], And(0 <= j, j < rs_, cmpf(K[i], Q[j]) == 0))
        in_xor = ForAll([j], Implies(And(0 <= j, j < rs_), cmpf(K[i], Q[j]) != 0))
        ctx.post('partition.every_left_group_is_in_exactly_one_of_join_and_xor', [], in_join != in_xor, kind='lemma')
    ctx.guarded('partition', partition)

    # ------------------------------------------------------------------ frame: operations that return a new object never alter their operands
    def frame_section():
        from pyvc import own
        own.post_all(ctx, own.table_report(PROP), replay=frame_replay)
    ctx.guarded('frame', frame_section)

class Tail:
    """the last statements of xor: `res.extend(lids[l:])` and the final row selection `self[sum(res, [])]`, which is taken
    by contract (C01: rows with the listed indices, in that order) - the obligation is about *which groups* are selected"""

    def method(self, ex, st, e, recv, mname, args, kwargs):
        if recv.kind == 'list' and mname == 'extend' and len(args) == 1 and args[0].kind == 'list':
            a, b = as_list_sv(recv, args[0].ety), as_list_sv(args[0])
            j = Int('j!ext')
            ex.use('axiom:xs.extend(ys) appends the elements of ys in order')
            st.ghost['loop_len'] = a.t
            arrs = [z3.Lambda([j], If(j < a.t, Select(x, j), Select(y, j - a.t))) for x, y in zip(a.arrs, b.arrs)]
            new = SV('list', a.t + b.t, ety=a.ety, arrs=arrs)
            if isinstance(e.func.value, ast.Name):
                st.env[e.func.value.id] = new
            return NONE
        return NotImplemented

    def call(self, ex, st, e, fname, args, kwargs):
        if fname == 'sum' and len(args) == 2 and args[0].kind == 'list' and args[1].kind == 'list':
            ex.use('assumed contract:sum(list of lists, []) concatenates the lists in order (flatten)')
            if 'loop_len' not in st.ghost:
                st.ghost['loop_len'] = args[0].t
            return SV('flat', None, groups=as_list_sv(args[0], LIST(INT)))
        return NotImplemented

    def subscript(self, ex, st, e, recv, idx):
        if recv.kind == 'obj' and recv.f.get('cls') == 'dictable' and idx.kind == 'flat':
            ex.use('callee contract:dictable[list of row indices] is the table of those rows in that order (proved in C01 __getitem__.ints.* with the constructor from rows + headers, constructor.rows.*)')
            return SV('selected', None, groups=idx.f['groups'], table=recv.name)
        return NotImplemented


def frame_replay(d):
    """replay description of a failed frame obligation: the native re-check looks at the receiver / operands before and after the call"""
    return dict(kind='frame', name=d['name'], where=d['where'], detail=d['detail'][:300])
