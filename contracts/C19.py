"""C19 - container lifting maps leaf-wise and preserves shape; zipper; as_list / as_tuple.

Deductive part (real source of _loop.py, _zip.py, _as_list.py, re-read on every run):
  F  frame / linearity (pyvc/own.py) for loops._wrapped and loops.wrapped: every place that iterates a parameter more than once gets a reiterable
     argument (the generator expressions passed down the recursion are materialised by `args = tuple(args)` first); _wrapped modifies only its own
     kwargs dict (pop of 'axis'), wrapped modifies nothing.
  P  as_list / as_tuple: exact summary over a small value datatype (None, list, tuple, range-like, dict, other), never raise, always return a
     list / tuple, idempotent - except the recorded finding C19:as_tuple:idempotent:list-holding-one-list, which must stay visible;
     lens: 0 for no values, ValueError iff two lengths other than 1 differ, otherwise the common length or 1;
     zipper: normalisation, lens by contract, broadcast of length-1 sequences, zip;
     is_iterable / len0 (the predicates zipper, lens and _item_by_key call): whole bodies on the value datatype - True exactly for list / tuple / range-like /
     dict; len(x) for sized containers, 0 for None, strings, scalars and zip objects; neither raises;
     loops._wrapped for list / tuple / dict: same container type, same length / keys, element = the recursive result on (element, companions
     selected by index / key) - structural recursion with the function's own contract as hypothesis; _item_by_i / _item_by_key against their contract.
Bounded only (rac/C19.py, never counted as proved): the library functions built with loop(...) on nestings to depth 4, and waiter under every
completion order (schedule independence is concurrency, outside this family).
Path precondition throughout: no value is a pandas / numpy object.
"""
import ast
import z3
from z3 import And, Or, Not, If, Implies, Int, Ints, Bool, IntVal, BoolVal, ForAll, Exists, Function, IntSort, BoolSort, Const

from pyvc import own
from pyvc.front import select, SelectorError, OutOfSubset, find_all, strip_doc
from pyvc.symex import Exec, State, LoopSpec
from pyvc.theories import TypePreds
from pyvc.sv import SV, I, B, S, T, NONE, fresh_int, fresh_name
from pyvc.th_tree import Val, L, LEN, VA
from pyvc.th_cont import (Conts, CV, TAG, SEQ, LEN0, T_NONE, T_LIST, T_TUPLE, T_RNG, T_DICT, T_OTHER, seq_tag, seq_len, seq_at, val_of, same_seq,
                          is_seq_tag)

PROP = 'C19'
REPLAY_MODULE = 'rac.C19_ded'
NEVER_TYPES = ['pd.DataFrame', 'pd.Series', 'np.ndarray', '(pd.DataFrame, pd.Series)']
W0 = dict(site=IntVal(0))


def rp(kind, **kw):
    return lambda model: dict(kind=kind, **kw)


# ================================================================================================ frame / linearity
def frame_section(ctx):
    an = own.Analyzer(never_types=NEVER_TYPES)
    for modname, qual, spec in (('_loop', 'loops._wrapped', ['top(kwargs)']), ('_loop', 'loops.wrapped', [])):
        def one(modname=modname, qual=qual, spec=spec):
            rs = own.check_function(an, modname, qual, modifies=spec)
            own.post_all(ctx, rs, replay=lambda d: dict(kind='frame', obligation=d['name'], detail=d['detail'][:300]))
            m = ctx.mod(modname)
            ctx.record_function(m, qual, m.func(qual), None, how='ownership / linearity analysis (pyvc/own.py)',
                                excluded=['pandas / numpy branches: path precondition "no value is a pandas / numpy object"'])
        ctx.guarded('frame.' + qual, one)
    ctx.trust('loops.T (transposition for axis=1 on pandas / numpy input) is outside the stated universe and not checked')


# ================================================================================================ as_list / as_tuple
def known_class(x):
    """the recorded finding: after unwrapping a 1-tuple holding a list, the value is a list holding exactly one list"""
    inner = VA(SEQ(x), 0)
    unwrap = And(TAG(x) == T_TUPLE, LEN(SEQ(x)) == 1, TAG(inner) == T_LIST)
    w = If(unwrap, inner, x)
    return And(TAG(w) == T_LIST, LEN(SEQ(w)) == 1, TAG(VA(SEQ(w), 0)) == T_LIST)


def aslist_section(ctx):
    m = ctx.mod('_as_list')
    x = Const('X', Val)
    none = Bool('NONE_FLAG')
    j = Int('J')
    dom = [LEN(SEQ(x)) >= 0, TAG(x) >= 0, TAG(x) <= 5]
    inner = VA(SEQ(x), 0)
    unwrap = And(TAG(x) == T_TUPLE, LEN(SEQ(x)) == 1, TAG(inner) == T_LIST)
    for fname, rtag in (('as_list', T_LIST), ('as_tuple', T_TUPLE)):
        fn = m.func(fname)
        inline = {fname: (m, fn), 'is_rng': (m, m.func('is_rng'))}

        def run(value, extra):
            ex = Exec(m, [Conts(), TypePreds()], inline=inline, name=fname)
            st = State()
            st.pc += dom + extra
            outs = ex.run_function(st, fname, [value, B(none)], {})
            ctx.absorb(ex)
            ctx.record_function(m, fname, fn, ex.stmts_executed)
            ctx.record_function(m, 'is_rng', m.func('is_rng'), ex.stmts_executed, how='inlined')
            return ex, outs
        ex, outs = run(CV(x), [])
        known_goals, known_facts = [], []
        wit = dict(site=IntVal(0))
        rpl = rp('as_list', name=fname)
        nret = 0
        for o in outs:
            hy = ex.facts + o.st.pc
            if o.kind != 'return':
                ctx.post('%s.never_raises.%s' % (fname, o.val), hy, BoolVal(False), kind='safety', witness=wit, replay=rpl)
                continue
            nret += 1
            r = o.val
            n, at = seq_len(r), (lambda p: seq_at(r, p))
            ctx.post('%s.returns_a_%s' % (fname, 'list' if rtag == T_LIST else 'tuple'), hy, seq_tag(r) == rtag, witness=wit, replay=rpl)
            ctx.post('%s.summary.None_gives_empty' % fname, hy + [TAG(x) == T_NONE, Not(none)], n == 0, witness=wit, replay=rpl)
            ctx.post('%s.summary.None_is_kept_when_asked' % fname, hy + [TAG(x) == T_NONE, none], And(n == 1, at(0) == x), witness=wit, replay=rpl)
            ctx.post('%s.summary.scalar_is_wrapped' % fname, hy + [Or(TAG(x) == T_OTHER, TAG(x) == T_DICT)], And(n == 1, at(0) == x), witness=wit, replay=rpl)
            same_as_x = And(n == LEN(SEQ(x)), Implies(And(0 <= j, j < n), at(j) == VA(SEQ(x), j)))
            ctx.post('%s.summary.sequence_keeps_its_elements' % fname, hy + [is_seq_tag(x), Not(unwrap)], same_as_x, witness=wit, replay=rpl)
            ctx.post('%s.summary.one_tuple_holding_a_list_is_unwrapped' % fname, hy + [unwrap],
                     And(n == LEN(SEQ(inner)), Implies(And(0 <= j, j < n), at(j) == VA(SEQ(inner), j))), witness=wit, replay=rpl)
            if rtag == T_LIST:
                ctx.post('as_list.summary.list_is_returned_itself', hy + [TAG(x) == T_LIST], And(r.kind == 'cv', (r.t == x) if r.kind == 'cv' else BoolVal(False)),
                         witness=wit, replay=rpl)
            else:
                ctx.post('as_tuple.summary.tuple_is_returned_itself', hy + [TAG(x) == T_TUPLE, Not(unwrap)], And(r.kind == 'cv', (r.t == x) if r.kind == 'cv' else BoolVal(False)),
                         witness=wit, replay=rpl)
            # ---- idempotence: run the real body again on the result
            ex2, outs2 = run(r, list(o.st.pc))
            for o2 in outs2:
                hy2 = ex.facts + ex2.facts + o2.st.pc
                if o2.kind != 'return':
                    ctx.post('%s.idempotent.second_call_never_raises.%s' % (fname, o2.val), hy2, BoolVal(False), kind='safety', witness=wit, replay=rpl)
                    continue
                goal = same_seq(o2.val, r, j)
                if rtag == T_LIST:
                    ctx.post('as_list.idempotent', hy2, goal, witness=wit, replay=rpl)
                else:
                    universe = TAG(x) != T_RNG          # the property's structures are lists, tuples, dicts and scalars
                    ctx.post('as_tuple.idempotent', hy2 + [universe, Not(known_class(x))], goal, witness=wit, replay=rpl)
                    known_goals.append(Implies(And(*o2.st.pc), goal))
                    known_facts.extend(ex.facts + ex2.facts)
        if nret == 0:
            raise OutOfSubset('%s has no returning path' % fname)
        if rtag == T_TUPLE:
            # the recorded finding, as one obligation over all path pairs: on its input class idempotence must still fail (expected-failure guard)
            ctx.known('as_tuple.idempotent.list_holding_one_list', known_facts + dom + [TAG(x) != T_RNG, known_class(x)], And(*known_goals),
                      key='C19:as_tuple:idempotent:list-holding-one-list', witness=wit, replay=rp('as_tuple_known'))
    ctx.cover('as_list.domain_satisfiable', dom + [unwrap])
    ctx.cover('as_tuple.known_class_satisfiable', dom + [known_class(x), TAG(x) == T_LIST])
    ctx.trust('value datatype of as_list / as_tuple: None, list, tuple, range-like (range, dict_keys, dict_values, zip), dict, other; idempotence of as_tuple '
              'is claimed for None / list / tuple / dict / scalar inputs (the structures of the property), not for range-like inputs')


# ================================================================================================ is_iterable / len0 (callees of zipper, lens, cmp)
def predicates_section(ctx, which):
    """is_iterable(value) (`_types.py`, with is_str inlined) and len0(value) (`_loop.py`, with is_str and _zero inlined), executed from the real AST on a
    symbolic value of the container datatype: None, list, tuple, range-like (range / dict_keys / dict_values / zip), dict, other (a string or a scalar).
    is_iterable: True exactly for list, tuple, range-like and dict values.  len0: len(x) for a list, tuple, dict and a sized range-like x; 0 for None,
    strings, other scalars and zip objects; neither raises.  These are the contracts `Conts` hands to zipper / lens / _item_by_key."""
    from pyvc.th_cont import is_iter, len0_spec, sized, ISSTRV, SIZEDV
    mt, ml = ctx.mod('_types'), ctx.mod('_loop')
    x = Const('X', Val)
    dom = [LEN(SEQ(x)) >= 0, TAG(x) >= 0, TAG(x) <= 5]
    wit = dict(tag=TAG(x), is_str=ISSTRV(x), sized=SIZEDV(x), length=LEN(SEQ(x)))
    if which == 'is_iterable':
        m, fn = mt, mt.func('is_iterable')
        inline = {'is_iterable': (mt, fn), 'is_str': (mt, mt.func('is_str'))}
    else:
        m, fn = ml, ml.func('len0')
        inline = {'len0': (ml, fn), 'is_str': (mt, mt.func('is_str')), '_zero': (ml, ml.func('_zero'))}
    ex = Exec(m, [Conts(len_raises=True), TypePreds()], inline=inline, name=which)
    st = State(); st.pc += dom
    outs = ex.run_function(st, which, [CV(x)], {})
    ctx.absorb(ex)
    for nm, (m_, f_) in inline.items():
        ctx.record_function(m_, nm, f_, ex.stmts_executed, how='symbolic execution' if nm == which else 'inlined into ' + which)
    kw = dict(witness=wit, replay=rp(which))
    nret = 0
    for o in outs:
        hy = ex.facts + o.st.pc
        if o.kind != 'return':
            ctx.post('%s.never_raises.%s' % (which, o.val), hy, BoolVal(False), kind='safety', **kw)
            continue
        nret += 1
        r = o.val
        if which == 'is_iterable':
            if r.kind != 'bool':
                raise OutOfSubset('is_iterable returns a %s' % r.kind)
            ctx.post('is_iterable.true_exactly_for_list_tuple_range_like_and_dict', hy, r.t == is_iter(CV(x)), **kw)
            ctx.post('is_iterable.false_for_a_string', hy + [ISSTRV(x)], Not(r.t), **kw)
        else:
            if r.kind != 'int':
                raise OutOfSubset('len0 returns a %s' % r.kind)
            ctx.post('len0.is_len_for_sized_containers_and_0_otherwise', hy, r.t == len0_spec(x), **kw)
            ctx.post('len0.zero_for_a_string', hy + [ISSTRV(x)], r.t == 0, **kw)
            ctx.post('len0.zero_for_a_zip_object', hy + [TAG(x) == T_RNG, Not(SIZEDV(x))], r.t == 0, **kw)
            ctx.post('len0.nonnegative', hy, r.t >= 0, **kw)
    if nret == 0:
        raise OutOfSubset('%s has no returning path' % which)
    for nm, c in (('list', [TAG(x) == T_LIST, LEN(SEQ(x)) == 2]), ('string', [ISSTRV(x)]), ('none', [TAG(x) == T_NONE]), ('zip', [TAG(x) == T_RNG, Not(SIZEDV(x))]),
                  ('scalar', [TAG(x) == T_OTHER, Not(ISSTRV(x))])):
        ctx.cover('%s.domain_satisfiable.%s' % (which, nm), dom + c + ex.facts)


# ================================================================================================ lens
def lens_section(ctx):
    m = ctx.mod('_zip')
    fn = m.func('lens')
    if fn.args.vararg is None:
        raise SelectorError('lens no longer takes *values')
    M = Int('NVALUES')
    VALS = Function('VALUE', IntSort(), Val)
    ell = lambda k: LEN0(VALS(k))
    values = SV('cvs', None, n=M, at=lambda st, k: CV(VALS(k)))
    ex = Exec(m, [Conts(), TypePreds()], name='lens')
    st = State(env={fn.args.vararg.arg: values})
    st.pc += [M >= 0]
    outs = ex.run_block(st, strip_doc(fn.body))
    ctx.absorb(ex)
    ctx.record_function(m, 'lens', fn, ex.stmts_executed)
    a, b = Ints('A B')
    differ = lambda p, q: And(0 <= p, p < M, 0 <= q, q < M, ell(p) != 1, ell(q) != 1, ell(p) != ell(q))
    wit = dict(site=IntVal(0))
    nret = 0
    for o in outs:
        hy = ex.facts + o.st.pc
        if o.kind == 'raise':
            p, q = Ints('p!w q!w')
            ctx.post('lens.raises_%s_only_when_two_lengths_other_than_1_differ' % o.val, hy, And(BoolVal(o.val == 'ValueError'), Exists([p, q], differ(p, q))),
                     witness=wit, replay=rp('lens'))
            continue
        if o.kind != 'return':
            raise OutOfSubset('lens: unexpected %s' % o.kind)
        nret += 1
        r = o.val.t
        ctx.post('lens.zero_for_no_values', hy + [M == 0], r == 0, witness=wit, replay=rp('lens'))
        ctx.post('lens.returns_only_when_lengths_agree', hy, Not(differ(a, b)), witness=wit, replay=rp('lens'))
        ctx.post('lens.common_length', hy + [M > 0, 0 <= a, a < M, ell(a) != 1], r == ell(a), witness=wit, replay=rp('lens'))
        k = Int('k!all')
        ctx.post('lens.one_when_every_length_is_one', hy + [M > 0, ForAll([k], Implies(And(0 <= k, k < M), ell(k) == 1))], r == 1, witness=wit, replay=rp('lens'))
    if nret == 0:
        raise OutOfSubset('lens has no returning path')
    ctx.cover('lens.three_values_reachable', [M == 3, ell(0) == 2, ell(1) == 1, ell(2) == 2])


# ================================================================================================ zipper
def zipper_section(ctx):
    """zipper(*values): every value is read as a sequence (its elements when iterable, [value] otherwise); lens by contract; length-1 sequences are
    repeated n times; zip.  Spec from the statement: equal-length sequences are zipped, scalars and length-1 sequences broadcast, ValueError when two
    sequences have different lengths neither of which is 1."""
    from pyvc.th_cont import is_iter
    m = ctx.mod('_zip')
    fn = m.func('zipper')
    if fn.args.vararg is None:
        raise SelectorError('zipper no longer takes *values')
    M = Int('NZIP')
    VALS = Function('ZVALUE', IntSort(), Val)
    values = SV('cvs', None, n=M, at=lambda st, k: CV(VALS(k)))
    ex = Exec(m, [Conts(), TypePreds()], name='zipper')
    st = State(env={fn.args.vararg.arg: values})
    k0 = Int('k!d')
    st.pc += [M >= 0, ForAll([k0], And(LEN(SEQ(VALS(k0))) >= 0, TAG(VALS(k0)) >= 0, TAG(VALS(k0)) <= 5))]
    outs = ex.run_block(st, strip_doc(fn.body))
    ctx.absorb(ex)
    ctx.record_function(m, 'zipper', fn, ex.stmts_executed)
    # the specification's view of value j as a sequence
    it = lambda j: is_iter(CV(VALS(j)))
    slen = lambda j: If(it(j), LEN(SEQ(VALS(j))), 1)
    sat_ = lambda j, k: If(it(j), VA(SEQ(VALS(j)), k), VALS(j))
    a, b, k = Ints('A B K')
    differ = lambda p, q: And(0 <= p, p < M, 0 <= q, q < M, slen(p) != 1, slen(q) != 1, slen(p) != slen(q))
    wit = dict(site=IntVal(0))
    nret = 0
    for o in outs:
        hy = ex.facts + o.st.pc
        if o.kind == 'raise':
            p, q = Ints('p!z q!z')
            ctx.post('zipper.raises_%s_only_when_two_lengths_other_than_1_differ' % o.val, hy, And(BoolVal(o.val == 'ValueError'), Exists([p, q], differ(p, q))),
                     witness=wit, replay=rp('zipper'))
            continue
        if o.kind != 'return' or o.val.kind != 'zipof':
            raise OutOfSubset('zipper: unexpected outcome %s' % o.kind)
        nret += 1
        z = o.val
        s2 = o.st.fork()
        fa = z.at(s2, a)                     # the a-th sequence handed to zip
        n = Int('N_COMMON')                  # the common length: the spec's own definition
        ndef = [Implies(M == 0, n == 0), ForAll([k0], Implies(And(0 <= k0, k0 < M, slen(k0) != 1), n == slen(k0))),
                Implies(And(M > 0, ForAll([k0], Implies(And(0 <= k0, k0 < M), slen(k0) == 1))), n == 1)]
        hy2 = ex.facts + s2.pc + ndef
        ctx.post('zipper.returns_only_when_lengths_agree', hy2, Not(differ(a, b)), witness=wit, replay=rp('zipper'))
        ctx.post('zipper.one_sequence_per_value', hy2, z.n == M, witness=wit, replay=rp('zipper'))
        ctx.post('zipper.every_sequence_has_the_common_length', hy2 + [0 <= a, a < M, n >= 1], seq_len(fa) == n, witness=wit, replay=rp('zipper'))
        ctx.post('zipper.empty_result_when_a_sequence_is_empty', hy2 + [M > 0, n == 0], Exists([k0], And(0 <= k0, k0 < M, slen(k0) == 0)), witness=wit, replay=rp('zipper'))
        ctx.post('zipper.empty_sequence_stays_empty', hy2 + [0 <= a, a < M, n == 0, slen(a) == 0], seq_len(fa) == 0, witness=wit, replay=rp('zipper'))
        ctx.post('zipper.elements_are_matched_or_broadcast', hy2 + [0 <= a, a < M, 0 <= k, k < n],
                 seq_at(fa, k) == If(slen(a) == n, sat_(a, k), sat_(a, 0)), witness=wit, replay=rp('zipper'))
    if nret == 0:
        raise OutOfSubset('zipper has no returning path')
    ctx.cover('zipper.broadcast_reachable', [M == 3, slen(0) == 3, slen(1) == 1, slen(2) == 3, Not(it(1))])
    ctx.trust('zip axiom: the result of zipper is zip(*sequences): min(len) tuples, the k-th holding the k-th element of every sequence')


# ================================================================================================ _item_by_i / _item_by_key / loops._wrapped
def item_by_section(ctx):
    """_item_by_i(value, i, n) and _item_by_key(value, key, keys): a companion of the same length / with the same keys is matched element by element,
    a non-container is broadcast; a list / tuple of another length (dict with other keys) is mapped element-wise by the same function - which is where
    the recorded finding C19:lift:value:unmatched-companion-holding-a-matching-container lives (designed recursion, stated exactly, not hidden)."""
    from pyvc.th_cont import Lift, IBI, IBK, TYPEOFV, DHAS, DGET, SK, seq_type
    m = ctx.mod('_loop')
    v = Const('VALUE', Val)
    i, n, k = Ints('I N K')
    wit = dict(site=IntVal(0))
    # ---- _item_by_i
    fn = m.func('_item_by_i')
    lift = Lift(by_contract=('_item_by_i',))
    ex = Exec(m, [lift, Conts(), TypePreds()], inline={'_item_by_i': (m, fn)}, name='_item_by_i')
    st = State()
    st.pc += [LEN(SEQ(v)) >= 0, 0 <= i, i < n]
    outs = ex.run_function(st, '_item_by_i', [CV(v), I(i), I(n)], {})
    ctx.absorb(ex)
    ctx.record_function(m, '_item_by_i', fn, ex.stmts_executed, excluded=['DataFrame / ndarray / Series branches: path precondition "no value is a pandas / numpy object"'])
    islt = Or(TAG(v) == T_LIST, TAG(v) == T_TUPLE)
    seen = set()
    for o in outs:
        hy = ex.facts + o.st.pc
        if o.kind != 'return':
            ctx.post('_item_by_i.never_raises.%s' % o.val, hy, BoolVal(False), kind='safety', witness=wit, replay=rp('item_by_i'))
            continue
        r = o.val
        if r.kind == 'mapped':
            seen.add('mapped')
            s2 = o.st.fork()
            el = r.at(s2, k)
            hk = ex.facts + s2.pc
            ctx.post('_item_by_i.other_length.keeps_type_and_length', hy, And(islt, LEN(SEQ(v)) != n, r.typ == TYPEOFV(v), r.n == LEN(SEQ(v))), witness=wit, replay=rp('item_by_i'))
            ctx.post('_item_by_i.other_length.maps_every_element_by_the_same_function', hk + [0 <= k, k < r.n], val_of(el) == IBI(VA(SEQ(v), k), i, n),
                     witness=wit, replay=rp('item_by_i'))
        elif r.kind == 'cv':
            seen.add('cv')
            ctx.post('_item_by_i.same_length_is_matched_by_index', hy + [islt, LEN(SEQ(v)) == n], r.t == VA(SEQ(v), i), witness=wit, replay=rp('item_by_i'))
            ctx.post('_item_by_i.non_container_is_broadcast', hy + [Not(islt)], r.t == v, witness=wit, replay=rp('item_by_i'))
            ctx.post('_item_by_i.value_path_only_for_matched_or_non_container', hy, Or(Not(islt), LEN(SEQ(v)) == n), witness=wit, replay=rp('item_by_i'))
        else:
            raise OutOfSubset('_item_by_i returns a %s' % r.kind)
    if seen != {'mapped', 'cv'}:
        raise OutOfSubset('_item_by_i: expected the matched / broadcast paths and the element-wise path, found %s' % sorted(seen))
    # ---- _item_by_key (called by loops._wrapped without an index)
    fn = m.func('_item_by_key')
    key, d0 = Const('KEY', Val), Const('DICT0', Val)
    lift = Lift(by_contract=('_item_by_key',))
    ex = Exec(m, [lift, Conts(), TypePreds()], inline={'_item_by_key': (m, fn)}, name='_item_by_key')
    st = State()
    st.pc += [LEN(SEQ(v)) >= 0, DHAS(d0, key),
              Implies(SK(v) == SK(d0), DHAS(v, key))]          # equal sorted key lists: same keys (instance of the model axiom for the key at hand)
    outs = ex.run_function(st, '_item_by_key', [CV(v), CV(key), SV('sortedkeys', SK(d0)), NONE], {})
    ctx.absorb(ex)
    ctx.record_function(m, '_item_by_key', fn, ex.stmts_executed, excluded=['Series / DataFrame / ndarray branches: path precondition "no value is a pandas / numpy object"',
                                                                           'positional index i given (only the DataFrame branch of _wrapped passes one)'])
    seen = set()
    for o in outs:
        hy = ex.facts + o.st.pc
        if o.kind != 'return':
            ctx.post('_item_by_key.never_raises.%s' % o.val, hy, BoolVal(False), kind='safety', witness=wit, replay=rp('item_by_key'))
            continue
        r = o.val
        if r.kind == 'dictmapped':
            seen.add('mapped')
            s2 = o.st.fork()
            kv, el, pend = r.at(s2, k)
            hk = ex.facts + s2.pc
            ctx.post('_item_by_key.other_keys.keeps_type_and_keys', hy, And(TAG(v) == T_DICT, SK(v) != SK(d0), r.typ == TYPEOFV(v), r.n == LEN(SEQ(v))), witness=wit, replay=rp('item_by_key'))
            ctx.post('_item_by_key.other_keys.maps_every_value_by_the_same_function', hk + [0 <= k, k < r.n],
                     And(val_of(kv) == VA(SEQ(v), k), val_of(el) == IBK(DGET(v, VA(SEQ(v), k)), key, SK(d0))), witness=wit, replay=rp('item_by_key'))
        elif r.kind == 'cv':
            seen.add('cv')
            ctx.post('_item_by_key.same_keys_is_matched_by_key', hy + [TAG(v) == T_DICT, SK(v) == SK(d0)], r.t == DGET(v, key), witness=wit, replay=rp('item_by_key'))
            ctx.post('_item_by_key.non_dict_is_broadcast', hy + [TAG(v) != T_DICT], r.t == v, witness=wit, replay=rp('item_by_key'))
            ctx.post('_item_by_key.value_path_only_for_matched_or_non_dict', hy, Or(TAG(v) != T_DICT, SK(v) == SK(d0)), witness=wit, replay=rp('item_by_key'))
        else:
            raise OutOfSubset('_item_by_key returns a %s' % r.kind)
    if seen != {'mapped', 'cv'}:
        raise OutOfSubset('_item_by_key: expected the matched / broadcast paths and the value-wise path, found %s' % sorted(seen))
    ctx.trust('model axiom: dicts whose sorted key lists are equal have the same keys (used for the key at hand)')


def wrapped_section(ctx):
    """loops._wrapped(arg, args, kwargs) for dict / list / tuple / leaf: the result has the class of arg and its keys / length, and the element under a key /
    at an index is the recursive result on (that element, companions selected by key / index); a leaf is function(arg, *args, **kwargs)."""
    from pyvc.th_cont import (Lift, Args, Kw, ALEN, AAT, KWHAS, KWGET, TYPEOFV, INTYPES, ISINSTV, DHAS, DGET, SK, DEPTHV, IBI, IBK, WRAP, APPLY)
    m = ctx.mod('_loop')
    fn = m.func('loops._wrapped')
    arg, ARGS, KWS = Const('ARG', Val), Const('ARGS', Args), Const('KWS', Kw)
    NA = ALEN(ARGS)
    q, J = Ints('Q J')
    kk = Const('KK', Val)
    wit = dict(site=IntVal(0))
    lift = Lift(root=arg)
    ex = Exec(m, [lift, Conts(), TypePreds()], inline={'loops._wrapped': (m, fn)}, name='_wrapped')
    st = State()
    st.pc += [NA >= 0, LEN(SEQ(arg)) >= 0]
    args_sv = SV('cvs', None, n=NA, at=lambda s_, j_: CV(AAT(ARGS, j_)))
    outs = ex.run_function(st, 'loops._wrapped', [SV('obj', None, cls='loops'), CV(arg), args_sv, SV('kwmap', KWS)], {})
    ctx.absorb(ex)
    ctx.record_function(m, 'loops._wrapped', fn, ex.stmts_executed,
                        excluded=['DataFrame / Series / ndarray branches: path precondition "no value is a pandas / numpy object"'])
    seen = set()

    def last_call(name, since):
        for c in reversed(lift.calls[since:]):
            if c[0] == name:
                return c
        raise OutOfSubset('no call of %s recorded' % name)
    for o in outs:
        hy = ex.facts + o.st.pc
        if o.kind != 'return':
            ctx.post('_wrapped.never_raises.%s' % o.val, hy, BoolVal(False), kind='safety', witness=wit, replay=rp('wrapped'))
            continue
        r = o.val
        if r.kind == 'dictmapped':
            seen.add('dict')
            s2 = o.st.fork()
            mark = len(lift.calls)
            kv, el, pend = r.at(s2, J)
            hj = ex.facts + s2.pc + [0 <= J, J < r.n]
            keyJ = VA(SEQ(arg), J)
            _, cst, c = last_call('_wrapped', mark)
            ctx.post('_wrapped.dict.result_has_the_class_and_keys_of_arg', hy, And(TAG(arg) == T_DICT, r.typ == TYPEOFV(arg), r.src == arg, r.n == LEN(SEQ(arg))), witness=wit, replay=rp('wrapped'))
            ctx.post('_wrapped.dict.only_dicts_of_a_lifted_class_are_mapped', hy, INTYPES(TYPEOFV(arg)), witness=wit, replay=rp('wrapped'))
            ctx.post('_wrapped.dict.keys_in_order', hj, val_of(kv) == keyJ, witness=wit, replay=rp('wrapped'))
            ctx.post('_wrapped.dict.value_is_recursive_result_on_the_value', hj, And(val_of(el) == WRAP(DGET(arg, keyJ), c['A'], c['K'])), witness=wit, replay=rp('wrapped'))
            ctx.post('_wrapped.dict.positional_companions_selected_by_key', hj + [0 <= q, q < NA],
                     And(ALEN(c['A']) == NA, AAT(c['A'], q) == IBK(AAT(ARGS, q), keyJ, SK(arg))), witness=wit, replay=rp('wrapped'))
            ctx.post('_wrapped.dict.keyword_companions_selected_by_key', hj,
                     And(KWHAS(c['K'], kk) == KWHAS(KWS, kk), Implies(KWHAS(KWS, kk), KWGET(c['K'], kk) == IBK(KWGET(KWS, kk), keyJ, SK(arg)))), witness=wit, replay=rp('wrapped'))
            for p_ in pend:
                ctx.post('_wrapped.dict.element_never_raises.%s' % p_.val, ex.facts + p_.st.pc + [0 <= J, J < r.n], BoolVal(False), kind='safety', witness=wit, replay=rp('wrapped'))
        elif r.kind == 'mapped':
            seen.add('list')
            s2 = o.st.fork()
            mark = len(lift.calls)
            el = r.at(s2, J)
            hj = ex.facts + s2.pc + [0 <= J, J < r.n]
            _, cst, c = last_call('_wrapped', mark)
            nn = LEN(SEQ(arg))
            ctx.post('_wrapped.list.result_has_the_class_and_length_of_arg', hy, And(Or(TAG(arg) == T_LIST, TAG(arg) == T_TUPLE), r.typ == TYPEOFV(arg), r.n == nn), witness=wit, replay=rp('wrapped'))
            ctx.post('_wrapped.list.only_instances_of_a_lifted_class_are_mapped', hy, And(ISINSTV(arg), TAG(arg) != T_DICT), witness=wit, replay=rp('wrapped'))
            ctx.post('_wrapped.list.element_is_recursive_result_on_the_element', hj, val_of(el) == WRAP(VA(SEQ(arg), J), c['A'], c['K']), witness=wit, replay=rp('wrapped'))
            ctx.post('_wrapped.list.positional_companions_selected_by_index', hj + [0 <= q, q < NA],
                     And(ALEN(c['A']) == NA, AAT(c['A'], q) == IBI(AAT(ARGS, q), J, nn)), witness=wit, replay=rp('wrapped'))
            ctx.post('_wrapped.list.keyword_companions_selected_by_index', hj,
                     And(KWHAS(c['K'], kk) == KWHAS(KWS, kk), Implies(KWHAS(KWS, kk), KWGET(c['K'], kk) == IBI(KWGET(KWS, kk), J, nn))), witness=wit, replay=rp('wrapped'))
        elif r.kind == 'cv':
            seen.add('leaf')
            _, cst, c = last_call('function', 0)
            ctx.post('_wrapped.leaf.only_for_non_containers', hy, Not(Or(And(TAG(arg) == T_DICT, INTYPES(TYPEOFV(arg))), And(ISINSTV(arg), TAG(arg) != T_DICT))), witness=wit, replay=rp('wrapped'))
            ctx.post('_wrapped.leaf.is_the_function_applied_to_arg_and_all_companions', hy + [0 <= q, q < NA],
                     And(r.t == APPLY(arg, c['A'], c['K']), ALEN(c['A']) == NA, AAT(c['A'], q) == AAT(ARGS, q), c['K'] == KWS), witness=wit, replay=rp('wrapped'))
        else:
            raise OutOfSubset('loops._wrapped returns a %s' % r.kind)
    if seen != {'dict', 'list', 'leaf'}:
        raise OutOfSubset('loops._wrapped: expected dict, list / tuple and leaf paths, found %s' % sorted(seen))
    ctx.cover('_wrapped.list_path_reachable', [ISINSTV(arg), TAG(arg) == T_LIST, LEN(SEQ(arg)) == 2, NA == 1])
    ctx.trust('WRAP(arg, args, kwargs) names the result of loops._wrapped; by structural induction on the nesting depth the obligations above give: same shape and '
              'container classes, leaves = function(leaf, companions selected along the path)')


def wrapped_prelude_section(ctx):
    """loops.wrapped(self, *args, **kwargs) called with at least one positional argument (how a lifted function is normally called; wrapper.__call__ forwards
    the caller's containers: C18): the first positional argument is what is looped over, the remaining positionals and all keywords are its companions -
    the result is self._wrapped(args[0], args[1:], kwargs).  Series first arguments are excluded by the path precondition (no pandas / numpy values);
    calls with keywords only (first argument popped from kwargs by name) are bounded-checked only."""
    from pyvc.th_cont import Lift, Args, Kw, ALEN, AAT, WRAP
    m = ctx.mod('_loop')
    fn = m.func('loops.wrapped')
    ARGS, KWS = Const('ARGS', Args), Const('KWS', Kw)
    NA = ALEN(ARGS)
    q = Int('Q')
    wit = dict(site=IntVal(0))
    lift = Lift(by_contract=('_wrapped', 'function'))
    ex = Exec(m, [lift, Conts(), TypePreds()], inline={'loops.wrapped': (m, fn)}, name='wrapped.positional')
    st = State()
    st.pc += [NA >= 1]
    args_sv = SV('cvs', None, n=NA, at=lambda s_, j_: CV(AAT(ARGS, j_)))
    outs = ex.run_function(st, 'loops.wrapped', [SV('obj', None, cls='loops')], {'*': args_sv, '**': SV('kwmap', KWS)})
    ctx.absorb(ex)
    ctx.record_function(m, 'loops.wrapped', fn, ex.stmts_executed,
                        excluded=['no positional argument (the first argument given by keyword is popped from kwargs): bounded stand-in only',
                                  'pd.Series first argument: path precondition "no value is a pandas / numpy object"'])
    nret = 0
    for o in outs:
        hy = ex.facts + o.st.pc
        if o.kind != 'return':
            ctx.post('wrapped.positional.never_raises.%s' % o.val, hy, BoolVal(False), kind='safety', witness=wit, replay=rp('wrapped_prelude'))
            continue
        nret += 1
        calls = [c for c in lift.calls if c[0] == '_wrapped']
        ctx.post('wrapped.positional.one_call_of__wrapped_and_none_of_the_function', hy, BoolVal(len(calls) == 1 and not [c for c in lift.calls if c[0] == 'function']),
                 witness=wit, replay=rp('wrapped_prelude'))
        if len(calls) != 1 or o.val.kind != 'cv':
            continue
        c = calls[0][2]
        ctx.post('wrapped.positional.returns_the_result_of__wrapped', hy, o.val.t == WRAP(val_of(c['arg']), c['A'], c['K']), witness=wit, replay=rp('wrapped_prelude'))
        ctx.post('wrapped.positional.loops_over_the_first_positional_argument', hy, val_of(c['arg']) == AAT(ARGS, 0), witness=wit, replay=rp('wrapped_prelude'))
        ctx.post('wrapped.positional.the_other_positionals_are_the_companions', hy + [0 <= q, q < NA - 1], And(ALEN(c['A']) == NA - 1, AAT(c['A'], q) == AAT(ARGS, q + 1)),
                 witness=wit, replay=rp('wrapped_prelude'))
        ctx.post('wrapped.positional.a_single_argument_has_no_positional_companions', hy + [NA == 1], ALEN(c['A']) == 0, witness=wit, replay=rp('wrapped_prelude'))
        ctx.post('wrapped.positional.keywords_are_handed_on_unchanged', hy, c['K'] == KWS, witness=wit, replay=rp('wrapped_prelude'))
    if nret == 0:
        raise OutOfSubset('loops.wrapped has no returning path')
    ctx.cover('wrapped.positional.two_arguments_reachable', [NA == 2])


def attach_replays(ctx):
    """obligations generated inside the executor (measure decrease, preconditions of axioms, safety) get the native re-check of their section"""
    kinds = (('wrapped.positional.', 'wrapped_prelude'), ('is_iterable.', 'is_iterable'), ('len0.', 'len0'), ('_wrapped.', 'wrapped'), ('_item_by_i.', 'item_by_i'), ('_item_by_key.', 'item_by_key'), ('zipper.', 'zipper'), ('lens.', 'lens'),
             ('as_list.', 'as_list'), ('as_tuple.', 'as_list'))
    for ob in ctx.obligations:
        short = ob.name[len(PROP) + 1:]
        for prefix, kind in kinds:
            if short.startswith(prefix) and not ob.witness:
                ob.witness = dict(site=IntVal(0))
                ob.meta['replay'] = (lambda model, kind=kind, nm=('as_tuple' if short.startswith('as_tuple') else 'as_list'): dict(kind=kind, name=nm))
                break


def build(ctx):
    frame_section(ctx)
    ctx.guarded('as_list', lambda: aslist_section(ctx))
    ctx.guarded('is_iterable', lambda: predicates_section(ctx, 'is_iterable'))
    ctx.guarded('len0', lambda: predicates_section(ctx, 'len0'))
    ctx.guarded('lens', lambda: lens_section(ctx))
    ctx.guarded('zipper', lambda: zipper_section(ctx))
    ctx.guarded('_item_by', lambda: item_by_section(ctx))
    ctx.guarded('_wrapped', lambda: wrapped_section(ctx))
    ctx.guarded('wrapped.positional', lambda: wrapped_prelude_section(ctx))
    attach_replays(ctx)
