"""C20 - perdictable evaluates a function once per row of the keyed join of its inputs.

Functions under contract (real source): perdictable._value_output - the two comprehensions that decide *which rows are (re)computed*:
  run_expiry = [value is None or value>=today for value in ds[_expiry]]
  values     = [row[self.function] if (rin or rex) else c for row, rin, rex, c in zip(rows, run_if_none, run_expiry, cache)]
Obligations: a row's previously computed value is kept exactly when its expiry is a date in the past (strictly before today) and the
row is not flagged for recomputation because a value is missing; otherwise the value is f applied to that row; f is applied at most once
per row and only to rows that are (re)computed (one evaluation site, guarded by the condition).
Bounded only (rac/C20.py): join(inputs, on, defaults) - inner join of inputs without defaults, outer join with defaults, sorted by key -
which is a composition of dictable.join / xor / sort calls (their contracts are C02 / C07); scalar-only calls; run_if_none; _dict_output.
"""
import ast
import z3
from z3 import And, Or, Not, If, Implies, Int, IntVal, BoolVal, ForAll, Const, Function, IntSort, BoolSort, Select

from pyvc.front import select, SelectorError, OutOfSubset, find, walk_no_defs
from pyvc.symex import Exec, State
from pyvc.theories import TypePreds, Dates
from pyvc.th_lists import Lists, Val, NONEV, VAL, INT, fresh_list, V
from pyvc.th_tables import Tables, Key, KEY, fresh_table, wf, column, key_of
from pyvc.sv import SV, I, B, T, DT, DAYUS, fresh_name, lex_le

PROP = 'C20'

DTO = Function('date_ordinal', Val, IntSort())
DTU = Function('date_micros', Val, IntSort())
FROW = Function('f_of_row', IntSort(), Val)       # the user function applied to row j (opaque)


class Perd:
    def __init__(self):
        self.events = []

    def name(self, ex, st, ident):
        if ident == '_expiry':
            return SV('key', key_of('expiry'))
        return NotImplemented

    def attr(self, ex, st, e, recv, name):
        if recv.kind == 'obj' and name == 'function':
            return SV('userfunc')
        return NotImplemented

    def subscript(self, ex, st, e, recv, idx):
        if recv.kind == 'table' and idx.kind == 'key':
            ex.raise_if(st, Not(recv.dom[idx.t]), 'KeyError')
            return column(recv, idx.t)
        if recv.kind == 'rowmap' and idx.kind == 'userfunc':
            # Dict.__getitem__(callable) applies the callable to the row: one evaluation of f (C16)
            ex.use('callee contract:row[f] for a callable f evaluates f once with arguments taken from the row (Dict.__getitem__, C16)')
            self.events.append((list(st.guards), recv.f['index']))
            return V(FROW(recv.f['index']))
        return NotImplemented

    def compare(self, ex, st, e, op, a, b):
        if a.kind == 'val' and b.kind == 'dt' and op in ('GtE', 'Gt', 'Lt', 'LtE'):
            ex.raise_if(st, a.t == NONEV, 'TypeError')
            ex.use('model:a non-None expiry is a datetime (ordinal, microseconds) compared with today')
            x = DT(DTO(a.t), DTU(a.t))
            from pyvc.sv import lex_lt
            return {'GtE': lex_le(b, x), 'Gt': lex_lt(b, x), 'Lt': lex_lt(x, b), 'LtE': lex_le(x, b)}[op]
        return NotImplemented

    def iterate(self, ex, st, it):
        if it.kind == 'table':
            n = st.ghost['nrows']
            k = Const(fresh_name('k!it'), Key)
            ex.use('callee contract:iterating a table yields its rows as mappings column -> cell (C01)')
            return n, (lambda st2, j: SV('rowmap', None, dom=it.dom, vals=z3.Lambda([k], Select(Select(it.carr, k), j)), index=j))
        return NotImplemented


def build(ctx):
    m = ctx.mod('_perdictable')
    fdef = m.func('perdictable._value_output')
    n = Int('N')
    today = DT(Int('TODAY_o'), Int('TODAY_us'))

    def section():
        comps = [c for c in walk_no_defs(fdef) if isinstance(c, ast.ListComp)]
        exp_c = [c for c in comps if 'today' in ast.unparse(c) and '_expiry' in ast.unparse(c.generators[0].iter)]
        val_c = [c for c in comps if isinstance(c.elt, ast.IfExp) and 'self.function' in ast.unparse(c.elt)]
        if len(exp_c) != 1 or len(val_c) != 1:
            raise SelectorError('_value_output: expected one run_expiry comprehension and one values comprehension')
        # the names the values comprehension zips: (rows, run_if_none, run_expiry, cache)
        zargs = val_c[0].generators[0].iter
        if not (isinstance(zargs, ast.Call) and ast.unparse(zargs.func) == 'zip' and len(zargs.args) == 4):
            raise SelectorError('values comprehension does not zip (rows, run_if_none, run_expiry, cache)')
        rows_n, rin_n, rex_n, cache_n = [ast.unparse(a) for a in zargs.args]
        # run_expiry must be assigned from the expiry comprehension
        asg = [s for s in walk_no_defs(fdef) if isinstance(s, ast.Assign) and s.value is exp_c[0]]
        ctx.post('_value_output.run_expiry_feeds_the_gate', [], BoolVal(len(asg) == 1 and ast.unparse(asg[0].targets[0]) == rex_n), kind='syntactic')

        # ---- run_expiry[j]
        ds = fresh_table('ds')
        th = Perd()
        ex = Exec(m, [th, Tables(), Lists(), Dates(), TypePreds()], name='_value_output.run_expiry')
        st = State(env={'ds': ds, 'today': today})
        ek = key_of('expiry')
        st.pc += [wf(ds, n), ds.dom[ek], 0 <= today.us, today.us < DAYUS]
        v1 = ex.eval(st, exp_c[0])
        ctx.absorb(ex)
        for o in st.pending:
            ctx.post('_value_output.run_expiry.never_raises.%s' % o.val, ex.facts + o.st.pc, BoolVal(False), kind='safety')
        j = Int('J')
        s2 = st.fork()
        e_j = v1.at(s2, j)
        cell = ds.carr[ek][j]
        past = And(cell != NONEV, Or(DTO(cell) < today.t, And(DTO(cell) == today.t, DTU(cell) < today.us)))
        ctx.post('_value_output.run_expiry.one_flag_per_row', ex.facts + st.pc, v1.n == n)
        ctx.post('_value_output.run_expiry.false_exactly_for_an_expiry_in_the_past', ex.facts + s2.pc + [0 <= j, j < n], e_j.t == Not(past))

        # ---- values[j]
        rows = fresh_table('rows')
        RIN, REX = fresh_list(INT, 'run_if_none'), fresh_list(INT, 'run_expiry')
        cache = fresh_list(VAL, 'cache')
        th2 = Perd()
        ex2 = Exec(m, [th2, Tables(), Lists(), TypePreds()], name='_value_output.values')
        st2 = State(env={rows_n: rows, rin_n: RIN, rex_n: REX, cache_n: cache, 'self': SV('obj', None, cls='perdictable')})
        st2.ghost['nrows'] = n
        st2.pc += [wf(rows, n), RIN.t == n, REX.t == n, cache.t == n, n >= 0]
        v2 = ex2.eval(st2, val_c[0])
        ctx.absorb(ex2)
        for o in st2.pending:
            ctx.post('_value_output.values.never_raises.%s' % o.val, ex2.facts + o.st.pc, BoolVal(False), kind='safety')
        s3 = st2.fork()
        th2.events = []
        val_j = v2.at(s3, j)
        run = Or(RIN.arrs[0][j] != 0, REX.arrs[0][j] != 0)
        ctx.post('_value_output.values.one_value_per_row', ex2.facts + st2.pc, v2.n == n)
        ctx.post('_value_output.values.recomputed_or_kept', ex2.facts + s3.pc + [0 <= j, j < n], val_j.t == If(run, FROW(j), cache.arrs[0][j]))
        # f is evaluated at one site per row, for that row, and only under the gate
        ev = th2.events
        ctx.post('_value_output.values.f_evaluated_at_most_once_per_row', [], BoolVal(len(ev) == 1), kind='syntactic')
        if len(ev) == 1:
            guards, idx = ev[0]
            ctx.post('_value_output.values.f_evaluated_exactly_for_recomputed_rows', ex2.facts + s3.pc + [0 <= j, j < n],
                     And(idx == j, (And(*guards) if guards else BoolVal(True)) == run))
        ctx.record_function(m, 'perdictable._value_output', fdef, {id(s) for s in walk_no_defs(fdef) if isinstance(s, ast.Assign) and s.value in (exp_c[0], val_c[0])},
                            how='the two gating comprehensions are symbolically executed',
                            excluded=['join of the inputs, scalar-only calls, run_if_none, output assembly: bounded only'])
        ctx.cover('_value_output.gate_both_ways', [wf(rows, n), n == 2, RIN.t == 2, REX.t == 2, RIN.arrs[0][0] == 0, REX.arrs[0][0] == 0, RIN.arrs[0][1] == 1])
    ctx.guarded('_value_output', section)
    ctx.trust('a comprehension evaluates its element expression exactly once per element (so one guarded evaluation site means at most one call of f per row)')
