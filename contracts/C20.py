"""C20 - perdictable evaluates a function once per row of the keyed join of its inputs.

Functions under contract (real source): perdictable._value_output - the two comprehensions that decide *which rows are (re)computed*:
  run_expiry = [value is None or value>=today for value in ds[_expiry]]
  values     = [row[self.function] if (rin or rex) else c for row, rin, rex, c in zip(rows, run_if_none, run_expiry, cache)]
Obligations: a row's previously computed value is kept exactly when its expiry is a date in the past (strictly before today) and the
row is not flagged for recomputation because a value is missing; otherwise the value is f applied to that row; f is applied at most once
per row and only to rows that are (re)computed (one evaluation site, guarded by the condition).
  join(inputs, on, defaults) with _join_dictable_with_defaults and reducer inlined, at the level of key sets: every table input is an uninterpreted set K_i of key
  values (keys unique per table), the dictable operations it composes are taken by their contracts (d1 * d2: keys on both sides - C02 join; d1 / d2: keys of d1 that
  d2 lacks - C02 xor; d1 + d2: rows of both - C01 concat; d(**constants); d.sort(on) - C07).  One symbolic run per configuration (0..2 inputs without a default,
  0..2 with, with / without a scalar input).  Obligations: a row for exactly the keys present in every input without a default (the union of the defaulted inputs'
  keys when there is none); every input has its column; a defaulted input's column holds the input's own value exactly where the input has the key and the default
  elsewhere; scalars are broadcast; the result is sorted by `on`; the concats only ever meet operands with the same columns and no common key.
  perdictable._value_output up to its call of join: the expiry is an input and both it and the previously computed column are registered with default None
  (outer-joined), whether the defaults come from the signature or are given.
Assumed: _item (column selection / renaming per input) keeps the rows of a table input.
Bounded only (rac/C20.py): row-level values and order inside join, _item, scalar-only calls, run_if_none, _dict_output.
"""
import ast
import z3
from z3 import And, Or, Not, If, Implies, Int, IntVal, BoolVal, ForAll, Const, Function, IntSort, BoolSort, Select

from pyvc.front import select, SelectorError, OutOfSubset, find, walk_no_defs
from pyvc.symex import Exec, State
from pyvc.theories import TypePreds, Dates
from pyvc.th_lists import Lists, Val, NONEV, VAL, INT, fresh_list, V
from pyvc.th_tables import Tables, Key, KEY, fresh_table, wf, column, key_of
from pyvc.sv import SV, I, B, S, T, NONE, DT, DAYUS, fresh_name, lex_le

PROP = 'C20'

DTO = Function('date_ordinal', Val, IntSort())
DTU = Function('date_micros', Val, IntSort())
FROW = Function('f_of_row', IntSort(), Val)       # the user function applied to row j (opaque)


class Perd:
    def __init__(self):
        self.events = []

    def name(self, ex, st, ident):
        if ident == '_expiry':
            return SV('key', key_of('expiry'))
        return NotImplemented

    def attr(self, ex, st, e, recv, name):
        if recv.kind == 'obj' and name == 'function':
            return SV('userfunc')
        return NotImplemented

    def subscript(self, ex, st, e, recv, idx):
        if recv.kind == 'table' and idx.kind == 'key':
            ex.raise_if(st, Not(recv.dom[idx.t]), 'KeyError')
            return column(recv, idx.t)
        if recv.kind == 'rowmap' and idx.kind == 'userfunc':
            # Dict.__getitem__(callable) applies the callable to the row: one evaluation of f (C16)
            ex.use('callee contract:row[f] for a callable f evaluates f once with arguments taken from the row (Dict.__getitem__, C16)')
            self.events.append((list(st.guards), recv.f['index']))
            return V(FROW(recv.f['index']))
        return NotImplemented

    def compare(self, ex, st, e, op, a, b):
        if a.kind == 'val' and b.kind == 'dt' and op in ('GtE', 'Gt', 'Lt', 'LtE'):
            ex.raise_if(st, a.t == NONEV, 'TypeError')
            ex.use('model:a non-None expiry is a datetime (ordinal, microseconds) compared with today')
            x = DT(DTO(a.t), DTU(a.t))
            from pyvc.sv import lex_lt
            return {'GtE': lex_le(b, x), 'Gt': lex_lt(b, x), 'Lt': lex_lt(x, b), 'LtE': lex_le(x, b)}[op]
        return NotImplemented

    def iterate(self, ex, st, it):
        if it.kind == 'table':
            n = st.ghost['nrows']
            k = Const(fresh_name('k!it'), Key)
            ex.use('callee contract:iterating a table yields its rows as mappings column -> cell (C01)')
            return n, (lambda st2, j: SV('rowmap', None, dom=it.dom, vals=z3.Lambda([k], Select(Select(it.carr, k), j)), index=j))
        return NotImplemented


# ====================================================================================================== join(inputs, on, defaults) at the level of key sets
from z3 import DeclareSort, ArraySort, Array, EmptySet, SetUnion, SetIntersect, SetDifference
KeyV = DeclareSort('KeyTuple')        # a value of the key columns `on`
KS = ArraySort(KeyV, BoolSort())


def ktable(keys, act, sorted_by=None, has=None):
    """a table keyed by `on`, at set level: which keys have a row (keys unique per table), and for every value column the set of keys whose row holds the
    input's own value (the other rows hold the default given for that input); `has`: whether the column is there at all (symbolic after a merge of paths)"""
    return SV('ktable', None, keys=keys, act=dict(act), has=dict(has) if has is not None else {c: BoolVal(True) for c in act}, sorted_by=sorted_by)


def sdict(items):
    return SV('sdict', None, items=dict(items))


class KeySets:
    """static dicts (inputs / defaults / renames), and tables as key sets with the contracts of the dictable operations join composes:
       d1 * d2  inner join on the key columns: the keys present on both sides, the value columns of both (C02: join.post.*)
       d1 / d2  anti-join: the keys of d1 that d2 lacks, the columns of d1 (C02: xor.mode0.post.*)
       d(**kw)  adds constant columns (dictable.__call__ with non-callable values: bounded only)
       d1 + d2  concat: rows of both, union of the columns (C01: __add__.*); stated for operands with the same value columns
       d.sort(on)  the same rows ordered by `on` (C07)"""

    def __init__(self):
        self.joins = []

    def expr(self, ex, st, e):
        if isinstance(e, ast.Dict):
            items = {}
            for k, v in zip(e.keys, e.values):
                kk = ex.eval(st, k)
                if kk.kind != 'str' or kk.t is not None:
                    raise OutOfSubset('dict display with a non-literal key')
                items[kk.lit] = ex.eval(st, v)
            return sdict(items)
        if isinstance(e, ast.List) and len(e.elts) == 1:
            return SV('scalarcol', None, of=ex.eval(st, e.elts[0]))
        return NotImplemented

    def name(self, ex, st, ident):
        if ident == 'mul' and ident not in st.env:
            return SV('builtin', None, name='mul')
        if ident in ('_data', '_expiry', '_output') and ident not in st.env:
            return S({'_data': 'data', '_expiry': 'expiry', '_output': 'output'}[ident])
        return NotImplemented

    def _static_comp(self, ex, st, e, make):
        if len(e.generators) != 1:
            return NotImplemented
        g = e.generators[0]
        it = ex.eval(st, g.iter)
        if it.kind == 'sitems':
            seq = [T([S(k), v]) for k, v in it.f['of'].f['items'].items()]
        elif it.kind == 'lazylist' and it.f.get('items') is not None:
            seq = it.f['items']
        else:
            return NotImplemented
        out = []
        for x in seq:
            sub = st.fork(); sub.env = dict(st.env); sub.pending = []
            ex.assign(sub, g.target, x, None)
            keep = True
            for c in g.ifs:
                t = z3.simplify(ex.truth(sub, ex.eval(sub, c)))
                if z3.is_false(t):
                    keep = False
                elif not z3.is_true(t):
                    raise OutOfSubset('comprehension filter over a static dict is not decided')
            if keep:
                out.append(make(sub))
            st.pending.extend(sub.pending)
            st.pc = sub.pc
        return out

    def dictcomp(self, ex, st, e):
        def make(sub):
            k = ex.eval(sub, e.key)
            if k.kind != 'str' or k.t is not None:
                raise OutOfSubset('dict comprehension with a non-literal key')
            return k.lit, ex.eval(sub, e.value)
        r = self._static_comp(ex, st, e, make)
        return r if r is NotImplemented else sdict(r)

    def listcomp(self, ex, st, e):
        r = self._static_comp(ex, st, e, lambda sub: ex.eval(sub, e.elt))
        return r if r is NotImplemented else SV('lazylist', None, n=IntVal(len(r)), items=r, at=None)

    def call(self, ex, st, e, fname, args, kwargs):
        a0 = args[0] if args else None
        if fname in ('is_dict',) and len(args) == 1:
            return B(a0.kind == 'sdict')
        if fname == 'is_dictable' and len(args) == 1:
            return B(a0.kind == 'ktable')
        if fname == 'len' and len(args) == 1 and a0.kind == 'sdict':
            return I(len(a0.f['items']))
        if fname == 'len' and len(args) == 1 and a0.kind == 'ktable':
            n = Int(fresh_name('nrows'))
            ex.use('axiom:len(table) == 0 iff it has no key (keys are unique per table)')
            ex.fact(And(n >= 0, (n == 0) == (a0.f['keys'] == EmptySet(KeyV))))
            return I(n)
        if fname == 'list' and len(args) == 1 and a0.kind == 'svalues':
            return SV('lazylist', None, n=IntVal(len(a0.f['of'].f['items'])), items=list(a0.f['of'].f['items'].values()), at=None)
        if fname == 'list' and len(args) == 1 and a0.kind == 'lazylist' and a0.f.get('items') is not None:
            return a0
        if fname == 'reduce' and len(args) == 3 and args[1].kind == 'lazylist' and args[1].f.get('items') is not None:
            ex.use('axiom:reduce(f, xs, init) folds f over xs from the left')
            acc = args[2]
            for x in args[1].f['items']:
                if a0.kind == 'builtin' and a0.f['name'] == 'mul':
                    acc = ex.binop(st, None, 'Mult', acc, x)
                elif a0.kind == 'func':
                    acc = ex.call_func(st, a0, [acc, x], {})
                else:
                    raise OutOfSubset('reduce of %s' % a0.kind)
            return acc
        if fname == '_item' and len(args) == 2:
            ex.use('assumed contract:_item(d, key, on, renames) keeps the rows of a table input and selects / renames its value column to `key`; '
                   'anything else is returned as it is (column selection: bounded only)')
            d, key = args
            if d.kind == 'ktable':
                if key.kind != 'str' or len(d.f['act']) != 1:
                    raise OutOfSubset('_item on a table with %d value columns' % len(d.f['act']))
                return ktable(d.f['keys'], {key.lit: list(d.f['act'].values())[0]}, has={key.lit: list(d.f['has'].values())[0]})
            return d
        if fname == 'as_list' and len(args) == 1 and a0.kind in ('onspec', 'str'):
            return a0 if a0.kind == 'onspec' else SV('lazylist', None, n=IntVal(1), items=[a0], at=None)
        if fname == 'ulist' and len(args) == 1:
            return a0
        if fname == 'argspec_defaults' and len(args) == 1:
            return sdict({})
        if fname == 'join' and len(args) == 1 and set(kwargs) == {'on', 'renames', 'defaults'}:
            self.joins.append((args[0], kwargs))
            return SV('joined')
        return NotImplemented

    def method(self, ex, st, e, recv, mname, args, kwargs):
        if recv.kind == 'sdict':
            if mname == 'items' and not args:
                return SV('sitems', None, of=recv)
            if mname == 'values' and not args:
                return SV('svalues', None, of=recv)
            if mname == 'get' and len(args) == 2 and args[0].kind == 'str':
                return recv.f['items'].get(args[0].lit, args[1])
            if mname == 'update' and len(args) == 1 and args[0].kind == 'sdict' and isinstance(e.func.value, ast.Name):
                new = dict(recv.f['items']); new.update(args[0].f['items'])
                st.env[e.func.value.id] = sdict(new)
                return NONE
        if recv.kind == 'onspec' and mname == 'get':
            return recv
        if recv.kind == 'ktable' and mname == 'sort' and len(args) == 1:
            ex.use('callee contract:d.sort(on) has the rows of d ordered by the columns `on` (C07: dictable.sort)')
            return ktable(recv.f['keys'], recv.f['act'], sorted_by=args[0], has=recv.f['has'])
        return NotImplemented

    def subscript(self, ex, st, e, recv, idx):
        if recv.kind == 'sdict' and idx.kind == 'str':
            if idx.lit not in recv.f['items']:
                ex.raise_if(st, BoolVal(True), 'KeyError')
                return NONE
            return recv.f['items'][idx.lit]
        if recv.kind == 'lazylist' and recv.f.get('items') is not None and idx.kind == 'int' and z3.is_int_value(z3.simplify(idx.t)):
            k = z3.simplify(idx.t).as_long()
            if 0 <= k < len(recv.f['items']):
                return recv.f['items'][k]
        if recv.kind == 'lazylist' and recv.f.get('items') is not None and idx.kind == 'slice' and idx.f.get('step') is None and idx.f.get('hi') is None \
                and idx.f.get('lo') is not None and z3.is_int_value(z3.simplify(idx.f['lo'].t)):
            items = recv.f['items'][z3.simplify(idx.f['lo'].t).as_long():]
            return SV('lazylist', None, n=IntVal(len(items)), items=items, at=None)
        return NotImplemented

    def store_subscript(self, ex, st, tg, recv, idx, v):
        if recv.kind == 'sdict' and idx.kind == 'str':
            new = dict(recv.f['items']); new[idx.lit] = v
            return sdict(new)
        return NotImplemented

    def compare(self, ex, st, e, op, a, b):
        if op in ('In', 'NotIn') and b.kind == 'sdict' and a.kind == 'str':
            return BoolVal((a.lit in b.f['items']) == (op == 'In'))
        return NotImplemented

    # ---- the table operations, by contract
    def binop(self, ex, st, e, op, a, b):
        if a.kind == 'ktable' and b.kind == 'ktable' and op == 'Mult':
            ex.use('callee contract:d1 * d2 is the inner join on the key columns: a row for exactly the keys present on both sides, carrying the value columns of both '
                   '(C02: join.post.*; keys unique per table)')
            keys = SetIntersect(a.f['keys'], b.f['keys'])
            act = {c: SetIntersect(s, keys) for c, s in list(a.f['act'].items()) + list(b.f['act'].items())}
            return ktable(keys, act, has=dict(list(a.f['has'].items()) + list(b.f['has'].items())))
        if a.kind == 'ktable' and b.kind == 'ktable' and op == 'Div':
            ex.use('callee contract:d1 / d2 keeps exactly the rows of d1 whose key d2 lacks, with the columns of d1 (C02: xor.mode0.post.*)')
            keys = SetDifference(a.f['keys'], b.f['keys'])
            return ktable(keys, {c: SetIntersect(s, keys) for c, s in a.f['act'].items()}, has=a.f['has'])
        if a.kind == 'ktable' and b.kind == 'ktable' and op == 'Add':
            return self.concat(ex, st, a, b)
        return NotImplemented

    def concat(self, ex, st, a, b):
        ex.use('callee contract:d1 + d2 has the rows of d1 followed by those of d2 and the union of their columns (C01: __add__.*)')
        cols = sorted(set(a.f['act']) | set(b.f['act']))
        no = BoolVal(False)
        # a column one operand lacks is filled with None, not with a default: the composition is only stated for operands with the same value columns
        ex.oblige(st, 'concat.operands_have_the_same_value_columns', And(*[a.f['has'].get(c, no) == b.f['has'].get(c, no) for c in cols]), kind='pre')
        ex.oblige(st, 'concat.operands_share_no_key', SetIntersect(a.f['keys'], b.f['keys']) == EmptySet(KeyV), kind='pre')
        e0 = EmptySet(KeyV)
        return ktable(SetUnion(a.f['keys'], b.f['keys']), {c: SetUnion(a.f['act'].get(c, e0), b.f['act'].get(c, e0)) for c in cols},
                      has={c: Or(a.f['has'].get(c, no), b.f['has'].get(c, no)) for c in cols})

    def augassign(self, ex, st, s, op, cur, v):
        if op == 'Add' and cur.kind == 'ktable' and v.kind == 'ktable':
            return self.concat(ex, st, cur, v)
        return NotImplemented

    def call_value(self, ex, st, e, fn, args, kwargs):
        if fn.kind == 'ktable' and not args and set(kwargs) <= {'**'}:
            extra = kwargs.get('**', sdict({}))
            if extra.kind != 'sdict':
                raise OutOfSubset('table(**%s)' % extra.kind)
            ex.use('callee contract:d(**{name: value}) adds the column `name` holding the constant value in every row (dictable.__call__: bounded only)')
            act, has = dict(fn.f['act']), dict(fn.f['has'])
            for c, v in extra.f['items'].items():
                # a constant column: the input's own value where it is the broadcast scalar input itself, the default value otherwise
                act[c] = fn.f['keys'] if v.kind == 'scalarcol' else EmptySet(KeyV)
                has[c] = BoolVal(True)
            return ktable(fn.f['keys'], act, has=has)
        return NotImplemented

    def concrete_items(self, ex, st, it):
        if it.kind == 'lazylist' and it.f.get('items') is not None:
            return it.f['items']
        return NotImplemented

    def truth(self, ex, st, v):
        if v.kind == 'sdict':
            return BoolVal(len(v.f['items']) > 0)
        if v.kind == 'ktable':
            ex.use('axiom:a table is falsy iff it has no row')
            return Not(v.f['keys'] == EmptySet(KeyV))
        return NotImplemented

    def is_none(self, ex, st, v):
        if v.kind in ('sdict', 'ktable', 'onspec', 'scalarcol', 'joined', 'lazylist'):
            return BoolVal(False)
        return NotImplemented

    def merge(self, ex, st, cond, a, b):
        if a.kind == 'tuple' and b.kind == 'tuple' and len(a.items) == len(b.items):
            out = []
            for x, y in zip(a.items, b.items):
                mm = x if x is y else self.merge(ex, st, cond, x, y)
                if mm is NotImplemented:
                    return NotImplemented
                out.append(mm)
            return T(out)
        if a.kind == 'sdict' and b.kind == 'sdict' and list(a.f['items']) == list(b.f['items']) and all(a.f['items'][k] is b.f['items'][k] for k in a.f['items']):
            return a
        if a.kind == 'none' and b.kind == 'none':
            return a
        if a.kind == 'ktable' and b.kind == 'ktable':
            cols = sorted(set(a.f['act']) | set(b.f['act']))
            e0, no = EmptySet(KeyV), BoolVal(False)
            return ktable(If(cond, a.f['keys'], b.f['keys']), {c: If(cond, a.f['act'].get(c, e0), b.f['act'].get(c, e0)) for c in cols},
                          sorted_by=a.f.get('sorted_by') if a.f.get('sorted_by') is b.f.get('sorted_by') else None,
                          has={c: If(cond, a.f['has'].get(c, no), b.f['has'].get(c, no)) for c in cols})
        return NotImplemented


def join_obligations(ctx, m):
    """perdictable.join(inputs, on, defaults) with _join_dictable_with_defaults and reducer inlined from the source, over table inputs given as uninterpreted key
    sets K_i and scalar inputs; one symbolic run per configuration (how many table inputs without / with a default, a scalar input or not).
    Postcondition from the statement: a row for exactly the keys present in every table input without a default (when there is none: the keys of some defaulted
    input); every input's column is there; in a defaulted input's column a row holds the input's own value exactly when the input has that key, the default
    otherwise; scalars are broadcast; the result is sorted by `on`."""
    mr = ctx.mod('_reducer')
    fjoin = m.func('join')
    fjd = m.func('_join_dictable_with_defaults')
    inline = {'join': (m, fjoin), '_join_dictable_with_defaults': (m, fjd), 'reducer': (mr, mr.func('reducer'))}
    configs = [(nd, df, sc) for nd in (0, 1, 2) for df in (0, 1, 2) for sc in (0, 1) if nd + df >= 1 and (sc == 0 or (nd, df) in ((1, 1), (2, 0), (0, 2)))]
    for nd, df, sc in configs:
        label = 'join.%dplain_%ddefaulted%s' % (nd, df, '_1scalar' if sc else '')
        names_nd = ['p%d' % i_ for i_ in range(nd)]
        names_df = ['q%d' % i_ for i_ in range(df)]
        K = {nm: Array('K_' + nm, KeyV, BoolSort()) for nm in names_nd + names_df}
        inputs = {}
        # the defaulted inputs first and last: the order of the inputs must not matter
        order = names_df[:1] + names_nd + names_df[1:]
        for nm in order:
            inputs[nm] = ktable(K[nm], {'data': K[nm]})
        if sc:
            inputs['s'] = V(Const('SCALAR', Val))
        defaults = {nm: V(Const('DEFAULT_' + nm, Val)) for nm in names_df}
        defaults['not_an_input'] = V(Const('DEFAULT_other', Val))
        on = SV('onspec')
        th = KeySets()
        ex = Exec(m, [th, TypePreds()], inline=inline, name=label)
        st = State()
        outs = ex.run_function(st, 'join', [sdict(inputs)], {'on': on, 'renames': NONE, 'defaults': sdict(defaults)})
        ctx.absorb(ex)
        ctx.record_function(m, 'join', fjoin, ex.stmts_executed, excluded=['no table input at all (dictable(non_dictables)); _item (column selection / renaming) by assumed contract'])
        ctx.record_function(m, '_join_dictable_with_defaults', fjd, ex.stmts_executed)
        ctx.record_function(mr, 'reducer', inline['reducer'][1], ex.stmts_executed)
        want = None
        for nm in names_nd:
            want = K[nm] if want is None else SetIntersect(want, K[nm])
        if want is None:
            for nm in names_df:
                want = K[nm] if want is None else SetUnion(want, K[nm])
        nret = 0
        for out in outs:
            hy = ex.facts + out.st.pc
            if out.kind != 'return':
                ctx.post(label + '.never_raises.%s' % out.val, hy, BoolVal(False), kind='safety')
                continue
            nret += 1
            r = out.val
            if r.kind != 'ktable':
                ctx.post(label + '.returns_a_table', hy, BoolVal(False))
                continue
            ctx.post(label + '.a_row_for_exactly_the_keys_of_every_input_without_default', hy, r.f['keys'] == want)
            ctx.post(label + '.every_input_has_its_column', hy, And(BoolVal(set(r.f['act']) <= set(inputs)), *[r.f['has'].get(nm, BoolVal(False)) for nm in inputs]))
            for nm in inputs:
                if nm not in r.f['act']:
                    continue
                if nm in names_df:
                    ctx.post(label + '.defaulted_input_%s.own_value_where_it_has_the_key_default_elsewhere' % nm, hy, r.f['act'][nm] == SetIntersect(want, K[nm]))
                else:
                    ctx.post(label + '.input_%s.own_value_in_every_row' % nm, hy, r.f['act'][nm] == want)
            ctx.post(label + '.sorted_by_on', hy, BoolVal(r.f.get('sorted_by') is on))
        if nret == 0:
            raise OutOfSubset('%s: no returning path' % label)
    k1, k2 = Const('k1!cv', KeyV), Const('k2!cv', KeyV)
    A, Bq = Array('K_p0', KeyV, BoolSort()), Array('K_q0', KeyV, BoolSort())
    ctx.cover('join.key_sets_overlap_partly', [A[k1], Not(Bq[k1]), A[k2], Bq[k2], k1 != k2])


def value_output_defaults_obligations(ctx, m):
    """perdictable._value_output up to its call of join: the previously computed column and the expiry are registered with a default (None), i.e. they are
    outer-joined - a key without previous value / without expiry is kept (and computed), not dropped."""
    fdef = m.func('perdictable._value_output')
    body = [s for s in fdef.body if not (isinstance(s, ast.Expr) and isinstance(s.value, ast.Constant))]
    calls = [k_ for k_, s in enumerate(body) if isinstance(s, ast.Assign) and isinstance(s.value, ast.Call) and ast.unparse(s.value.func) == 'join']
    if len(calls) != 1:
        raise SelectorError('_value_output: expected one `ds = join(inputs, on = ..., renames = ..., defaults = ...)`')
    th = KeySets()

    class Self:
        def attr(self, ex, st, e, recv, name):
            if recv.kind == 'obj' and name in ('on',):
                return SV('onspec')
            if recv.kind == 'obj' and name == 'col':
                return S('data')
            if recv.kind == 'obj' and name == 'defaults':
                return st.ghost['self.defaults']
            if recv.kind == 'obj' and name in ('renames', 'function'):
                return NONE
            return NotImplemented
    for given in (False, True):
        label = '_value_output.defaults_%s' % ('given' if given else 'from_the_signature')
        ex = Exec(m, [Self(), th, TypePreds()], name=label)
        st = State(env={'self': SV('obj', None, cls='perdictable'), 'expiry': V(Const('EXPIRY', Val)), 'inputs': sdict({'a': V(Const('A', Val))})})
        st.ghost['self.defaults'] = sdict({'a': V(Const('DA', Val))}) if given else NONE
        th.joins = []
        outs = ex.run_block(st, body[:calls[0] + 1])
        ctx.absorb(ex)
        ok = [o for o in outs if o.kind == 'next']
        for o in outs:
            if o.kind != 'next':
                ctx.post(label + '.never_raises.%s' % o.val, ex.facts + o.st.pc, BoolVal(False), kind='safety')
        if len(ok) != 1 or len(th.joins) != 1:
            raise OutOfSubset('_value_output: the statements up to join have %d normal exits / %d join calls' % (len(ok), len(th.joins)))
        inputs, kw = th.joins[0]
        dflt = kw['defaults']
        ctx.post(label + '.expiry_is_an_input_of_the_join', [], BoolVal(inputs.kind == 'sdict' and 'expiry' in inputs.f['items']), kind='post')
        ctx.post(label + '.expiry_is_outer_joined_with_default_None', [], BoolVal(dflt.kind == 'sdict' and 'expiry' in dflt.f['items'] and dflt.f['items']['expiry'].kind == 'none'), kind='post')
        ctx.post(label + '.previous_value_is_outer_joined_with_default_None', [], BoolVal(dflt.kind == 'sdict' and 'data' in dflt.f['items']), kind='post')
    ctx.record_function(m, 'perdictable._value_output', fdef, ex.stmts_executed)


def build(ctx):
    m = ctx.mod('_perdictable')
    ctx.guarded('join', lambda: join_obligations(ctx, m))
    ctx.guarded('_value_output.defaults', lambda: value_output_defaults_obligations(ctx, m))
    fdef = m.func('perdictable._value_output')
    n = Int('N')
    today = DT(Int('TODAY_o'), Int('TODAY_us'))

    def section():
        comps = [c for c in walk_no_defs(fdef) if isinstance(c, ast.ListComp)]
        exp_c = [c for c in comps if 'today' in ast.unparse(c) and '_expiry' in ast.unparse(c.generators[0].iter)]
        val_c = [c for c in comps if isinstance(c.elt, ast.IfExp) and 'self.function' in ast.unparse(c.elt)]
        if len(exp_c) != 1 or len(val_c) != 1:
            raise SelectorError('_value_output: expected one run_expiry comprehension and one values comprehension')
        # the names the values comprehension zips: (rows, run_if_none, run_expiry, cache)
        zargs = val_c[0].generators[0].iter
        if not (isinstance(zargs, ast.Call) and ast.unparse(zargs.func) == 'zip' and len(zargs.args) == 4):
            raise SelectorError('values comprehension does not zip (rows, run_if_none, run_expiry, cache)')
        rows_n, rin_n, rex_n, cache_n = [ast.unparse(a) for a in zargs.args]
        # run_expiry must be assigned from the expiry comprehension
        asg = [s for s in walk_no_defs(fdef) if isinstance(s, ast.Assign) and s.value is exp_c[0]]
        ctx.post('_value_output.run_expiry_feeds_the_gate', [], BoolVal(len(asg) == 1 and ast.unparse(asg[0].targets[0]) == rex_n), kind='syntactic')

        # ---- run_expiry[j]
        ds = fresh_table('ds')
        th = Perd()
        ex = Exec(m, [th, Tables(), Lists(), Dates(), TypePreds()], name='_value_output.run_expiry')
        st = State(env={'ds': ds, 'today': today})
        ek = key_of('expiry')
        st.pc += [wf(ds, n), ds.dom[ek], 0 <= today.us, today.us < DAYUS]
        v1 = ex.eval(st, exp_c[0])
        ctx.absorb(ex)
        for o in st.pending:
            ctx.post('_value_output.run_expiry.never_raises.%s' % o.val, ex.facts + o.st.pc, BoolVal(False), kind='safety')
        j = Int('J')
        s2 = st.fork()
        e_j = v1.at(s2, j)
        cell = ds.carr[ek][j]
        past = And(cell != NONEV, Or(DTO(cell) < today.t, And(DTO(cell) == today.t, DTU(cell) < today.us)))
        ctx.post('_value_output.run_expiry.one_flag_per_row', ex.facts + st.pc, v1.n == n)
        ctx.post('_value_output.run_expiry.false_exactly_for_an_expiry_in_the_past', ex.facts + s2.pc + [0 <= j, j < n], e_j.t == Not(past))

        # ---- values[j]
        rows = fresh_table('rows')
        RIN, REX = fresh_list(INT, 'run_if_none'), fresh_list(INT, 'run_expiry')
        cache = fresh_list(VAL, 'cache')
        th2 = Perd()
        ex2 = Exec(m, [th2, Tables(), Lists(), TypePreds()], name='_value_output.values')
        st2 = State(env={rows_n: rows, rin_n: RIN, rex_n: REX, cache_n: cache, 'self': SV('obj', None, cls='perdictable')})
        st2.ghost['nrows'] = n
        st2.pc += [wf(rows, n), RIN.t == n, REX.t == n, cache.t == n, n >= 0]
        v2 = ex2.eval(st2, val_c[0])
        ctx.absorb(ex2)
        for o in st2.pending:
            ctx.post('_value_output.values.never_raises.%s' % o.val, ex2.facts + o.st.pc, BoolVal(False), kind='safety')
        s3 = st2.fork()
        th2.events = []
        val_j = v2.at(s3, j)
        run = Or(RIN.arrs[0][j] != 0, REX.arrs[0][j] != 0)
        ctx.post('_value_output.values.one_value_per_row', ex2.facts + st2.pc, v2.n == n)
        ctx.post('_value_output.values.recomputed_or_kept', ex2.facts + s3.pc + [0 <= j, j < n], val_j.t == If(run, FROW(j), cache.arrs[0][j]))
        # f is evaluated at one site per row, for that row, and only under the gate
        ev = th2.events
        ctx.post('_value_output.values.f_evaluated_at_most_once_per_row', [], BoolVal(len(ev) == 1), kind='syntactic')
        if len(ev) == 1:
            guards, idx = ev[0]
            ctx.post('_value_output.values.f_evaluated_exactly_for_recomputed_rows', ex2.facts + s3.pc + [0 <= j, j < n],
                     And(idx == j, (And(*guards) if guards else BoolVal(True)) == run))
        ctx.record_function(m, 'perdictable._value_output', fdef, {id(s) for s in walk_no_defs(fdef) if isinstance(s, ast.Assign) and s.value in (exp_c[0], val_c[0])},
                            how='the two gating comprehensions are symbolically executed',
                            excluded=['join of the inputs, scalar-only calls, run_if_none, output assembly: bounded only'])
        ctx.cover('_value_output.gate_both_ways', [wf(rows, n), n == 2, RIN.t == 2, REX.t == 2, RIN.arrs[0][0] == 0, REX.arrs[0][0] == 0, RIN.arrs[0][1] == 1])
    ctx.guarded('_value_output', section)
    ctx.trust('a comprehension evaluates its element expression exactly once per element (so one guarded evaluation site means at most one call of f per row)')
