"""C03 - alignment puts all timeseries on the prescribed common index, values intact.

What intersection / union / reindex / fillna compute is pandas' business (bounded stand-in rac/C03.py).  Under deductive contract is the
pure-Python decision logic of the wrappers, every pandas / numpy operation being an uninterpreted function of its operands
(pyvc/th_pandas.py) and every repo function that is *called* taken by contract `R.<name>(arguments bound by the real signature)`:

  _df_index        dispatch on the lower-cased first letter of the policy: i -> reducing('intersection') over the whole list, o ->
                   reducing('union') over the whole list, l -> first, r -> last index; an explicit index goes through _index; no indices ->
                   None.  No path returns anything else (no shortcut that skips the reduction); the eight usual spellings are executed
                   concretely as well
  reducing.wrapped a method name folds `lhs.<name>(rhs)` over the sequence via reducer; with a right operand it is applied once
  _np_index        i -> min, o -> max, l -> first, r -> last of the array lengths
  df_index         the list handed to _df_index is the comprehension of _index over the pandas / dict-indexed members of _list(seq) (nothing
                   dropped or added afterwards), the caller's policy is forwarded; otherwise the array lengths go to _np_index; else None
  df_reindex       None -> unchanged; a policy string is resolved by df_index over the same object; a timeseries / dict-indexed index is
                   unwrapped; ts, method and limit are forwarded to _df_reindex unchanged
  _df_reindex      pandas branch: a leading fill method ('ffill', 'bfill', 'pad', 'backfill') goes through
                   _nona(ts).reindex(index, method = methods[0], limit = limit) and then _df_fillna with the remaining methods; otherwise
                   ts.reindex(index) and then _df_fillna(method); an integer index is refused with ValueError.
                   numpy branch (array of L rows, integer index K >= 0): the array handed to df_fillna has exactly K rows, row q being
                   NaN-row for q < K - L and ts[q - (K - L)] otherwise (longer arrays keep their last K rows - also for K == 0 -, shorter ones
                   are padded in front, equal length unchanged), with the caller's methods and limit; a pandas index of equal length (or an
                   array of at most one row) leaves the array unchanged, another pandas index raises ValueError
  _df_recolumn     anything but a multi-column frame with unique columns passes through unchanged; such a frame is rebuilt column by column
                   over the requested columns (present column -> its values, missing -> NaN) on its own index
  df_sync          non-containers pass through; the index is df_index of the flattened members under the caller's join policy, reindexing uses
                   the caller's method, columns = None / False stops there, otherwise df_columns of the frames under the caller's policy
Assumed: as_list, _list, _index, _nona, _df_fillna, df_fillna, df_columns (by name), wrapper protocol reducing(name)(seq) -> wrapped.
Bounded only: presync.wrapped, loops over nested containers, everything pandas computes.
"""
import ast
import z3
from z3 import And, Or, Not, If, Implies, Int, IntVal, BoolVal, Const, Select, Lambda, K, IntSort

from pyvc.front import SelectorError, OutOfSubset
from pyvc.symex import Exec, State
from pyvc.theories import TypePreds, ConcreteStr
from pyvc.sv import SV, I, B, S, T, NONE
from pyvc import th_pandas as tp
from pyvc.th_pandas import (Pandas, PV, PArr, NONEPV, P, F, M, A, R, U, OP, CMP, GETITEM, SLICE, TRUTH, LEN, ITEM, ISA, isa, MKLIST, MKARR, INTV, BOOLV, STR, GLOBAL,
                            CALLV, base_facts, fresh_plist, run_def, as_list_of, seq_of, mapped, comp_of_source, plist, at as lat)

PROP = 'C03'
REPLAY_MODULE = 'rac.C03_ded'
NAN = GLOBAL('np.nan')
FILLS = ['backfill', 'bfill', 'pad', 'ffill']
SPELLINGS = {'ij': 'i', 'inner': 'i', 'Inner': 'i', 'oj': 'o', 'outer': 'o', 'OUTER': 'o', 'lj': 'l', 'left': 'l', 'rj': 'r', 'right': 'r'}


def build(ctx):
    m = ctx.mod('_pandas')
    # replays are fixed native batteries per obligation family (the counterexamples are interpretations of uninterpreted pandas operations)
    ctx.default_meta = dict(replay_without_model=True)
    mr = ctx.mod('_reducer')
    bf = base_facts
    w0 = dict(k=IntVal(0))

    def theories(**kw):
        th = Pandas(m, extra_mods=[mr], **kw)
        return th, [th, ConcreteStr(m), TypePreds()]

    def paths(label, outs, ex, rp, extra=(), raises_ok=None):
        n = 0
        for o in outs:
            hy = ex.facts + bf() + list(extra) + o.st.pc
            if o.kind == 'raise':
                if raises_ok is not None:
                    raises_ok(o, hy)
                else:
                    ctx.post(label + '.never_raises', hy, BoolVal(False), kind='safety', replay=rp, witness=w0)
                continue
            n += 1
            yield o, hy
        if n == 0:
            raise OutOfSubset('%s has no returning path' % label)

    def val(o):
        """PV term of a returned value (None -> None!pv)"""
        return tp.sv_pv(o.val)

    # =========================================================================================== _df_index
    N = Int('N')
    IXS = fresh_plist('INDEXES', n=N)
    POLICY = Const('POLICY', PV)

    def reduction(name):
        return CALLV(F('reducing', name), tp.sv_pv(IXS))

    def dfindex_section():
        fdef = m.func('_df_index')
        rp = replay_of('df_index')
        # (a) symbolic policy
        th, ths = theories()
        ex = Exec(m, ths, name='_df_index')
        st = State(); st.pc += [N >= 0]
        outs = run_def(ex, st, fdef, [IXS, P(POLICY)])
        ctx.absorb(ex); ctx.record_function(m, '_df_index', fdef, ex.stmts_executed)
        isstr = TRUTH(F('is_str', POLICY))
        letter = M('lower', GETITEM(POLICY, 0))
        for o, hy in paths('_df_index', outs, ex, rp):
            if not th.convertible(o.val) or o.val.kind == 'func':
                ctx.post('_df_index.returns_an_index', hy, BoolVal(False), replay=rp, witness=w0)
                continue
            r = th.to_pv(ex, o.st, o.val)
            w = dict(n=N)
            ctx.post('_df_index.no_indices_give_None', hy + [N == 0], r == NONEPV, replay=rp, witness=w)
            ctx.post('_df_index.inner_is_the_intersection_reduced_over_the_whole_list', hy + [N > 0, isstr, letter == STR('i')], r == reduction('intersection'), replay=rp, witness=w)
            ctx.post('_df_index.outer_is_the_union_reduced_over_the_whole_list', hy + [N > 0, isstr, letter == STR('o')], r == reduction('union'), replay=rp, witness=w)
            ctx.post('_df_index.left_is_the_first_index', hy + [N > 0, isstr, letter == STR('l')], r == lat(IXS, 0), replay=rp, witness=w)
            ctx.post('_df_index.right_is_the_last_index', hy + [N > 0, isstr, letter == STR('r')], r == lat(IXS, N - 1), replay=rp, witness=w)
            ctx.post('_df_index.an_explicit_index_goes_through__index', hy + [N > 0, Not(isstr)], r == R('_index', POLICY), replay=rp, witness=w)
        ctx.cover('_df_index.inner_reachable', bf() + [N == 3, isstr, letter == STR('i')])
        # (b) the usual spellings, executed concretely through the real string operations
        for spelling, letter_ in SPELLINGS.items():
            th, ths = theories()
            ex = Exec(m, ths, name='_df_index.' + spelling)
            st = State(); st.pc += [N > 0]
            outs = run_def(ex, st, fdef, [IXS, S(spelling)])
            ctx.absorb(ex)
            want = {'i': reduction('intersection'), 'o': reduction('union'), 'l': lat(IXS, 0), 'r': lat(IXS, N - 1)}[letter_]
            for o, hy in paths('_df_index.' + spelling, outs, ex, rp):
                ctx.post('_df_index.spelling_%s_selects_%s' % (spelling, {'i': 'intersection', 'o': 'union', 'l': 'first', 'r': 'last'}[letter_]), hy,
                         th.to_pv(ex, o.st, o.val) == want if th.convertible(o.val) else BoolVal(False), replay=rp, witness=dict(n=N))
    ctx.guarded('_df_index', dfindex_section)

    # =========================================================================================== reducing.wrapped
    def reducing_section():
        fdef = mr.func('reducing.wrapped')
        SELF, LHS, RHS, DFLT = [Const(n, PV) for n in ('SELF', 'LHS', 'RHS', 'DEFAULT')]
        fname = A('function', SELF)
        isstr = TRUTH(F('is_str', fname))
        X, Y = Const('X', PV), Const('Y', PV)
        rp = replay_of('reducing')
        th, ths = theories()
        ex = Exec(mr, ths, name='reducing.wrapped')
        outs = run_def(ex, State(), fdef, [P(SELF), P(LHS), P(RHS), P(DFLT)], {'**': SV('dictlit', None, d={})})
        ctx.absorb(ex)
        ctx.record_function(mr, 'reducing.wrapped', fdef, ex.stmts_executed, excluded=['extra keyword arguments for the folded method: path precondition "none given"'])
        for o, hy in paths('reducing.wrapped', outs, ex, rp):
            evs = [e for e in th.calls('reducer') if e['res'] is o.val]
            if evs:
                a = evs[0]['args']
                ctx.post('reducing.wrapped.without_a_right_operand_the_sequence_is_reduced_with_the_given_default', hy,
                         And(RHS == NONEPV, th.to_pv(ex, o.st, a['sequence']) == LHS, th.to_pv(ex, o.st, a['default']) == DFLT), replay=rp, witness=w0)
                fn = a['function']
                if fn.kind == 'func':
                    s2 = o.st.fork(); s2.pending = []
                    v = ex.call_func(s2, fn, [P(X), P(Y)], {})
                    ctx.post('reducing.wrapped.a_method_name_folds_lhs_dot_name_of_rhs', ex.facts + bf() + s2.pc, And(isstr, tp.sv_pv(v) == CALLV(F('getattr', X, fname), Y)),
                             replay=rp, witness=w0)
                else:
                    ctx.post('reducing.wrapped.a_function_is_folded_as_it_is', hy, And(Not(isstr), th.to_pv(ex, o.st, fn) == fname), replay=rp, witness=w0)
            else:
                want = If(isstr, CALLV(F('getattr', LHS, fname), RHS), CALLV(fname, LHS, RHS))
                ctx.post('reducing.wrapped.with_a_right_operand_the_function_is_applied_once', hy,
                         And(RHS != NONEPV, th.to_pv(ex, o.st, o.val) == want) if th.convertible(o.val) else BoolVal(False), replay=rp, witness=w0)
    ctx.guarded('reducing.wrapped', reducing_section)

    # =========================================================================================== _np_index
    def npindex_section():
        fdef = m.func('_np_index')
        rp = replay_of('np_index')
        for spelling, letter_ in SPELLINGS.items():
            th, ths = theories()
            ex = Exec(m, ths, name='_np_index.' + spelling)
            st = State(); st.pc += [N > 0]
            outs = run_def(ex, st, fdef, [IXS, S(spelling)])
            ctx.absorb(ex); ctx.record_function(m, '_np_index', fdef, ex.stmts_executed)
            want = {'i': F('min', tp.sv_pv(IXS)), 'o': F('max', tp.sv_pv(IXS)), 'l': lat(IXS, 0), 'r': lat(IXS, N - 1)}[letter_]
            for o, hy in paths('_np_index.' + spelling, outs, ex, rp):
                ctx.post('_np_index.spelling_%s_selects_%s' % (spelling, {'i': 'the_shortest', 'o': 'the_longest', 'l': 'the_first', 'r': 'the_last'}[letter_]), hy,
                         th.to_pv(ex, o.st, o.val) == want if th.convertible(o.val) else BoolVal(False), replay=rp, witness=dict(n=N))
    ctx.guarded('_np_index', npindex_section)

    # =========================================================================================== df_index
    SEQ = Const('SEQ', PV)

    def df_index_section():
        fdef = m.func('df_index')
        rp = replay_of('df_index_top')
        th, ths = theories()
        ex = Exec(m, ths, name='df_index')
        outs = run_def(ex, State(), fdef, [P(SEQ), P(POLICY)])
        ctx.absorb(ex); ctx.record_function(m, 'df_index', fdef, ex.stmts_executed)
        listed = R('_list', SEQ)
        c1 = comp_of_source('[_index(ts) for ts in listed if is_pd(ts) or _is_dict_indexed(ts)]', listed, {})
        c2 = comp_of_source('[len(ts) for ts in listed if is_arr(ts)]', listed, {})
        want = If(LEN(c1) != 0, R('_df_index', c1, POLICY), If(LEN(c2) != 0, R('_np_index', c2, POLICY), NONEPV))
        for o, hy in paths('df_index', outs, ex, rp):
            ctx.post('df_index.joins_exactly_the_indices_of_all_pandas_members_under_the_callers_policy', hy,
                     th.to_pv(ex, o.st, o.val) == want if th.convertible(o.val) else BoolVal(False), replay=rp, witness=w0)
        dflt = fdef.args.defaults[-1]
        ctx.post('df_index.default_policy_is_inner', [], BoolVal(isinstance(dflt, ast.Constant) and str(dflt.value)[:1].lower() == 'i'), kind='syntactic')
    ctx.guarded('df_index', df_index_section)

    # =========================================================================================== df_reindex
    TS, INDEX, METHOD, LIMIT = [Const(n, PV) for n in ('TS', 'INDEX', 'METHOD', 'LIMIT')]

    def df_reindex_section():
        fdef = m.func('df_reindex')
        rp = replay_of('df_reindex')
        th, ths = theories()
        ex = Exec(m, ths, name='df_reindex')
        outs = run_def(ex, State(), fdef, [P(TS), P(INDEX), P(METHOD), P(LIMIT)])
        ctx.absorb(ex); ctx.record_function(m, 'df_reindex', fdef, ex.stmts_executed)
        isstr, ists, isdi = TRUTH(F('is_str', INDEX)), TRUTH(F('is_ts', INDEX)), TRUTH(R('_is_dict_indexed', INDEX))
        ix = If(isstr, R('df_index', TS, INDEX), If(ists, A('index', INDEX), If(isdi, GETITEM(INDEX, 'index'), INDEX)))
        want = If(INDEX == NONEPV, TS, R('_df_reindex', TS, ix, METHOD, LIMIT))
        for o, hy in paths('df_reindex', outs, ex, rp):
            ctx.post('df_reindex.resolves_the_index_and_forwards_ts_method_limit_unchanged', hy, th.to_pv(ex, o.st, o.val) == want if th.convertible(o.val) else BoolVal(False),
                     replay=rp, witness=w0)
    ctx.guarded('df_reindex', df_reindex_section)

    # =========================================================================================== _df_reindex: pandas branch
    def reindex_pandas():
        fdef = m.func('_df_reindex')
        rp = replay_of('reindex_pandas')
        th, ths = theories()
        ex = Exec(m, ths, name='_df_reindex.pandas')
        ispd, isint = TRUTH(F('is_pd', TS)), TRUTH(F('is_int', INDEX))
        st = State(); st.pc += [ispd]
        outs = run_def(ex, st, fdef, [P(TS), P(INDEX), P(METHOD), P(LIMIT)])
        ctx.absorb(ex); ctx.record_function(m, '_df_reindex', fdef, ex.stmts_executed, excluded=['@loop(list, tuple, dict) lifting over containers: bounded (C19)'])
        methods = as_list_of(METHOD)
        m0 = lat(methods, 0)
        fill = And(methods.n > 0, Or(*[m0 == STR(x) for x in FILLS]))
        j = Int('j!tl')
        tail = MKLIST(If(methods.n > 1, methods.n - 1, 0), Lambda([j], Select(methods.arr, j + 1)))
        nan_default = m.func('_nona').args.defaults
        want_fill = R('_df_fillna', M('reindex', R('_nona', TS, NAN, None), INDEX, method=m0, limit=LIMIT), tail, 0, LIMIT)
        want_plain = R('_df_fillna', M('reindex', TS, INDEX), METHOD, 0, LIMIT)

        def raises_ok(o, hy):
            ctx.post('_df_reindex.pandas.raises_only_ValueError_for_an_integer_index', hy, And(BoolVal(o.val == 'ValueError'), isint), kind='safety', replay=rp, witness=w0)
        for o, hy in paths('_df_reindex.pandas', outs, ex, rp, raises_ok=raises_ok):
            if not th.convertible(o.val):
                ctx.post('_df_reindex.pandas.returns_a_pandas_object', hy, BoolVal(False), replay=rp, witness=w0)
                continue
            r = th.to_pv(ex, o.st, o.val)
            ctx.post('_df_reindex.pandas.an_integer_index_is_refused', hy, Not(isint), replay=rp, witness=w0)
            ctx.post('_df_reindex.pandas.leading_fill_method_is_an_asof_reindex_of_nona_ts_then_the_remaining_methods', hy + [fill], r == want_fill, replay=rp, witness=w0)
            ctx.post('_df_reindex.pandas.otherwise_plain_reindex_then_fillna_with_the_callers_method', hy + [Not(fill)], r == want_plain, replay=rp, witness=w0)
        ctx.cover('_df_reindex.pandas.fill_reachable', bf() + [ispd, Not(isint), methods.n == 2, m0 == STR('ffill')])
    ctx.guarded('_df_reindex.pandas', reindex_pandas)

    # =========================================================================================== _df_reindex: numpy branch
    L, KK = Int('ROWS'), Int('K')
    ARR = fresh_plist('ARRAY', tag='ndarray', n=L)

    def reindex_numpy():
        fdef = m.func('_df_reindex')
        rp = replay_of('reindex_numpy')
        th, ths = theories()
        ex = Exec(m, ths, name='_df_reindex.numpy')
        st = State(); st.pc += [L >= 0, KK >= 0]
        outs = run_def(ex, st, fdef, [ARR, I(KK), P(METHOD), P(LIMIT)])
        ctx.absorb(ex); ctx.record_function(m, '_df_reindex', fdef, ex.stmts_executed)
        q = Int('Q')
        nanrow = U('full_row', [PV, PV])(U('shape_tail', [PV])(tp.sv_pv(ARR)), NAN)
        methods = as_list_of(METHOD)
        for o, hy in paths('_df_reindex.numpy', outs, ex, rp):
            evs = [e for e in th.calls('df_fillna') if e['res'] is o.val]
            ctx.post('_df_reindex.numpy.returns_df_fillna_of_the_resized_array', hy, BoolVal(len(evs) == 1), replay=rp, witness=dict(rows=L, k=KK))
            if len(evs) != 1:
                continue
            a = evs[0]['args']
            res = a['df']
            if res.kind != 'plist' or res.tag != 'ndarray':
                ctx.post('_df_reindex.numpy.resized_value_is_an_array', hy, BoolVal(False), replay=rp, witness=dict(rows=L, k=KK))
                continue
            w = dict(rows=L, k=KK, q=q)
            ctx.post('_df_reindex.numpy.result_has_exactly_index_rows', hy, res.n == KK, replay=rp, witness=w)
            ctx.post('_df_reindex.numpy.longer_arrays_keep_their_last_rows_shorter_ones_are_nan_padded_in_front', hy + [0 <= q, q < KK],
                     lat(res, q) == If(q < KK - L, nanrow, lat(ARR, q - (KK - L))), replay=rp, witness=w)
            ctx.post('_df_reindex.numpy.equal_length_is_unchanged', hy + [KK == L, 0 <= q, q < L], lat(res, q) == lat(ARR, q), replay=rp, witness=w)
            mt = th.as_plist(ex, o.st, a['method']) if a['method'].kind in ('plist', 'lazylist') else None
            ctx.post('_df_reindex.numpy.fills_with_the_callers_methods_and_limit', hy + [0 <= q, q < methods.n],
                     And(mt.n == methods.n, lat(mt, q) == lat(methods, q), th.to_pv(ex, o.st, a['limit']) == LIMIT) if mt is not None else BoolVal(False), replay=rp, witness=w)
        ctx.cover('_df_reindex.numpy.truncation_reachable', [L == 5, KK == 2])
        ctx.cover('_df_reindex.numpy.padding_reachable', [L == 2, KK == 5])
        # pandas index against an array
        th, ths = theories()
        ex = Exec(m, ths, name='_df_reindex.numpy_pdindex')
        st = State(); st.pc += [L >= 0, Not(TRUTH(F('is_int', INDEX)))]
        outs = run_def(ex, st, fdef, [ARR, P(INDEX), P(METHOD), P(LIMIT)])
        ctx.absorb(ex)
        ok = Or(LEN(INDEX) == L, L <= 1)

        def raises_ok(o, hy):
            ctx.post('_df_reindex.numpy.raises_only_ValueError_for_a_pandas_index_of_another_length', hy, And(BoolVal(o.val == 'ValueError'), isa(INDEX, 'pd.Index'), Not(ok)),
                     kind='safety', replay=rp, witness=dict(rows=L))
        for o, hy in paths('_df_reindex.numpy_pdindex', outs, ex, rp, raises_ok=raises_ok):
            ctx.post('_df_reindex.numpy.a_pandas_index_or_a_non_integer_leaves_the_array_unchanged', hy,
                     And(o.val.arr == ARR.arr, o.val.n == L, Or(Not(isa(INDEX, 'pd.Index')), ok)) if o.val.kind == 'plist' else BoolVal(False), replay=rp, witness=dict(rows=L))
    ctx.guarded('_df_reindex.numpy', reindex_numpy)

    # =========================================================================================== _df_recolumn
    COLS = Const('COLUMNS', PV)

    def recolumn_section():
        fdef = m.func('_df_recolumn')
        rp = replay_of('recolumn')
        th, ths = theories()
        ex = Exec(m, ths, name='_df_recolumn')
        outs = run_def(ex, State(), fdef, [P(TS), P(COLS)])
        ctx.absorb(ex); ctx.record_function(m, '_df_recolumn', fdef, ex.stmts_executed, excluded=['@loop(list, tuple, dict) lifting over containers: bounded (C19)'])
        ncol = GETITEM(A('shape', TS), 1)
        guard = And(COLS != NONEPV, TRUTH(F('is_df', TS)), TRUTH(CMP('Gt', ncol, 1)), TRUTH(CMP('Eq', LEN(F('set', A('columns', TS))), ncol)))
        cells = comp_of_source('{col: ts[col].values if col in ts.columns else np.nan for col in columns}', COLS, {'ts': TS})
        want = F('pd.DataFrame', cells, index=A('index', TS))
        for o, hy in paths('_df_recolumn', outs, ex, rp):
            r = th.to_pv(ex, o.st, o.val) if th.convertible(o.val) else None
            if r is None:
                ctx.post('_df_recolumn.returns_a_value', hy, BoolVal(False), replay=rp, witness=w0)
                continue
            ctx.post('_df_recolumn.anything_but_a_multi_column_frame_with_unique_columns_passes_through', hy + [Not(guard)], r == TS, replay=rp, witness=w0)
            ctx.post('_df_recolumn.such_a_frame_is_rebuilt_over_the_requested_columns_on_its_own_index', hy + [guard], r == want, replay=rp, witness=w0)
        ctx.cover('_df_recolumn.rebuild_reachable', bf() + [guard])
    ctx.guarded('_df_recolumn', recolumn_section)

    # =========================================================================================== df_sync
    DFS, JOIN = Const('DFS', PV), Const('JOIN', PV)

    def df_sync_section():
        fdef = m.func('df_sync')
        rp = replay_of('df_sync')
        th, ths = theories()
        ex = Exec(m, ths, name='df_sync')
        outs = run_def(ex, State(), fdef, [P(DFS), P(JOIN), P(METHOD), P(COLS)])
        ctx.absorb(ex); ctx.record_function(m, 'df_sync', fdef, ex.stmts_executed)
        isdict, isseq = isa(DFS, 'dict'), isa(DFS, 'list', 'tuple')
        values = If(isdict, F('list', M('values', DFS)), F('list', DFS))
        listed = R('_list', values)
        tss = comp_of_source('[ts for ts in listed if is_df(ts)]', listed, {})
        onix = R('df_reindex', DFS, R('df_index', listed, JOIN), METHOD, None)
        nocols = Or(COLS == BOOLV(BoolVal(False)), COLS == NONEPV)
        want = If(Or(isdict, isseq), If(nocols, onix, R('df_recolumn', onix, R('df_columns', tss, COLS))), DFS)
        for o, hy in paths('df_sync', outs, ex, rp):
            ctx.post('df_sync.index_by_the_callers_join_fill_by_the_callers_method_columns_by_the_callers_policy', hy,
                     th.to_pv(ex, o.st, o.val) == want if th.convertible(o.val) else BoolVal(False), replay=rp, witness=w0)
        ctx.cover('df_sync.list_with_columns_reachable', bf() + [isseq, Not(isdict), Not(nocols)])
    ctx.guarded('df_sync', df_sync_section)

    ctx.trust('pandas semantics (Index.intersection / union, reindex with and without as-of method, fillna) are uninterpreted here and decided by the bounded '
              'stand-in rac/C03.py only')
    ctx.trust('filtering / dict comprehensions are identified by their element and filter expressions over their source (AST text): df_index, df_sync and '
              '_df_recolumn obligations pin which comprehension feeds which call, not what is_pd / is_df decide')
    ctx.trust('wrapper protocol: reducing(name)(seq) runs reducing.wrapped(self, seq) with self.function == name (C18)')


def replay_of(kind, **kw):
    def mk(model):
        return dict(kind=kind, model={k: v for k, v in model.items()}, **kw)
    return mk
