"""C05 - Calendar business-day arithmetic agrees with day-by-day counting.

Holiday set H and weekend set WE are uninterpreted predicates, so every calendar configuration is covered at once.
  hol(o) := WE(weekday(o)) or H(o)        bd(o) := not hol(o)
  C(o)   := number of business days in [t0, o), introduced by its difference equation C(o+1) = C(o) + [bd(o)]

Functions under contract (real source): Calendar.is_holiday, Calendar.is_bday, Calendar.adjust (f/p loops, m branch),
Calendar.add (loop path and table path), Calendar.bdays, Calendar.drange ('1b'), calendar() registry.
Calendar._populate (a filtered comprehension over dateutil.rrule with byweekday) is verified on its body against the contract its callers use:
dt2int[b] = C(b) for business days of [t0, t1] and int2dt its inverse; the rrule(DAILY, byweekday=...) enumeration is an axiom.
Range precondition: the dates involved lie between two business days LO <= HI of the calendar (t0 <= LO, HI <= t1): this is
"inside the calendar's range" of the property; outside it the table lookup raises KeyError and the loops may run off.
"""
import ast
import z3
from z3 import And, Or, Not, If, Implies, Int, Ints, IntVal, BoolVal, ForAll, Function, IntSort, BoolSort

from pyvc.front import select, SelectorError, OutOfSubset, find_all
from pyvc.symex import Exec, State, LoopSpec
from pyvc.contract import suffix
from pyvc.theories import Globals, TypePreds, Dates, ConcreteStr, civil
from pyvc.sv import SV, I, B, S, T, NONE, DT, TD, DAYUS, wd, fresh_int, fresh_name

PROP = 'C05'
REPLAY_MODULE = 'rac.C05_ded'
WINDOW = 12

H = Function('H', IntSort(), BoolSort())
WE = Function('WE', IntSort(), BoolSort())
C = Function('C', IntSort(), IntSort())
I2D = Function('I2D', IntSort(), IntSort())
T0o, T1o, LO, HI, NB = Ints('T0 T1 LO HI NB')


def hol(o):
    return Or(WE(wd(o)), H(o))


def bd(o):
    return Not(hol(o))


def AX_C(o):
    """definition instance of the counting function"""
    return C(o + 1) == C(o) + If(bd(o), 1, 0)


RANGE = [T0o <= LO, LO <= HI, HI <= T1o, bd(LO), bd(HI)]
_k, _b = Ints('k!ax b!ax')
POPULATE = [  # assumed contract of Calendar._populate
    ForAll([_k], Implies(And(0 <= _k, _k < NB), And(bd(I2D(_k)), T0o <= I2D(_k), I2D(_k) <= T1o, C(I2D(_k)) == _k))),
    ForAll([_b], Implies(And(T0o <= _b, _b <= T1o, bd(_b)), And(0 <= C(_b), C(_b) < NB, I2D(C(_b)) == _b))),
]


# ----------------------------------------------------------------------------------------------- lemmas by induction
def L_mono(a, b):
    return Implies(a <= b, C(a) <= C(b))


def L_strict(a, b):
    return Implies(And(bd(a), a < b), C(a) < C(b))


def _all_hol(lo, hi, incl_lo=True):
    i = Int('i!gap')
    return ForAll([i], Implies(And((lo <= i) if incl_lo else (lo < i), i < hi), hol(i)))


def GAP0(a, b):
    """no business day in [a, b)  =>  the count does not move"""
    return Implies(And(a <= b, _all_hol(a, b)), C(b) == C(a))


def GAP1(a, b):
    """a is a business day and none lies strictly between a and b  =>  exactly one is counted"""
    return Implies(And(bd(a), a < b, _all_hol(a, b, incl_lo=False)), C(b) == C(a) + 1)


def induction(ctx, name, lemma, base_b):
    """prove  forall b >= base_b(a). lemma(a, b)  by induction on b: base and step are separate obligations
    (the induction schema itself is trusted)"""
    a, b = Ints('a!ind b!ind')
    ctx.post('lemma.%s.base' % name, [AX_C(a)], lemma(a, base_b(a)), kind='lemma')
    ctx.post('lemma.%s.step' % name, [b >= base_b(a), lemma(a, b), AX_C(b)], lemma(a, b + 1), kind='lemma')
    ctx.trust('induction schema over the integers (base and step discharged as separate obligations)')


# ----------------------------------------------------------------------------------------------- the Calendar theory
class Cal:
    """attribute reads of a Calendar object, `in` on its weekend / holiday containers, the dt2int / int2dt tables and
    calls that are taken by contract (ymd, adjust when by_contract is set, _populate, date_range)."""

    def __init__(self, adjust_by_contract=False):
        self.by_contract = adjust_by_contract

    def attr(self, ex, st, e, recv, name):
        if recv.kind != 'obj' or recv.f.get('cls') != 'Calendar':
            return NotImplemented
        if name == 'weekend':
            return SV('weset')
        if name == 'holidays':
            return SV('holset')
        if name == 't0':
            return DT(T0o, 0)
        if name == 't1':
            return DT(T1o, 0)
        if name == 'adj':
            return recv.f.get('adj', S('m'))
        if name in ('dt2int', 'int2dt'):
            pop = st.ghost.get('populated', BoolVal(False))
            ex.raise_if(st, Not(pop), 'AttributeError')
            return SV(name)
        return NotImplemented

    def compare(self, ex, st, e, op, a, b):
        if op in ('In', 'NotIn') and b.kind == 'weset' and a.kind == 'int':
            ex.use('model:weekend is a set of weekday numbers, membership = uninterpreted predicate WE')
            return WE(a.t) if op == 'In' else Not(WE(a.t))
        if op in ('In', 'NotIn') and b.kind == 'holset' and a.kind == 'dt':
            ex.use('model:holidays is a collection of midnight datetimes, membership = uninterpreted predicate H on the ordinal')
            r = And(a.us == 0, H(a.t))
            return r if op == 'In' else Not(r)
        return NotImplemented

    def call(self, ex, st, e, fname, args, kwargs):
        if fname == 'ymd' and len(args) == 1 and args[0].kind == 'dt':
            ex.use('assumed contract:ymd(t) is t with the time of day dropped (claimed by C04)')
            return DT(args[0].t, 0)
        if fname == 'abs' and len(args) == 1 and args[0].kind == 'int':
            return I(If(args[0].t >= 0, args[0].t, -args[0].t))
        return NotImplemented

    def method(self, ex, st, e, recv, mname, args, kwargs):
        if recv.kind != 'obj' or recv.f.get('cls') != 'Calendar':
            return NotImplemented
        if mname == '_populate':
            ex.use('callee contract:Calendar._populate builds dt2int[b] = C(b) on business days of [t0,t1] and int2dt as its inverse (proved on its body in this module, section _populate)')
            st.ghost['populated'] = BoolVal(True)
            for f in POPULATE:
                ex.fact(f)
            return recv
        if mname == 'date_range' and len(args) == 2 and all(a.kind == 'dt' for a in args):
            ex.use('assumed contract:date_range(t0, t1) returns two datetimes unchanged')
            return T(args)
        if mname == 'adjust' and self.by_contract:
            date = args[0]
            adj = args[1] if len(args) > 1 else kwargs.get('adj', NONE)
            if adj.kind == 'none':
                adj = recv.f.get('adj', S('m'))
            if date.kind != 'dt' or adj.kind != 'str':
                raise OutOfSubset('adjust by contract on %s/%s' % (date.kind, adj.kind))
            return adjust_contract(ex, st, date, adj.lit[0].lower())
        return NotImplemented

    def subscript(self, ex, st, e, recv, idx):
        if recv.kind == 'dt2int' and idx.kind == 'dt':
            ex.raise_if(st, Not(And(idx.us == 0, bd(idx.t), T0o <= idx.t, idx.t <= T1o)), 'KeyError')
            return I(C(idx.t))
        if recv.kind == 'int2dt' and idx.kind == 'int':
            ex.raise_if(st, Not(And(0 <= idx.t, idx.t < NB)), 'KeyError')
            return DT(I2D(idx.t), 0)
        return NotImplemented


def adjust_post(mode, o, r):
    """the property's clause for adjust, from the statement: nearest business day on-or-after / on-or-before"""
    if mode == 'f':
        return And(r >= o, bd(r), _all_hol(o, r), r <= HI)
    return And(r <= o, bd(r), _all_hol(r, o + 1, incl_lo=False), r >= LO)


def adjust_contract(ex, st, date, mode):
    """callee contract of Calendar.adjust, used at call sites (add, bdays, drange, the 'm' branch)"""
    ex.oblige(st, 'call.adjust.pre.in_range', And(LO <= date.t, date.t <= HI), kind='pre')
    if mode in 'fp':
        r = fresh_int('adj_' + mode)
        ex.fact(Implies(And(LO <= date.t, date.t <= HI), adjust_post(mode, date.t, r)))
        return DT(r, 0)
    rf, rp = fresh_int('adj_f'), fresh_int('adj_p')
    ex.fact(Implies(And(LO <= date.t, date.t <= HI), And(adjust_post('f', date.t, rf), adjust_post('p', date.t, rp))))
    Yf, Mf, _, axf = civil(rf)
    Yd, Md, _, axd = civil(date.t)
    ex.fact(axf); ex.fact(axd)
    return DT(If(Mf != Md, rp, rf), 0)


def machinery(ctx):
    m = ctx.mod('_drange')
    cls = m.func('Calendar')
    inline = {}
    for name in ('is_holiday', 'is_bday', 'adjust', 'add', 'bdays', 'drange'):
        inline['Calendar.' + name] = (m, m.func('Calendar.' + name))
    md = ctx.mod('_dates')
    return m, md, inline


def theories(m, md, by_contract):
    return [Cal(by_contract), Globals(md, ['DAY']), TypePreds(extra={'is_ts': ()}), Dates(), ConcreteStr(md, [])]


def build(ctx):
    m, md, inline = machinery(ctx)
    self_ = SV('obj', None, cls='Calendar')
    o, us, n = Ints('O US N')
    wit = dict(o=o, us=us, n=n, T0=T0o, T1=T1o, LO=LO, HI=HI)
    for k in range(-WINDOW, WINDOW + 1):
        wit['H%d' % k] = H(o + k)
    for d in range(7):
        wit['WE%d' % d] = WE(IntVal(d))
    hints = [o - WINDOW + 2 <= LO, HI <= o + WINDOW - 2, T0o >= LO - 2, T1o <= HI + 2, -4 <= n, n <= 4, T0o > 693596]
    ctx.default_meta = dict(search_hints=hints)
    _Y, _M, _D, _ax = civil(o)
    base_pre = RANGE + [LO <= o, o <= HI, 0 <= us, us < DAYUS, _ax, 1900 <= _Y, _Y < 2300]

    # ------------------------------------------------------------------ predicates
    def predicates():
        for fname, expect in (('is_holiday', hol(o)), ('is_bday', bd(o))):
            fdef = m.func('Calendar.' + fname)
            ex = Exec(m, theories(m, md, False), inline=inline, name=fname)
            st = State(); st.pc += base_pre
            outs = ex.run_function(st, 'Calendar.' + fname, [self_, DT(o, us)], {})
            ctx.absorb(ex); ctx.record_function(m, 'Calendar.' + fname, fdef, ex.stmts_executed)
            for out in outs:
                if out.kind != 'return':
                    ctx.post('%s.never_raises' % fname, ex.facts + out.st.pc, BoolVal(False), kind='safety', witness=wit)
                else:
                    ctx.post('%s.equals_predicate' % fname, ex.facts + out.st.pc, out.val.t == expect, witness=wit,
                             replay=rp('is_bday'))
    ctx.guarded('predicates', predicates)

    # ------------------------------------------------------------------ lemmas (induction on the right end point)
    induction(ctx, 'count_monotone', L_mono, lambda a: a)
    induction(ctx, 'count_strict_after_bday', L_strict, lambda a: a + 1)
    induction(ctx, 'gap_without_bday', GAP0, lambda a: a)
    induction(ctx, 'gap_after_bday', GAP1, lambda a: a + 1)

    # ------------------------------------------------------------------ adjust: body against the statement's clause
    fdef = m.func('Calendar.adjust')
    whiles = find_all(fdef, lambda x: isinstance(x, ast.While))

    def adjust_section():
        if len(whiles) != 4:
            raise SelectorError('Calendar.adjust: expected 4 while loops (f: 2, p: 2), found %d' % len(whiles))

        def inv_f(st, entry):
            t, d = st.env['t'], entry.env['t']
            return [('from_entry', And(t.t >= d.t, t.us == 0)), ('only_holidays_skipped', _all_hol(d.t, t.t)), ('bounded_by_witness', t.t <= HI)]

        def inv_f2(st, entry):
            return [('inside_range', And(st.env['t'].t <= T1o, st.env['t'].t == entry.env['t'].t, st.env['t'].us == 0))]

        def inv_p(st, entry):
            t, d = st.env['t'], entry.env['t']
            return [('from_entry', And(t.t <= d.t, t.us == 0)), ('only_holidays_skipped', _all_hol(t.t, d.t + 1, incl_lo=False)), ('bounded_by_witness', t.t >= LO)]

        def inv_p2(st, entry):
            return [('inside_range', And(st.env['t'].t >= T0o, st.env['t'].t == entry.env['t'].t, st.env['t'].us == 0))]

        loops = {id(whiles[0]): LoopSpec('adjust.f.While0', inv_f, variant=lambda st: T1o - st.env['t'].t + 1),
                 id(whiles[1]): LoopSpec('adjust.f.While1', inv_f2, variant=lambda st: IntVal(0)),
                 id(whiles[2]): LoopSpec('adjust.p.While0', inv_p, variant=lambda st: st.env['t'].t - T0o + 1),
                 id(whiles[3]): LoopSpec('adjust.p.While1', inv_p2, variant=lambda st: IntVal(0))}
        for mode in 'fp':
            ex = Exec(m, theories(m, md, False), loops=loops, inline=inline, name='adjust.' + mode)
            st = State(); st.pc += base_pre
            outs = ex.run_function(st, 'Calendar.adjust', [self_, DT(o, us), S(mode)], {})
            ctx.absorb(ex)
            ctx.record_function(m, 'Calendar.adjust', fdef, ex.stmts_executed,
                                excluded=['list/tuple/dict inputs (recursive container mapping): path precondition "date is a datetime"'])
            nret = 0
            for out in outs:
                if out.kind != 'return':
                    ctx.post('adjust.%s.never_raises' % mode, ex.facts + out.st.pc, BoolVal(False), kind='safety', witness=wit, replay=rp('adjust', mode))
                    continue
                nret += 1
                r = out.val
                ctx.post('adjust.%s.nearest_business_day' % mode, ex.facts + out.st.pc, And(adjust_post(mode, o, r.t), r.us == 0),
                         witness=wit, replay=rp('adjust', mode))
            if nret == 0:
                raise OutOfSubset('adjust(%s) has no returning path' % mode)
        # 'm': the body calls adjust(date,'f') / adjust(date,'p') - taken by contract
        ex = Exec(m, theories(m, md, True), loops=loops, inline=inline, name='adjust.m')
        st = State(); st.pc += base_pre
        outs = ex.run_function(st, 'Calendar.adjust', [self_, DT(o, us), S('m')], {})
        ctx.absorb(ex); ctx.record_function(m, 'Calendar.adjust', fdef, ex.stmts_executed)
        rf, rp_ = Ints('RF RP')
        Yf, Mf, _, axf = civil(rf)
        Yd, Md, _, axd = civil(o)
        for out in outs:
            if out.kind != 'return':
                ctx.post('adjust.m.never_raises', ex.facts + out.st.pc, BoolVal(False), kind='safety', witness=wit, replay=rp('adjust', 'm'))
                continue
            r = out.val
            spec = And(adjust_post('f', o, rf), adjust_post('p', o, rp_), axf, axd)
            ctx.post('adjust.m.following_unless_month_changes', ex.facts + out.st.pc + [spec, L_uniq_adjust(o, rf, rp_, ex.facts)],
                     And(r.t == If(Mf != Md, rp_, rf), r.us == 0), witness=wit, replay=rp('adjust', 'm'))
    ctx.guarded('adjust', adjust_section)

    # ------------------------------------------------------------------ add: loop path (|n| <= 1) and table path
    fadd = m.func('Calendar.add')
    add_whiles = find_all(fadd, lambda x: isinstance(x, ast.While))
    a0 = Int('A0')          # value of adjust(date): taken by contract

    def add_post(r, n_):
        """statement: add(t, n) is the n-th business day counted from adjust(t)"""
        return And(bd(r.t), C(r.t) == C(a0) + n_, r.us == 0)

    # the adjusted start used by the body is recorded by a hook on the assignment `t = self.adjust(date, adj)`
    ctx.guarded('add', lambda: add_with_hook(ctx, m, md, inline, fadd, add_whiles, self_, o, us, n, base_pre, wit, a0, add_post))

    # ------------------------------------------------------------------ relational clauses over add's contract
    def relational():
        t, r1, r2, r, s, k = Ints('T R1 R2 R S K')
        def ADD(a, res, d):       # add's contract, as proved above, from an adjusted start a
            return And(bd(res), C(res) == C(a) + d)
        uniq = lambda x, y: [L_strict(x, y), L_strict(y, x)]
        # single-step path and table path agree: add(t, 2) == add(add(t, 1), 1)
        ctx.post('add.two_steps_equal_table_lookup', [bd(t), ADD(t, r1, 1), ADD(r1, r2, 1), ADD(t, r, 2)] + uniq(r, r2), r == r2, kind='lemma')
        # bdays(t, add(t, n)) == n   (bdays = dt2int[adjust(t1)] - dt2int[adjust(t0)], proved below; adjust of a business day is itself)
        ctx.post('bdays_of_add_is_n', [bd(t), ADD(t, r, k)], C(r) - C(t) == k, kind='lemma')
        # add(add(t, n), -n) == t for a business day t
        ctx.post('add_then_subtract_returns', [bd(t), ADD(t, r, k), ADD(r, s, -k)] + uniq(s, t), s == t, kind='lemma')
        # adjust of a business day is the day itself (both directions)
        ctx.post('adjust_of_business_day_is_identity.f', [bd(t), adjust_post('f', t, r)], r == t, kind='lemma')
        ctx.post('adjust_of_business_day_is_identity.p', [bd(t), adjust_post('p', t, r)], r == t, kind='lemma')
    ctx.guarded('relational', relational)

    # ------------------------------------------------------------------ bdays and drange('1b')
    def bdays_drange():
        o2 = Int('O2')
        fb = m.func('Calendar.bdays')
        ex = Exec(m, theories(m, md, True), inline=inline, name='bdays')
        st = State(); st.pc += base_pre + [LO <= o2, o2 <= HI]
        outs = ex.run_function(st, 'Calendar.bdays', [self_, DT(o, 0), DT(o2, 0), S('f')], {})
        ctx.absorb(ex); ctx.record_function(m, 'Calendar.bdays', fb, ex.stmts_executed)
        af, bf = Ints('AF BF')
        for out in outs:
            hy = ex.facts + out.st.pc
            if out.kind != 'return':
                ctx.post('bdays.never_raises.%s' % out.val, hy, BoolVal(False), kind='safety', witness=dict(wit, o2=o2), replay=rp('bdays'))
                continue
            ctx.post('bdays.is_count_difference_of_adjusted_endpoints', hy + [adjust_post('f', o, af), adjust_post('f', o2, bf)]
                     + uniq_adjust_f(o, af, ex.facts) + uniq_adjust_f(o2, bf, ex.facts), out.val.t == C(bf) - C(af), witness=dict(wit, o2=o2), replay=rp('bdays'))
        fd = m.func('Calendar.drange')
        ex = Exec(m, theories(m, md, True), inline=inline, name='drange')
        st = State(); st.pc += base_pre + [LO <= o2, o2 <= HI, o <= o2]
        outs = ex.run_function(st, 'Calendar.drange', [SV('obj', None, cls='Calendar', adj=S('f')), DT(o, 0), DT(o2, 0), S('1b')], {})
        ctx.absorb(ex); ctx.record_function(m, 'Calendar.drange', fd, ex.stmts_executed, excluded=['non business-day bumps (delegated to drange, C10)'])
        j, x = Ints('J X')
        for out in outs:
            hy = ex.facts + out.st.pc
            if out.kind != 'return':
                ctx.post('drange.never_raises.%s' % out.val, hy, BoolVal(False), kind='safety', witness=dict(wit, o2=o2), replay=rp('drange'))
                continue
            R = out.val
            if R.kind != 'lazylist':
                raise OutOfSubset('Calendar.drange does not return a comprehension')
            s2 = out.st.fork()
            ej = R.at(s2, j)
            hyj = ex.facts + s2.pc + [adjust_post('f', o, af), adjust_post('f', o2, bf)] + uniq_adjust_f(o, af, ex.facts) + uniq_adjust_f(o2, bf, ex.facts)
            inr = And(0 <= j, j < R.n)
            ctx.post('drange.1b.every_element_is_a_business_day_between_adjusted_endpoints', hyj + [inr, L_mono_inst(af, ej.t), L_mono_inst(ej.t, bf)]
                     + [L_strict(ej.t, af), L_strict(bf, ej.t)],
                     And(bd(ej.t), af <= ej.t, ej.t <= bf, ej.us == 0), witness=dict(wit, o2=o2, j=j), replay=rp('drange'))
            s3 = out.st.fork()
            ej1 = R.at(s3, j + 1)
            ctx.post('drange.1b.strictly_increasing', ex.facts + s2.pc + s3.pc + [0 <= j, j + 1 < R.n, L_strict(ej1.t, ej.t), L_mono_inst(ej1.t, ej.t)],
                     ej.t < ej1.t, witness=dict(wit, o2=o2, j=j), replay=rp('drange'))
            # completeness: every business day x between the adjusted endpoints is the element number C(x) - C(af)
            s4 = out.st.fork()
            jx = C(x) - C(af)
            ex_ = R.at(s4, jx)
            ctx.post('drange.1b.lists_every_business_day', ex.facts + s4.pc + [adjust_post('f', o, af), adjust_post('f', o2, bf)]
                     + uniq_adjust_f(o, af, ex.facts) + uniq_adjust_f(o2, bf, ex.facts)
                     + [bd(x), af <= x, x <= bf, L_mono_inst(af, x), L_mono_inst(x, bf)],
                     And(0 <= jx, jx < R.n, ex_.t == x), witness=dict(wit, o2=o2, x=x), replay=rp('drange'))
    ctx.guarded('bdays_drange', bdays_drange)

    # ------------------------------------------------------------------ _populate: the body against the contract POPULATE used above
    def populate_section():
        from pyvc import th_seq
        from pyvc.symex import LoopSpec
        fdef = m.func('Calendar._populate')
        comps = [c for c in find_all(fdef, lambda x: isinstance(x, ast.ListComp))]
        gens = [g for g in find_all(fdef, lambda x: isinstance(x, ast.GeneratorExp))]
        if len(comps) != 1 or len(gens) != 1:
            raise SelectorError('_populate: expected one generator expression (byweekday) and one filtered comprehension (bdays)')
        comp = comps[0]
        # the module-level table `weekdays` must map k to dateutil's k-th weekday constant
        wk = m.global_assign('weekdays')
        names = ['MO', 'TU', 'WE', 'TH', 'FR', 'SA', 'SU']
        if not (isinstance(wk, ast.Dict) and sorted(getattr(k, 'value', None) for k in wk.keys if isinstance(getattr(k, 'value', None), int)) == list(range(7))
                and len(wk.keys) == 7):
            raise SelectorError('weekdays is not a literal table over the keys 0..6')
        # table obligation: entry k is dateutil's k-th weekday constant (Monday = 0, as datetime.weekday() counts and self.weekend is given)
        table = {k.value: ast.unparse(v) for k, v in zip(wk.keys, wk.values)}
        ctx.post('_populate.weekdays_table_maps_k_to_the_kth_weekday_constant', [], BoolVal(all(table[i] == names[i] for i in range(7))), kind='syntactic',
                 witness=dict(table=IntVal(0)), replay=lambda model: dict(kind='weekend_sets'))
        ctx.obligations[-1].meta['replay_without_model'] = True
        ND = Int('ND')
        D = Function('allowed_day', IntSort(), IntSort())          # the rrule sequence (ordinals), axiomatised below
        P = lambda k: If(k < ND, D(k), T1o + 1)                    # first day not yet passed when k elements have been consumed

        class Pop:
            def method(self, ex, st, e, recv, mname, args, kwargs):
                if recv.kind == 'obj' and mname == 'get' and len(args) == 1 and args[0].kind == 'str' and args[0].lit in ('dt2int', 'int2dt'):
                    ex.use('path precondition:the tables are not built yet (self.get("dt2int") is None)')
                    return NONE
                return NotImplemented

            def expr(self, ex, st, e):
                if isinstance(e, ast.GeneratorExp) and len(e.generators) == 1 and ast.unparse(e.generators[0].iter) == 'weekdays.items()' \
                        and isinstance(e.generators[0].target, ast.Tuple) and len(e.generators[0].ifs) == 1:
                    g = e.generators[0]
                    kname, vname = [x.id for x in g.target.elts]
                    if ast.unparse(e.elt) != vname:
                        raise OutOfSubset('byweekday generator yields %s' % ast.unparse(e.elt))
                    kk = Int(fresh_name('wk'))
                    sub = st.fork(); sub.env = dict(st.env); sub.env[kname] = I(kk)
                    c = ex.truth(sub, ex.eval(sub, g.ifs[0]))
                    ex.use('axiom:(v for k, v in weekdays.items() if c(k)) yields dateutil weekday k for exactly the k in 0..6 with c(k)')
                    return SV('wdset', None, pred=lambda x: z3.substitute(c, (kk, x)))
                return NotImplemented

            def call(self, ex, st, e, fname, args, kwargs):
                if fname == 'tuple' and len(args) == 1 and args[0].kind == 'wdset':
                    return args[0]
                if fname == 'dict' and len(args) == 1 and args[0].kind == 'lazylist' and 'zipped' in args[0].f:
                    ex.use('axiom:dict(zip(ks, vs)) maps ks[i] to vs[i] (distinct keys)')
                    return SV('zipdict', None, parts=args[0].f['zipped'])
                if fname == 'zip' and len(args) == 2:
                    n0 = th_seq.L_len(args[0]) if args[0].kind in ('list', 'lazylist') else args[0].n
                    return SV('lazylist', None, n=n0, at=None, zipped=args)
                if fname == 'len' and len(args) == 1 and args[0].kind in ('list', 'lazylist'):
                    return I(th_seq.L_len(args[0]))
                return NotImplemented

            def pre_call(self, ex, st, e):
                if isinstance(e.func, ast.Name) and e.func.id == 'rrule':
                    kw = {k.arg: k.value for k in e.keywords}
                    ok = (len(e.args) == 1 and ast.unparse(e.args[0]) == 'DAILY' and ast.unparse(kw.get('interval')) == '1'
                          and ast.unparse(kw.get('dtstart')) == 'self.t0' and ast.unparse(kw.get('until')) == 'self.t1' and set(kw) == {'interval', 'dtstart', 'until', 'byweekday'})
                    if not ok:
                        raise OutOfSubset('rrule call of _populate is not rrule(DAILY, interval = 1, dtstart = self.t0, until = self.t1, byweekday = ...)')
                    wd_ = ex.eval(st, kw['byweekday'])
                    if wd_.kind != 'wdset':
                        raise OutOfSubset('byweekday is not the filtered weekday tuple')
                    ex.use('axiom:rrule(DAILY, interval=1, dtstart=a, until=b, byweekday=S) enumerates, in increasing order, exactly the days of [a, b] whose weekday is in S (midnight datetimes)')
                    k, o_ = Ints('k!rr o!rr')
                    allowed = lambda x: wd_.pred(wd(x))
                    ex.fact(ND >= 0)
                    ex.fact(ForAll([o_], Implies(And(T0o <= o_, o_ < P(IntVal(0))), Not(allowed(o_)))))
                    ex.fact(ForAll([k], Implies(And(0 <= k, k < ND), And(T0o <= D(k), D(k) <= T1o, allowed(D(k)), D(k) < P(k + 1),
                                                                        ForAll([o_], Implies(And(D(k) < o_, o_ < P(k + 1)), Not(allowed(o_))))))))
                    st.ghost['allowed'] = allowed
                    return th_seq.lazy(ND, lambda st2, j: DT(D(j), 0), elem='dt')
                return NotImplemented

            def store_subscript(self, ex, st, tg, recv, idx, v):
                if recv.kind == 'obj' and idx.kind == 'str' and idx.lit in ('dt2int', 'int2dt') and v.kind == 'zipdict':
                    st.ghost['built_' + idx.lit] = v
                    return recv
                return NotImplemented

        def inv(st, entry):
            k = st.ghost['_populate.bdays.k']
            res = st.ghost['_populate.bdays.res']
            n_ = th_seq.L_len(res)
            p, b = Ints('p!pop b!pop')
            rp = th_seq.L_at(st, res, p)
            rb = th_seq.L_at(st, res, C(b))
            # the gap lemma (proved above by induction) at the two places the loop needs it: before the first allowed day, and between the
            # allowed day being consumed and the next one (ground instances: the quantified lemma makes the solver wander)
            for f in (GAP0(T0o, P(IntVal(0))), GAP0(D(k) + 1, P(k + 1)), AX_C(D(k))):
                ex.fact(f)
            return [('length_is_the_count_so_far', And(n_ == C(P(k)), n_ >= 0)),
                    ('members_are_the_business_days_passed_in_order',
                     ForAll([p], Implies(And(0 <= p, p < n_), And(bd(rp.t), T0o <= rp.t, rp.t < P(k), rp.us == 0, C(rp.t) == p)))),
                    ('every_business_day_passed_is_listed',
                     ForAll([b], Implies(And(T0o <= b, b < P(k), bd(b)), And(0 <= C(b), C(b) < n_, rb.t == b, rb.us == 0))))]

        spec = LoopSpec('_populate.bdays', inv)
        ex = Exec(m, [Pop(), Cal(False), th_seq.Lists('dt'), Globals(md, ['DAY']), TypePreds(), Dates(), ConcreteStr(md, [])],
                  loops={id(comp): spec}, inline=inline, name='_populate', prune=False)
        st = State()
        kq, aq, bq = Ints('k!q a!q b!q')
        # C(t0) = 0, its difference equation, and the gap lemma (proved above by induction) as quantified facts for this section
        st.pc += [T0o <= T1o, C(T0o) == 0]
        self_p = SV('obj', None, cls='Calendar')
        outs = ex.run_function(st, 'Calendar._populate', [self_p], {})
        ctx.absorb(ex)
        ctx.record_function(m, 'Calendar._populate', fdef, ex.stmts_executed, excluded=['already populated calendar (tables present): returns self unchanged'])
        nret = 0
        for out in outs:
            hy = ex.facts + out.st.pc
            if out.kind != 'return':
                ctx.post('_populate.never_raises.%s' % out.val, hy, BoolVal(False), kind='safety')
                continue
            d2i, i2d = out.st.ghost.get('built_dt2int'), out.st.ghost.get('built_int2dt')
            if d2i is None or i2d is None:
                ctx.post('_populate.builds_both_tables', hy, BoolVal(False))
                continue
            nret += 1
            R = out.st.ghost['_populate.bdays.res']
            ctx.post('_populate.dt2int_maps_the_business_days_to_their_positions', hy, BoolVal(d2i.f['parts'][0] is R and d2i.f['parts'][1].kind == 'range'), kind='syntactic')
            ctx.post('_populate.int2dt_maps_positions_to_the_business_days', hy, BoolVal(i2d.f['parts'][1] is R and i2d.f['parts'][0].kind == 'range'), kind='syntactic')
            rng = d2i.f['parts'][1]
            ctx.post('_populate.positions_are_0_to_len', hy, And(rng.lo == 0, rng.step == 1, rng.n == th_seq.L_len(R)))
            n_ = th_seq.L_len(R)
            p, b = Ints('p!post b!post')
            s2 = out.st.fork()
            rp, rb = th_seq.L_at(s2, R, p), th_seq.L_at(s2, R, C(b))
            # exactly the assumed contract POPULATE, with I2D(k) := bdays[k] and NB := len(bdays)
            ctx.post('_populate.kth_entry_is_the_business_day_with_k_business_days_before_it', hy + [0 <= p, p < n_],
                     And(bd(rp.t), T0o <= rp.t, rp.t <= T1o, rp.us == 0, C(rp.t) == p))
            ctx.post('_populate.every_business_day_of_the_range_is_in_the_table', hy + [T0o <= b, b <= T1o, bd(b)],
                     And(0 <= C(b), C(b) < n_, rb.t == b))
        if nret == 0:
            raise OutOfSubset('_populate has no returning path')
    inline['Calendar._populate'] = (m, m.func('Calendar._populate'))
    ctx.guarded('_populate', populate_section)

    # ------------------------------------------------------------------ constructor: Calendar(key, holidays, weekend, t0, t1, adj)
    def constructor_section():
        """the real body of Calendar.__init__ for a plain key: on every path exactly one `super().__init__(...)` call whose keywords are exactly
        weekend / holidays / key / t0 / t1 / adj, holding the statement's reading of the arguments (SPEC below).  as_list, date_range, zip, dict
        are uninterpreted operations of their operands (pyvc/th_pandas.py), so the obligations are equations between the term the code builds
        and the term the specification builds: a swapped / dropped / defaulted argument comes back sat.  Neither Dict, dictattr nor _calendar
        defines __init__ / __new__ (syntactic obligation), so the call is dict.__init__(**keywords): the object holds exactly those items."""
        from pyvc import front as _front
        from pyvc import th_pandas as tp
        from z3 import Const
        SPEC = ("_t0, _t1 = date_range(TMIN if t0 is None else t0, TMAX if t1 is None else t1)\n"
                "_we = [5, 6] if weekend is None else as_list(weekend)\n"
                "_hs = as_list(holidays)\n"
                "_hol = dict(zip(_hs, _hs))\n")
        fdef = m.func('Calendar.__init__')
        params = [a.arg for a in fdef.args.args]
        if params != ['self', 'key', 'holidays', 'weekend', 't0', 't1', 'adj']:
            raise SelectorError('Calendar.__init__ parameters are %s' % params)
        old_meta = dict(ctx.default_meta)
        ctx.default_meta = dict(old_meta, replay_without_model=True, abstract_model=True)
        try:
            # the bases' constructors
            cdef = [n for n in m.tree.body if isinstance(n, ast.ClassDef) and n.name == 'Calendar']
            bases = [ast.unparse(b) for b in cdef[0].bases] if cdef else []
            own = []
            for modname, cname in (('_dict', 'Dict'), ('_dictattr', 'dictattr'), ('_drange', '_calendar')):
                mm = _front.module(modname)
                cd = [n for n in mm.tree.body if isinstance(n, ast.ClassDef) and n.name == cname]
                if not cd:
                    raise SelectorError('class %s not found in %s' % (cname, modname))
                own += ['%s.%s' % (cname, f.name) for f in cd[0].body if isinstance(f, ast.FunctionDef) and f.name in ('__init__', '__new__', '__init_subclass__')]
            dbases = [ast.unparse(b) for n in _front.module('_dict').tree.body if isinstance(n, ast.ClassDef) and n.name == 'Dict' for b in n.bases]
            abases = [ast.unparse(b) for n in _front.module('_dictattr').tree.body if isinstance(n, ast.ClassDef) and n.name == 'dictattr' for b in n.bases]
            ctx.post('Calendar.__init__.super_init_is_the_dict_constructor', [],
                     BoolVal(bases == ['Dict', '_calendar'] and dbases == ['dictattr'] and abases == ['dict'] and not own), kind='syntactic', replay=rp('constructor'))
            KEY, HOL, WEK, A0, A1, ADJ, SELF = [Const('CTOR_' + n_, tp.PV) for n_ in ('KEY', 'HOL', 'WE', 'T0', 'T1', 'ADJ', 'SELF')]

            class PlainKey:
                def pre_call(self, ex, st, e):
                    if isinstance(e.func, ast.Name) and e.func.id == 'isinstance' and len(e.args) == 2 and ast.unparse(e.args[0]) == 'key' \
                            and ast.unparse(e.args[1]) in ('dict', 'Calendar'):
                        ex.use('path precondition:the key passed to Calendar() is a plain key, not a dict or a Calendar object')
                        return B(False)
                    return NotImplemented

                def name(self, ex, st, ident):
                    if ident in ('TMAX', 'TMIN'):
                        ex.use('model:TMIN / TMAX are opaque module constants')
                        return tp.P(tp.GLOBAL(ident))
                    return NotImplemented

            th = tp.Pandas(m, repo=[])
            ex = Exec(m, [PlainKey(), th, ConcreteStr(m), TypePreds()], name='Calendar.__init__')
            ex.use('assumed contract:as_list / date_range / zip / dict are functions of their operands only (uninterpreted; as_list is under contract in C19)')
            args = [tp.P(x) for x in (SELF, KEY, HOL, WEK, A0, A1, ADJ)]
            outs = tp.run_def(ex, State(), fdef, args)
            ctx.absorb(ex)
            ctx.record_function(m, 'Calendar.__init__', fdef, ex.stmts_executed, excluded=['key given as a dict or a Calendar object (copy branches): bounded only'])
            inits = [e for e in th.events if e['kind'] == 'mcall' and e['name'] == '__init__']
            sup = [e for e in th.events if e['kind'] == 'fcall' and e['name'] == 'super']
            rets = [o for o in outs if o.kind == 'return']
            ctx.post('Calendar.__init__.never_raises_for_a_plain_key', [], BoolVal(len(rets) == len(outs) and len(outs) >= 1), kind='safety', replay=rp('constructor'))
            ctx.post('Calendar.__init__.one_super_init_call_per_path', [], BoolVal(len(inits) == len(outs) == len(sup)), kind='syntactic', replay=rp('constructor'))
            for k_, e in enumerate(inits):
                kw = e['kwargs']
                recv_ok = e['recv'].kind == 'pv' and not e['args']
                ctx.post('Calendar.__init__.stores_exactly_the_six_items.%d' % k_, [],
                         BoolVal(recv_ok and sorted(kw) == ['adj', 'holidays', 'key', 't0', 't1', 'weekend']), kind='syntactic', replay=rp('constructor'))
                if not recv_ok or sorted(kw) != ['adj', 'holidays', 'key', 't0', 't1', 'weekend']:
                    continue
                st2 = State(); st2.pc = list(e['pc'])
                st2.env = dict(key=tp.P(KEY), holidays=tp.P(HOL), weekend=tp.P(WEK), t0=tp.P(A0), t1=tp.P(A1), adj=tp.P(ADJ))
                o2 = ex.run_block(st2, ast.parse(SPEC).body)
                if len(o2) != 1 or o2[0].kind != 'next':
                    raise OutOfSubset('constructor specification does not evaluate on one path')
                env = o2[0].st.env
                hy = ex.facts + tp.base_facts() + list(o2[0].st.pc)
                pvt = lambda v: th.to_pv(ex, st2, v)      # noqa
                ctx.post('Calendar.__init__.receiver_is_the_object_under_construction.%d' % k_, hy, e['recv'].t == tp.F('super', pvt(SV('func', None, name='Calendar')), SELF), replay=rp('constructor'))
                ctx.post('Calendar.__init__.weekend_is_the_argument_as_a_list_default_sat_sun.%d' % k_, hy, pvt(kw['weekend']) == pvt(env['_we']), replay=rp('constructor'))
                ctx.post('Calendar.__init__.holidays_are_exactly_the_argument_keyed_by_itself.%d' % k_, hy, pvt(kw['holidays']) == pvt(env['_hol']), replay=rp('constructor'))
                ctx.post('Calendar.__init__.t0_t1_are_the_date_range_of_the_arguments_with_defaults.%d' % k_, hy,
                         And(pvt(kw['t0']) == pvt(env['_t0']), pvt(kw['t1']) == pvt(env['_t1'])), replay=rp('constructor'))
                ctx.post('Calendar.__init__.key_and_adj_stored_unchanged.%d' % k_, hy, And(pvt(kw['key']) == KEY, pvt(kw['adj']) == ADJ), replay=rp('constructor'))
            ctx.cover('Calendar.__init__.default_weekend_reachable', [WEK == tp.NONEPV])
        finally:
            ctx.default_meta = old_meta
    ctx.guarded('constructor', constructor_section)

    # ------------------------------------------------------------------ registry: calendar(key, holidays, weekend, t0, t1)
    def registry_section():
        from pyvc.th_lists import Val, NONEV, V
        from z3 import Array, ArraySort, DeclareSort, Const, Store, Select
        fdef = m.func('calendar')
        CalS = DeclareSort('Cal')
        HOLS = Function('holidays_of', CalS, Val)
        WKND = Function('weekend_of', CalS, Val)
        TRUTHY = Function('truthy', Val, BoolSort())
        MK = Function('Calendar', Val, Val, Val, Val, Val, CalS)

        class Registry:
            def pre_call(self, ex, st, e):
                if isinstance(e.func, ast.Name) and e.func.id == 'isinstance' and len(e.args) == 2 and ast.unparse(e.args[1]) == 'Calendar':
                    ex.use('path precondition:the key passed to calendar() is a plain key, not a Calendar object')
                    return B(False)
                return NotImplemented

            def compare(self, ex, st, e, op, a, b):
                if op in ('In', 'NotIn') and b.kind == 'registry' and a.kind == 'val':
                    r = b.f['dom'][a.t]
                    return r if op == 'In' else Not(r)
                return NotImplemented

            def subscript(self, ex, st, e, recv, idx):
                if recv.kind == 'registry' and idx.kind == 'val':
                    ex.raise_if(st, Not(recv.f['dom'][idx.t]), 'KeyError')
                    return SV('calendar', recv.f['val'][idx.t])
                return NotImplemented

            def store_subscript(self, ex, st, tg, recv, idx, v):
                if recv.kind == 'registry' and idx.kind == 'val' and v.kind == 'calendar':
                    return SV('registry', None, dom=Store(recv.f['dom'], idx.t, BoolVal(True)), val=Store(recv.f['val'], idx.t, v.t))
                return NotImplemented

            def call(self, ex, st, e, fname, args, kwargs):
                if fname == 'Calendar' and len(args) == 1 and set(kwargs) == {'holidays', 'weekend', 't0', 't1'} and all(x.kind == 'val' for x in args + list(kwargs.values())):
                    ex.use('callee contract:Calendar(key, holidays=h, weekend=w, t0=.., t1=..) is a calendar holding exactly the holidays h and weekend w (proved on the body of Calendar.__init__ in this module, section constructor)')
                    c = MK(args[0].t, kwargs['holidays'].t, kwargs['weekend'].t, kwargs['t0'].t, kwargs['t1'].t)
                    ex.fact(And(HOLS(c) == kwargs['holidays'].t, WKND(c) == kwargs['weekend'].t))
                    return SV('calendar', c)
                return NotImplemented

            def truth(self, ex, st, v):
                if v.kind == 'val':      # truthiness of an argument (an empty holiday list is falsy but not None)
                    ex.fact(Not(TRUTHY(NONEV)))
                    return TRUTHY(v.t)
                return NotImplemented

        key, hol_, we_, t0_, t1_ = [Const(n_, Val) for n_ in ('RKEY', 'RHOL', 'RWE', 'RT0', 'RT1')]
        reg = SV('registry', None, dom=Array('reg_dom', Val, BoolSort()), val=Array('reg_val', Val, CalS))
        from pyvc.th_lists import Lists
        ex = Exec(m, [Registry(), TypePreds(), Lists()], inline={'calendar': (m, fdef)}, name='calendar', globals_={'calendars': reg})
        st = State()
        outs = ex.run_function(st, 'calendar', [V(key), V(hol_), V(we_), V(t0_), V(t1_)], {})
        ctx.absorb(ex)
        ctx.record_function(m, 'calendar', fdef, ex.stmts_executed, excluded=['key given as a Calendar object (copy / re-key branch): bounded only'])
        given = Or(hol_ != NONEV, we_ != NONEV, t0_ != NONEV, t1_ != NONEV)
        rw = dict(holidays_given=hol_ != NONEV, weekend_given=we_ != NONEV, holidays_truthy=TRUTHY(hol_), weekend_truthy=TRUTHY(we_), registered=reg.f['dom'][key])
        nret = 0
        for out in outs:
            hy = ex.facts + out.st.pc
            if out.kind != 'return':
                ctx.post('calendar.never_raises', hy, BoolVal(False), kind='safety', witness=rw, replay=rp('registry'))
                continue
            nret += 1
            r = out.val
            reg2 = out.st.env.get('calendars', reg)
            ctx.post('calendar.returns_the_registered_calendar', hy, And(reg2.f['dom'][key], reg2.f['val'][key] == r.t), witness=rw, replay=rp('registry'))
            ctx.post('calendar.reflects_the_arguments_it_was_last_registered_with', hy + [given],
                     And(HOLS(r.t) == hol_, WKND(r.t) == we_), witness=rw, replay=rp('registry'))
            ctx.post('calendar.plain_fetch_returns_the_stored_calendar', hy + [Not(given), reg.f['dom'][key]],
                     And(r.t == reg.f['val'][key], reg2.f['val'][key] == reg.f['val'][key]), witness=rw, replay=rp('registry'))
            k2 = Const('k!reg', Val)
            ctx.post('calendar.other_keys_untouched', hy, ForAll([k2], Implies(k2 != key, And(reg2.f['dom'][k2] == reg.f['dom'][k2], reg2.f['val'][k2] == reg.f['val'][k2]))))
        if nret == 0:
            raise OutOfSubset('calendar() has no returning path')
    ctx.guarded('registry', registry_section)

    # ------------------------------------------------------------------ vacuity
    ctx.cover('range_precondition_satisfiable', base_pre + [H(o + 1), WE(5), WE(6), LO < o, o < HI])
    ctx.trust('H (holidays) and WE (weekend) are uninterpreted: every holiday set and weekend definition is covered; a 7-day weekend is '
              'excluded by the range precondition (a business day exists on each side)')


def L_mono_inst(a, b):
    return L_mono(a, b)


def uniq_adjust_f(o, r, facts):
    """instances that identify the contract's fresh adjust result with the spec's: both are the first business day >= o"""
    out = []
    for f in facts:
        for v in _fresh_adj_symbols(f, 'adj_f'):
            out.append(Implies(And(adjust_post('f', o, v), adjust_post('f', o, r)), v == r))
    return out


def L_uniq_adjust(o, rf, rp_, facts):
    cs = []
    for f in facts:
        for v in _fresh_adj_symbols(f, 'adj_f'):
            cs.append(Implies(And(adjust_post('f', o, v), adjust_post('f', o, rf)), v == rf))
        for v in _fresh_adj_symbols(f, 'adj_p'):
            cs.append(Implies(And(adjust_post('p', o, v), adjust_post('p', o, rp_)), v == rp_))
    return And(*cs) if cs else BoolVal(True)


def _fresh_adj_symbols(f, prefix):
    seen, out, stack = set(), [], [f]
    while stack:
        e = stack.pop()
        if e.get_id() in seen:
            continue
        seen.add(e.get_id())
        if z3.is_const(e) and e.decl().kind() == z3.Z3_OP_UNINTERPRETED and e.decl().name().startswith(prefix + '!'):
            out.append(e)
        if z3.is_app(e):
            stack.extend(e.children())
        elif z3.is_quantifier(e):
            stack.append(e.body())
    return out


def add_with_hook(ctx, m, md, inline, fadd, add_whiles, self_, o, us, n, base_pre, wit, a0, add_post):
    if len(add_whiles) != 1:
        raise SelectorError('Calendar.add: expected one while loop')
    assign_t = None
    for s in fadd.body:
        if isinstance(s, ast.Assign) and isinstance(s.value, ast.Call) and ast.unparse(s.value.func) == 'self.adjust':
            assign_t = s
    if assign_t is None:
        raise SelectorError('Calendar.add: no `t = self.adjust(...)`')
    tname = assign_t.targets[0].id

    for label, days, pre, extra in (('plus_one', IntVal(1), [], lambda a: [a < HI]), ('minus_one', IntVal(-1), [], lambda a: [a > LO]),
                                    ('zero', IntVal(0), [], lambda a: []),
                                    ('table', n, [Or(n > 1, n < -1)], lambda a: [0 <= C(a) + n, C(a) + n < NB])):
        sign = -1 if label == 'minus_one' else (0 if label in ('zero', 'table') else 1)

        def record(ex, st, s, extra=extra):
            st.ghost['adjusted'] = st.env[tname].t
            st.pc += extra(st.env[tname].t)           # range precondition of this path, stated on the adjusted start

        def mk_inv(sign):
            def inv(st, entry):
                res, a = st.env['res'], st.ghost['adjusted']
                if sign > 0:
                    return [('after_start', And(res.t > a, res.us == 0)), ('only_holidays_skipped', _all_hol(a, res.t, incl_lo=False)),
                            ('bounded_by_witness', res.t <= HI)]
                if sign < 0:
                    return [('before_start', And(res.t < a, res.us == 0)), ('only_holidays_skipped', _all_hol(res.t, a, incl_lo=False)),
                            ('bounded_by_witness', res.t >= LO)]
                return [('stays_at_start', And(res.t == a, res.us == 0))]
            return inv
        loops = {id(add_whiles[0]): LoopSpec('While0', mk_inv(sign),
                                             variant=(lambda st: HI - st.env['res'].t) if sign > 0 else ((lambda st: st.env['res'].t - LO) if sign < 0 else (lambda st: IntVal(-1))))}
        for mode in 'fp':
            ex = Exec(m, theories(m, md, True), loops=loops, inline=inline, hooks=[(lambda s: s is assign_t, record)], name='add.%s.%s' % (label, mode))
            st = State(); st.pc += base_pre + pre
            outs = ex.run_function(st, 'Calendar.add', [self_, DT(o, us), I(days), S(mode)], {})
            ctx.absorb(ex)
            ctx.record_function(m, 'Calendar.add', fadd, ex.stmts_executed, excluded=['is_ts(date) branch (pandas timeseries input)'])
            nret = 0
            for out in outs:
                a_used = out.st.ghost.get('adjusted')
                if a_used is None:
                    ctx.post('add.%s.%s.no_exit_before_adjust' % (label, mode), ex.facts + out.st.pc, BoolVal(False), kind='safety', witness=wit)
                    continue
                hy = ex.facts + out.st.pc
                if out.kind != 'return':
                    ctx.post('add.%s.%s.never_raises.%s' % (label, mode, out.val), hy, BoolVal(False), kind='safety', witness=wit, replay=rp('add', mode))
                    continue
                nret += 1
                r = out.val
                lem = [GAP1(a_used, r.t), GAP1(r.t, a_used), AX_C(a_used), AX_C(r.t)]
                ctx.post('add.%s.%s.nth_business_day_from_adjusted_start' % (label, mode), hy + lem + [a0 == a_used], add_post(r, days),
                         witness=dict(wit, a0=a0), replay=rp('add', mode))
            if nret == 0:
                raise OutOfSubset('add(%s) has no returning path' % label)


def rp(kind, mode=None):
    def mk(model):
        d = dict(kind=kind, mode=mode)
        d.update(model)
        return d
    return mk
