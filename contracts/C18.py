"""C18 - decorators are transparent; cache / try_* / kwargs_support behaviours (the deductive part).

The decorated function f is an uninterpreted object: calling it with the argument tuple a and the keyword mapping k
  raises            iff  f_raises(f, a, k)
  returns           f_result(f, a, k)
and bumps the ghost counter `calls` (one per evaluation of f, whether it raises or not).  A wrapper object `self` is a dictattr;
its parameters are read as typed fields (attribute access on a dictattr mirrors item access: proved in C16, getattr.key).

Under contract (real AST, /repo/src/pyg_base/_cache.py, _decorators.py):
  cache_func.wrapped, cache_func._key   one call: f is evaluated iff the key is hashable and absent (or unhashable: fall-through);
                                        cache' = cache[key -> f(a, k)] / cache' = cache; the stored value is returned;
                                        two calls with the same arguments (second run from the first run's final state): one evaluation,
                                        equal results.  _prehash is an uninterpreted key function of (args, kwargs) - that it merges
                                        list with tuple and dict with tuple-of-items is the recorded known finding
                                        C18:cache:*:container-kind-twin and stays with the bounded stand-in.
  try_value.wrapped                     any repeat >= 0 (for loop with invariant "every earlier attempt raised"), any sleep,
                                        return_value, verbose: returns f's value iff f does not raise; returns copy(value) exactly on
                                        the exceptional path (when return_value), re-raises when not return_value; number of evaluations.
  try_* family                          try_none is try_value; try_nan / zero / true / false / list are try_value(value = <fallback>) with
                                        the defaults repeat = 0, return_value = True read from the signature of try_value.__init__.
  try_back.wrapped                      returns f's value iff f does not raise, else the first argument (positional, or the keyword
                                        named like f's first parameter); raises only when f raises and no first argument was passed.
  kwargs_support.wrapped, ._args        f receives the positional arguments unchanged and exactly the keywords in getargs(f);
                                        known finding D8 (f declares **kwargs: undeclared keywords are dropped) is an expected-sat
                                        obligation with key C18:kwargs_support:varkw-drops-undeclared.
  cache                                 refuses methods (first parameter self / cls) with ValueError, else returns cache_func(function).
  wrapper.__init__, ._kwargs            wrapper objects with identity (a heap of items): plain W(g), direct re-wrapping W(W(g)) - the function
                                        is g, parameters {**inner, **outer} - and a chain W(V(W(g))) - the function is a copy of the V object
                                        re-pointed at g, the argument objects are untouched (see wrapper_section).
  wrapper.__call__                      with a function set, forwards to `wrapped` with the same positional / keyword containers
                                        (for try_back, try_value, kwargs_support, cache_func).

Assumed / bounded only: getargs (uninterpreted list of parameter names; getargspec / inspect), `getcallargs` vs `inspect.getcallargs`
and call_with_callargs over all signature shapes (exhaustive over shapes in rac/C18.py), argspec forwarding, loops / pd2np
transparency, time.sleep and logger.warning have no effect on the program state, copy.copy of the fallback value.
"""
import ast
import z3
from z3 import And, Or, Not, If, Implies, Int, Ints, IntVal, BoolVal, Bool, Const, Consts, Function, IntSort, BoolSort, ForAll, Exists

from pyvc.front import select, SelectorError, OutOfSubset, find_all, find, strip_doc
from pyvc.symex import Exec, State, LoopSpec
from pyvc.theories import Globals
from pyvc.th_maps import (Maps, Val, Lst, Dct, Cls, LEN, AT, MEM, FST, NODUP, DOM, GET, RK, NXT, CARD, V, PList, PDict, fresh_val, HASHABLE, COPYV,
                          NONE_V, pairs)
from pyvc.sv import SV, I, B, S, T, NONE, fresh_int, fresh_name

PROP = 'C18'
REPLAY_MODULE = 'rac.C18_ded'

RES = Function('f_result', Val, Lst, Dct, Val)
RAISES = Function('f_raises', Val, Lst, Dct, BoolSort())
PREHASH = Function('prehash', Lst, Dct, Val)
ARGS = Function('getargs', Val, Lst)
VARKW = Function('declares_varkw', Val, BoolSort())


def class_methods(mod, cname):
    cdef = mod.func(cname)
    return {'%s.%s' % (cname, n.name): (mod, n) for n in cdef.body if isinstance(n, ast.FunctionDef)}


class Wrappers(Maps):
    """Maps + the wrapper object (typed fields) + calls of the decorated function (uninterpreted result / raises, ghost counter)"""

    def attr(self, ex, st, e, recv, name):
        if recv.kind == 'pdict' and 'fields' in recv.f and self.class_attr(recv.cls, name) is None:
            fields = recv.f['fields']
            if name in fields:
                present = recv.f['present'].get(name)
                if present is not None:
                    ex.raise_if(st, Not(present), 'AttributeError')
                ex.use('C16:attribute access on a dictattr mirrors item access (C16 getattr.key); wrapper parameters are read as typed fields')
                return fields[name]
            raise OutOfSubset('attribute %s of a wrapper object' % name)
        return Maps.attr(self, ex, st, e, recv, name)

    def store_attr(self, ex, st, tg, recv, name, v):
        if recv.kind == 'pdict' and 'fields' in recv.f and not name.startswith('_'):
            ex.use('C16:setting an attribute of a dictattr stores the item (dictattr.__setattr__ for names without a leading underscore)')
            f = dict(recv.f)
            f['fields'] = dict(f['fields']); f['fields'][name] = v
            f['present'] = dict(f['present']); f['present'].pop(name, None)
            return SV('pdict', None, **f)
        return NotImplemented

    def call(self, ex, st, e, fname, args, kwargs):
        if fname == 'getattr' and len(args) in (2, 3) and args[0].kind == 'pdict' and 'fields' in args[0].f and args[1].kind == 'str':
            recv, name = args[0], args[1].lit
            if name not in recv.f['fields']:
                raise OutOfSubset('getattr(wrapper, %r)' % name)
            val, present = recv.f['fields'][name], recv.f['present'].get(name)
            if present is None:
                return val
            if len(args) == 2:
                ex.raise_if(st, Not(present), 'AttributeError')
                return val
            m = self.merge(ex, st, present, val, args[2])
            if m is NotImplemented:
                raise OutOfSubset('getattr default of a different shape')
            return m
        if fname == '_prehash' and len(args) == 1 and args[0].kind == 'tuple' and len(args[0].items) == 2:
            a, k = args[0].items
            ex.use('uninterpreted:_prehash((args, kwargs)) is an uninterpreted key function (its list/tuple and dict/items merging is the '
                   'known finding C18:cache:*:container-kind-twin, bounded)')
            return V(PREHASH(a.pl.t, self.reify_dict(k.pd).t))
        if fname == 'getargs' and len(args) == 1 and args[0].kind == 'val':
            ex.use('uninterpreted:getargs(f) is an uninterpreted list of parameter names (getargspec / inspect are bounded-checked)')
            return SV('plist', None, pl=self.base_list(ARGS(args[0].t)), cls='list', tag=self.cls_tag('list'), own=True, elty='str')
        if fname in ('time.sleep', 'logger.warning', 'logger.info'):
            ex.use('axiom:%s has no effect on the program state' % fname)
            return NONE
        return Maps.call(self, ex, st, e, fname, args, kwargs)

    def bound_star(self, ex, st, fn, args, kwargs, star, dstar):
        recv = fn.recv
        if recv.kind == 'pdict' and 'fields' in recv.f and fn.mname in recv.f['fields'] and self.class_attr(recv.cls, fn.mname) is None:
            f = recv.f['fields'][fn.mname]
            if f.kind != 'val' or args or kwargs or star is None or dstar is None:
                raise OutOfSubset('call of the decorated function in an unexpected form')
            return self.call_f(ex, st, f, star, dstar)
        return NotImplemented

    def call_f(self, ex, st, f, star, dstar):
        ex.use('model:the decorated function is uninterpreted: f(*a, **k) raises iff f_raises(f, a, k), else returns f_result(f, a, k); '
               'ghost `calls` counts its evaluations')
        a = star.pl.t
        if a is None:
            raise OutOfSubset('positional arguments are not a list constant')
        kd = self.reify_dict(dstar.pd, 'kwpassed')
        st.ghost['calls'] = st.ghost['calls'] + 1
        st.ghost['last_call'] = (f.t, star.pl, dstar.pd, kd)
        ex.raise_if(st, RAISES(f.t, a, kd.t), 'Exception')
        return V(RES(f.t, a, kd.t))

    def call_value(self, ex, st, e, fn, args, kwargs, star=None, dstar=None):
        if fn.kind == 'val' and fn.f.get('ty') == 'callable' and not args and not kwargs and star is not None and dstar is not None:
            if 'calls' not in st.ghost:
                st.ghost['calls'] = IntVal(0)
            return self.call_f(ex, st, fn, star, dstar)
        return Maps.call_value(self, ex, st, e, fn, args, kwargs, star=star, dstar=dstar)

    def binop(self, ex, st, e, op, a, b):
        if op == 'Mod' and a.kind == 'str':
            return V(fresh_val('fmt'), 'str')
        return Maps.binop(self, ex, st, e, op, a, b)

    def is_none(self, ex, st, v):
        if v.kind == 'exc':
            return BoolVal(False)
        return Maps.is_none(self, ex, st, v)


def record_inlined(ctx, ex):
    """every repo function whose statements were executed (directly or inlined at a call site) is listed in the evidence"""
    for key, (mod, fdef) in ex.inline.items():
        if any(isinstance(n, ast.stmt) and id(n) in ex.stmts_executed for n in ast.walk(fdef) if n is not fdef):
            ctx.record_function(mod, key, fdef, ex.stmts_executed)


def machinery(ctx):
    mc, mdec, mda, mt = ctx.mod('_cache'), ctx.mod('_decorators'), ctx.mod('_dictattr'), ctx.mod('_types')
    classes = {'dictattr': (mda, mda.func('dictattr'), 'dict'), 'wrapper': (mdec, mdec.func('wrapper'), 'dictattr'),
               'cache_func': (mc, mc.func('cache_func'), 'wrapper')}
    for c in ('try_value', 'try_back', 'kwargs_support'):
        classes[c] = (mdec, mdec.func(c), 'wrapper')
    inline = {}
    for c, (mod, cdef, base) in classes.items():
        inline.update(class_methods(mod, c))
    return dict(mc=mc, mdec=mdec, classes=classes, inline=inline)


def on_lookup(ex, st, d, k):
    ex.use('axiom:`k in d` / d[k] = v raise TypeError for an unhashable k')
    ex.raise_if(st, Not(HASHABLE(k)), 'TypeError')


def new_theory(M):
    th = Wrappers(M['classes'])
    th.on_lookup = on_lookup
    return th


def wrapper_self(th, cls, fields, present=None):
    return th.sym_dict('self', cls=cls, own=False, fields=dict(fields), present=dict(present or {}))


def rp(kind, *extra):
    def mk(model):
        d = dict(kind=kind, extra=list(extra))
        d.update(model)
        return d
    return mk


F = Const('f', Val)
A = Const('args', Lst)
KW = Const('kwargs', Dct)
X0 = Const('X0', Val)


def call_inputs(th):
    args = th.sym_list('args', cls='tuple', own=True)
    kwargs = th.sym_dict('kwargs', cls='dict', own=True, kty='str')
    return args, kwargs


def final_fields(st):
    s = st.env.get('self')
    return s.f['fields'] if s is not None and s.kind == 'pdict' and 'fields' in s.f else {}


# =============================================================================================== cache
def cache_section(ctx, M):
    mc = M['mc']
    fdef = M['inline']['cache_func.wrapped'][1]
    HAS = Bool('has_cache')
    C0 = Const('cache0', Dct)
    calls0 = Int('calls0')
    KEY = PREHASH(A, KW)

    def run_once(th, ex, st, self_, args, kwargs):
        return ex.run_function(st, 'cache_func.wrapped', [self_], {'*': args, '**': kwargs})

    th = new_theory(M)
    ex = Exec(mc, [th, Globals(mc, ['_cache'])], inline=M['inline'], name='cache.wrapped')
    args, kwargs = call_inputs(th)
    cache0 = th.sym_dict('cache0', cls='dict', own=True)
    self_ = wrapper_self(th, 'cache_func', dict(function=V(F, 'callable'), cache=cache0), present=dict(cache=HAS))
    st = State(); st.ghost['calls'] = calls0
    outs = run_once(th, ex, st, self_, args, kwargs)
    E = [X0, KEY]
    inst = th.inst(E)
    for ob in ex.obligations:
        ob.hyps = list(ob.hyps) + inst
    record_inlined(ctx, ex)
    ctx.absorb(ex)
    ctx.record_function(mc, 'cache_func.wrapped', fdef, ex.stmts_executed)
    ctx.record_function(mc, 'cache_func._key', M['inline']['cache_func._key'][1], ex.stmts_executed)
    raises = RAISES(F, A, KW)
    res = RES(F, A, KW)
    had = lambda x: And(HAS, DOM(C0, x))
    ctx.default_meta = dict(search_hints=[calls0 == 0])
    wit = dict(has_cache=HAS, key_cached=had(KEY), hashable=HASHABLE(KEY), f_raises=raises, calls0=calls0)
    kw = dict(witness=wit, replay=rp('cache'))
    pre = 'cache.wrapped.'
    nret = 0
    firsts = []
    for out in outs:
        hy = ex.facts + out.st.pc + inst
        calls = out.st.ghost['calls']
        if out.kind == 'raise':
            ctx.post(pre + 'raises_only_what_f_raises', hy, And(BoolVal(out.val == 'Exception'), raises), kind='safety', **kw)
            ctx.post(pre + 'a_raising_f_is_evaluated_once_or_twice', hy, Or(calls == calls0 + 1, calls == calls0 + 2), **kw)
            continue
        nret += 1
        r = th.to_val(ex, out.val)
        cache = final_fields(out.st).get('cache')
        if cache is None or cache.kind != 'pdict':
            raise OutOfSubset('no cache after the call')
        Cf = cache.pd
        firsts.append((out, r, Cf))
        nr = [Not(raises)]
        ctx.post(pre + 'miss.f_evaluated_once', hy + nr + [HASHABLE(KEY), Not(had(KEY))], calls == calls0 + 1, **kw)
        ctx.post(pre + 'miss.result_is_f_of_the_arguments', hy + nr + [HASHABLE(KEY), Not(had(KEY))], r == res, **kw)
        ctx.post(pre + 'miss.cache_gains_exactly_the_key', hy + nr + [HASHABLE(KEY), Not(had(KEY))], Cf.dom(X0) == Or(had(X0), X0 == KEY), **kw)
        ctx.post(pre + 'miss.cache_maps_the_key_to_the_result_and_keeps_the_rest', hy + nr + [HASHABLE(KEY), Not(had(KEY)), Cf.dom(X0)],
                 Cf.get(X0) == If(X0 == KEY, res, GET(C0, X0)), **kw)
        ctx.post(pre + 'hit.f_not_evaluated', hy + [HASHABLE(KEY), had(KEY)], calls == calls0, **kw)
        ctx.post(pre + 'hit.stored_value_returned', hy + [HASHABLE(KEY), had(KEY)], r == GET(C0, KEY), **kw)
        ctx.post(pre + 'hit.cache_unchanged', hy + [HASHABLE(KEY), had(KEY)], And(Cf.dom(X0) == had(X0), Implies(had(X0), Cf.get(X0) == GET(C0, X0))), **kw)
        ctx.post(pre + 'unhashable.falls_through_to_a_direct_call', hy + nr + [Not(HASHABLE(KEY))], And(r == res, calls == calls0 + 1), **kw)
        ctx.post(pre + 'unhashable.cache_unchanged', hy + nr + [Not(HASHABLE(KEY))], And(Cf.dom(X0) == had(X0), Implies(had(X0), Cf.get(X0) == GET(C0, X0))), **kw)
        ctx.post(pre + 'returns_only_if_f_does_not_raise_or_hit', hy + [raises], And(HASHABLE(KEY), had(KEY)), **kw)
    if not nret:
        raise OutOfSubset('cache_func.wrapped has no returning path')
    ctx.cover(pre + 'precondition.miss', [Not(raises), HASHABLE(KEY), Not(had(KEY)), had(X0)] + inst)
    ctx.cover(pre + 'precondition.hit', [HASHABLE(KEY), had(KEY)] + inst)
    ctx.cover(pre + 'precondition.unhashable', [Not(HASHABLE(KEY)), Not(raises)] + inst)

    # ---- history: the same call again, from the final state of the first call
    n2 = 0
    for i, (out, r1, Cf1) in enumerate(firsts):
        ex2 = Exec(mc, [th, Globals(mc, ['_cache'])], inline=M['inline'], name='cache.wrapped.second_call')
        st2 = State(); st2.pc = list(out.st.pc); st2.ghost = dict(out.st.ghost)
        calls1 = out.st.ghost['calls']
        outs2 = run_once(th, ex2, st2, out.st.env['self'], args, kwargs)
        inst2 = th.inst(E)
        for ob in ex2.obligations:
            ob.hyps = list(ob.hyps) + inst2
        ctx.absorb(ex2)
        for o2 in outs2:
            hy = ex.facts + ex2.facts + o2.st.pc + inst2
            if o2.kind == 'raise':
                ctx.post('cache.second_call.raises_only_what_f_raises', hy, raises, kind='safety', **kw)
                continue
            n2 += 1
            r2 = th.to_val(ex2, o2.val)
            ctx.post('cache.second_call.same_arguments_are_not_evaluated_again', hy + [Not(raises), HASHABLE(KEY)], o2.st.ghost['calls'] == calls1, **kw)
            ctx.post('cache.second_call.returns_the_first_result', hy + [Not(raises), HASHABLE(KEY)], r2 == r1, **kw)
            ctx.post('cache.two_calls.exactly_one_evaluation_per_new_key', hy + [Not(raises), HASHABLE(KEY), Not(had(KEY))], o2.st.ghost['calls'] == calls0 + 1, **kw)
    if not n2:
        raise OutOfSubset('second call has no returning path')
    ctx.trust('cache: "exactly once per distinct argument combination over any call sequence" follows from the one-call and two-call contracts by '
              'induction over the call sequence (keys of other calls are untouched: miss.cache_maps_the_key_to_the_result_and_keeps_the_rest)')


def cache_decorator_section(ctx, M):
    """cache(function): refuses methods (first parameter self / cls), otherwise returns cache_func(function)"""
    mc = M['mc']
    fdef = mc.func('cache')
    th = new_theory(M)
    made = []

    def construct(ex, st, args, kwargs, star=None, dstar=None):
        made.append((args, kwargs))
        return SV('constructed', None, cls='cache_func')
    th.contracts['cache_func'] = construct
    inline = dict(M['inline']); inline['cache'] = (mc, fdef)
    ex = Exec(mc, [th], inline=inline, name='cache.decorator')
    outs = ex.run_function(State(), 'cache', [V(F, 'callable')], {})
    P = ARGS(F)
    first = AT(P, 0)
    inst = th.inst([first], [0])
    for ob in ex.obligations:
        ob.hyps = list(ob.hyps) + inst
    record_inlined(ctx, ex)
    ctx.absorb(ex)
    ctx.record_function(mc, 'cache', fdef, ex.stmts_executed)
    is_method = And(LEN(P) > 0, Or(first == th.strv('self'), first == th.strv('cls')))
    kw = dict(witness=dict(n_params=LEN(P)), replay=rp('cache'))
    nret = 0
    for out in outs:
        hy = ex.facts + out.st.pc + inst
        if out.kind == 'raise':
            ctx.post('cache.decorator.raises_only_ValueError_and_only_for_methods', hy, And(BoolVal(out.val == 'ValueError'), is_method), kind='safety', **kw)
            continue
        nret += 1
        ok = out.val.kind == 'constructed' and len(made) == 1 and len(made[0][0]) == 1 and made[0][0][0].kind == 'val' and not made[0][1]
        ctx.post('cache.decorator.returns_cache_func_of_the_function', hy, And(BoolVal(ok), made[0][0][0].t == F if ok else BoolVal(False), Not(is_method)), **kw)
    if not nret:
        raise OutOfSubset('cache() has no returning path')
    ctx.cover('cache.decorator.precondition.method', [is_method] + inst)
    ctx.cover('cache.decorator.precondition.function', [Not(is_method)] + inst)


# =============================================================================================== try_value / try_back
def try_value_section(ctx, M):
    mdec = M['mdec']
    fdef = M['inline']['try_value.wrapped'][1]
    fors = find_all(fdef, lambda n: isinstance(n, ast.For))
    if len(fors) != 1:
        raise SelectorError('try_value.wrapped: expected one for loop')
    REP, SL, calls0 = Ints('repeat sleep calls0')
    RV, VB = Bool('return_value'), Bool('verbose')
    VALUE = Const('value', Val)
    raises = RAISES(F, A, KW)
    res = RES(F, A, KW)

    def run(label, rep, rv, pre_pc):
        th = new_theory(M)

        def inv(st, entry):
            k = st.ghost['try.For0.k']
            return [('one_evaluation_per_attempt', st.ghost['calls'] == calls0 + k), ('every_earlier_attempt_raised', Implies(k > 0, raises))]

        def havoc(ex_, st):
            st.ghost['calls'] = fresh_int('calls')
        ex = Exec(mdec, [th], inline=M['inline'], loops={id(fors[0]): LoopSpec('try.For0', inv, ghost_havoc=havoc)}, name='try_value.wrapped.' + label)
        args, kwargs = call_inputs(th)
        self_ = wrapper_self(th, 'try_value', dict(function=V(F, 'callable'), repeat=I(rep), sleep=I(SL), return_value=B(rv), value=V(VALUE), verbose=B(VB)))
        st = State(); st.ghost['calls'] = calls0
        st.pc += pre_pc + [SL >= 0]
        outs = ex.run_function(st, 'try_value.wrapped', [self_], {'*': args, '**': kwargs})
        inst = th.inst([])
        for ob in ex.obligations:
            ob.hyps = list(ob.hyps) + inst
        record_inlined(ctx, ex)
        ctx.absorb(ex)
        ctx.record_function(mdec, 'try_value.wrapped', fdef, ex.stmts_executed)
        ctx.default_meta = dict(search_hints=[calls0 == 0, SL == 0] + ([rep >= 0, rep <= 3] if z3.is_expr(rep) else []))
        wit = dict(repeat=rep if z3.is_expr(rep) else IntVal(rep), sleep=SL, return_value=rv if z3.is_expr(rv) else BoolVal(rv), verbose=VB, f_raises=raises, calls0=calls0)
        kw = dict(witness=wit, replay=rp('try_value', label))
        pre = 'try_value.wrapped.%s.' % label
        nret = 0
        repz = rep if z3.is_expr(rep) else IntVal(rep)
        attempts = If(repz > 0, repz, 0)
        for out in outs:
            hy = ex.facts + out.st.pc + inst
            calls = out.st.ghost['calls']
            if out.kind == 'raise':
                ctx.post(pre + 'raises_only_if_f_raises_and_no_fallback_was_asked_for', hy, And(BoolVal(out.val == 'Exception'), raises, Not(rv if z3.is_expr(rv) else BoolVal(rv))), kind='safety', **kw)
                continue
            nret += 1
            r = th.to_val(ex, out.val)
            ctx.post(pre + 'returns_what_f_returns_when_f_does_not_raise', hy + [Not(raises)], And(r == res, calls == calls0 + 1), **kw)
            ctx.post(pre + 'returns_the_fallback_exactly_when_f_raises', hy + [raises], r == COPYV(VALUE), **kw)
            ctx.post(pre + 'fallback_only_on_the_exceptional_path', hy + [r != res], raises, **kw)
            ctx.post(pre + 'a_raising_f_is_tried_repeat_plus_one_times', hy + [raises], calls == calls0 + attempts + 1, **kw)
        if not nret:
            raise OutOfSubset('try_value.wrapped has no returning path')
        ctx.cover(pre + 'precondition.raising', pre_pc + [raises] + inst)
        ctx.cover(pre + 'precondition.returning', pre_pc + [Not(raises)] + inst)
    run('general', REP, RV, [])
    run('family_defaults', 0, True, [])
    ctx.trust('try_value: copy.copy(value) of an immutable fallback (None, 0, nan, True, False) is that value; of [] a new empty list')

    # ---- the try_* family: read from the module text
    def is_try_value_with(node, expect):
        return (isinstance(node, ast.Call) and isinstance(node.func, ast.Name) and node.func.id == 'try_value' and not node.args
                and len(node.keywords) == 1 and node.keywords[0].arg == 'value' and ast.unparse(node.keywords[0].value) == expect)
    fam = dict(witness=dict(family=BoolVal(True)), replay=rp('try_value', 'family'))
    for name, expect in (('try_nan', 'np.nan'), ('try_zero', '0'), ('try_true', 'True'), ('try_false', 'False'), ('try_list', '[]')):
        node = mdec.global_assign(name)
        ctx.post('try_family.%s_is_try_value_with_fallback_%s' % (name, expect.replace('.', '_').replace('[]', 'empty_list')), [], BoolVal(is_try_value_with(node, expect)), **fam)
    node = mdec.global_assign('try_none')
    ctx.post('try_family.try_none_is_try_value', [], BoolVal(isinstance(node, ast.Name) and node.id == 'try_value'), **fam)
    init = M['inline']['try_value.__init__'][1]
    names = [a.arg for a in init.args.args]
    dflt = dict(zip(names[len(names) - len(init.args.defaults):], [ast.unparse(d) for d in init.args.defaults]))
    ctx.post('try_family.defaults_are_one_attempt_and_return_the_fallback', [],
             BoolVal(dflt.get('repeat') == '0' and dflt.get('return_value') == 'True' and dflt.get('value') == 'None' and dflt.get('sleep') == '0'), **fam)
    sup = find(init, lambda n: isinstance(n, ast.Call) and isinstance(n.func, ast.Attribute) and n.func.attr == '__init__', 'super().__init__ call')
    passed = {k.arg: ast.unparse(k.value) for k in sup.keywords}
    ctx.post('try_family.init_forwards_its_parameters_unchanged', [], BoolVal(all(passed.get(n) == n for n in ('function', 'repeat', 'sleep', 'return_value', 'value', 'verbose'))), **fam)


def try_back_section(ctx, M):
    mdec = M['mdec']
    fdef = M['inline']['try_back.wrapped'][1]
    calls0 = Int('calls0')
    raises = RAISES(F, A, KW)
    res = RES(F, A, KW)
    th = new_theory(M)
    ex = Exec(mdec, [th], inline=M['inline'], name='try_back.wrapped')
    args, kwargs = call_inputs(th)
    self_ = wrapper_self(th, 'try_back', dict(function=V(F, 'callable')))
    st = State(); st.ghost['calls'] = calls0
    outs = ex.run_function(st, 'try_back.wrapped', [self_], {'*': args, '**': kwargs})
    P = ARGS(F)
    first = AT(P, 0)
    E = [first, AT(A, 0)]
    inst = th.inst(E, [0])
    for ob in ex.obligations:
        ob.hyps = list(ob.hyps) + inst
    record_inlined(ctx, ex)
    ctx.absorb(ex)
    ctx.record_function(mdec, 'try_back.wrapped', fdef, ex.stmts_executed)
    ctx.default_meta = dict(search_hints=[LEN(A) <= 3, LEN(P) <= 3])
    wit = dict(n_args=LEN(A), n_params=LEN(P), first_param_passed_by_keyword=DOM(KW, first), f_raises=raises)
    kw = dict(witness=wit, replay=rp('try_back'))
    pre = 'try_back.wrapped.'
    has_first = Or(LEN(A) > 0, And(LEN(P) > 0, DOM(KW, first)))
    nret = 0
    for out in outs:
        hy = ex.facts + out.st.pc + inst
        calls = out.st.ghost['calls']
        if out.kind == 'raise':
            ctx.post(pre + 'raises_only_if_f_raises_and_there_is_no_first_argument', hy, And(raises, Not(has_first), BoolVal(out.val in ('IndexError', 'KeyError'))), kind='safety', **kw)
            continue
        nret += 1
        r = th.to_val(ex, out.val)
        ctx.post(pre + 'returns_what_f_returns_when_f_does_not_raise', hy + [Not(raises)], r == res, **kw)
        ctx.post(pre + 'returns_the_first_positional_argument_when_f_raises', hy + [raises, LEN(A) > 0], r == AT(A, 0), **kw)
        ctx.post(pre + 'returns_the_first_parameter_passed_by_keyword_when_f_raises', hy + [raises, LEN(A) == 0], And(LEN(P) > 0, DOM(KW, first), r == GET(KW, first)), **kw)
        ctx.post(pre + 'f_is_evaluated_exactly_once', hy, calls == calls0 + 1, **kw)
    if not nret:
        raise OutOfSubset('try_back.wrapped has no returning path')
    ctx.cover(pre + 'precondition.raising_positional', [raises, LEN(A) > 0] + inst)
    ctx.cover(pre + 'precondition.raising_keyword', [raises, LEN(A) == 0, LEN(P) > 0, DOM(KW, first)] + inst)


# =============================================================================================== kwargs_support
def kwargs_support_section(ctx, M):
    mdec = M['mdec']
    fdef = M['inline']['kwargs_support.wrapped'][1]
    calls0 = Int('calls0')
    th = new_theory(M)
    ex = Exec(mdec, [th], inline=M['inline'], name='kwargs_support.wrapped')
    args, kwargs = call_inputs(th)
    self_ = wrapper_self(th, 'kwargs_support', dict(function=V(F, 'callable')))
    st = State(); st.ghost['calls'] = calls0
    outs = ex.run_function(st, 'kwargs_support.wrapped', [self_], {'*': args, '**': kwargs})
    P = ARGS(F)
    E = [X0]
    inst = th.inst(E)
    for ob in ex.obligations:
        ob.hyps = list(ob.hyps) + inst
    record_inlined(ctx, ex)
    ctx.absorb(ex)
    ctx.record_function(mdec, 'kwargs_support.wrapped', fdef, ex.stmts_executed)
    ctx.record_function(mdec, 'kwargs_support._args', M['inline']['kwargs_support._args'][1], ex.stmts_executed)
    ctx.default_meta = dict(search_hints=[])
    wit = dict(X0_passed=DOM(KW, X0), X0_declared=MEM(P, X0), declares_varkw=VARKW(F))
    kw = dict(witness=wit, replay=rp('kwargs_support'))
    pre = 'kwargs_support.wrapped.'
    nout = 0
    for out in outs:
        hy = ex.facts + out.st.pc + inst
        lc = out.st.ghost.get('last_call')
        if lc is None:
            ctx.post(pre + 'f_is_called_on_every_path', hy, BoolVal(False), kind='safety', **kw)
            continue
        nout += 1
        f_, pos, kwp, kd = lc
        passed_raises, passed_res = RAISES(f_, pos.t, kd.t), RES(f_, pos.t, kd.t)
        ctx.post(pre + 'calls_the_decorated_function_once', hy, And(f_ == F, out.st.ghost['calls'] == calls0 + 1), **kw)
        ctx.post(pre + 'positional_arguments_passed_unchanged', hy, BoolVal(pos.t is not None and pos.t.eq(A)), **kw)
        ctx.post(pre + 'passes_exactly_the_keywords_in_getargs', hy, kwp.dom(X0) == And(DOM(KW, X0), MEM(P, X0)), **kw)
        ctx.post(pre + 'passed_keywords_keep_their_values', hy + [kwp.dom(X0)], kwp.get(X0) == GET(KW, X0), **kw)
        if out.kind == 'raise':
            ctx.post(pre + 'raises_only_what_f_raises_on_the_passed_arguments', hy, And(BoolVal(out.val == 'Exception'), passed_raises), kind='safety', **kw)
        else:
            ctx.post(pre + 'returns_what_f_returns_on_the_passed_arguments', hy, And(th.to_val(ex, out.val) == passed_res, Not(passed_raises)), **kw)
        # transparency: f sees every keyword it was given.  Holds for a valid call of a function without **kwargs (every keyword is a
        # declared parameter); fails for a function that declares **kwargs - the recorded finding D8
        ctx.post(pre + 'transparent_when_every_keyword_is_declared', hy + [Implies(DOM(KW, X0), MEM(P, X0))], kwp.dom(X0) == DOM(KW, X0), **kw)
        ctx.known(pre + 'transparent_for_functions_declaring_varkw', hy + [VARKW(F)], kwp.dom(X0) == DOM(KW, X0), 'C18:kwargs_support:varkw-drops-undeclared',
                  witness=wit, replay=rp('kwargs_support', 'varkw'))
    if not nout:
        raise OutOfSubset('kwargs_support.wrapped never calls f')
    ctx.cover(pre + 'precondition', [DOM(KW, X0), Not(MEM(P, X0))] + inst)


# =============================================================================================== wrapper.__init__ / __call__
CLS_FUNCTION = Const('class_function', Cls)
WRAPPED_RESULT = Function('wrapped_result', Lst, Dct, Val)


class WrapObjs(Wrappers):
    """wrapper objects *with identity*: a symbolic reference SV('wref', oid) into a heap kept in st.ghost['heap'] (oid -> the items
    'function', 'function_fullargspec', ... held python-side, and `rest`: the other parameters as a symbolic mapping).  Aliases
    (f = function; f[_function] = ...) therefore see each other's writes; copy.copy allocates a new object with the same items."""

    def __init__(self, *a, **k):
        Wrappers.__init__(self, *a, **k)
        self._oid = 0
        self.dispatched = []

    def new_obj(self, st, cls, tag, items, rest):
        self._oid += 1
        heap = dict(st.ghost.get('heap', {}))
        heap[self._oid] = dict(items=dict(items), rest=rest)
        st.ghost['heap'] = heap
        return SV('wref', None, oid=self._oid, cls=cls, tag=tag)

    @staticmethod
    def obj(st, ref):
        return st.ghost['heap'][ref.oid]

    @staticmethod
    def write(st, ref, items=None, rest=None):
        heap = dict(st.ghost['heap'])
        o = dict(heap[ref.oid])
        if items is not None:
            o['items'] = dict(o['items']); o['items'].update(items)
        if rest is not None:
            o['rest'] = rest
        heap[ref.oid] = o
        st.ghost['heap'] = heap

    def call(self, ex, st, e, fname, args, kwargs):
        if fname == 'copy' and len(args) == 1 and args[0].kind == 'wref':
            o = self.obj(st, args[0])
            ex.use('axiom:copy.copy(x) is a new top-level object of the same class with the same items (children shared)')
            return self.new_obj(st, args[0].cls, args[0].tag, o['items'], o['rest'])
        if fname == 'type' and len(args) == 1 and args[0].kind == 'wref':
            return SV('cls', None, tag=args[0].tag, base=args[0].cls)
        if fname == 'hasattr' and len(args) == 2 and args[0].kind in ('val', 'wref') and args[1].kind == 'str':
            ex.use('uninterpreted:hasattr(f, name) of the decorated function')
            return B(z3.Bool(fresh_name('hasattr_' + args[1].lit)))
        if fname == 'getattr' and len(args) == 2 and args[0].kind in ('val', 'wref') and args[1].kind == 'str' and args[1].lit.startswith('__'):
            return V(fresh_val('attr_' + args[1].lit))
        if fname == 'getattr' and len(args) == 3 and args[0].kind == 'wref' and args[1].kind == 'str':
            ca = self.class_attr(args[0].cls, args[1].lit)
            if ca is not None and ca[0] == 'method':
                return SV('bound', None, recv=args[0], mname=args[1].lit)
            raise OutOfSubset('getattr(wrapper, %r, default)' % args[1].lit)
        if fname == 'setattr' and len(args) == 3 and args[0].kind == 'wref' and args[1].kind == 'str':
            if args[1].lit.startswith('_'):
                ex.use('model:setattr(self, "_name", v) sets a python attribute (dictattr.__setattr__), not an item')
                return NONE
            self.write(st, args[0], items={args[1].lit: args[2]})
            return NONE
        return Wrappers.call(self, ex, st, e, fname, args, kwargs)

    def attr(self, ex, st, e, recv, name):
        if recv.kind == 'wref':
            ca = self.class_attr(recv.cls, name)
            if ca is not None and ca[0] == 'property' and ca[1] in ex.inline:
                return ex.call_inline_expr(st, ca[1], [recv], {})
            if ca is not None and ca[0] == 'method':
                return SV('bound', None, recv=recv, mname=name)
            o = self.obj(st, recv)
            if ca is None and name in o['items']:
                ex.use('C16:attribute access on a dictattr mirrors item access (C16 getattr.key)')
                return o['items'][name]
            raise OutOfSubset('attribute %s of a wrapper object' % name)
        return Wrappers.attr(self, ex, st, e, recv, name)

    def method(self, ex, st, e, recv, mname, args, kwargs):
        if recv.kind == 'wref':
            if mname == 'items' and not args:
                return SV('witems', None, of=recv)
            key = self.resolve(recv.cls, mname)
            if key is not None and key in ex.inline:
                return ex.call_inline_expr(st, key, [recv] + list(args), kwargs)
            return NotImplemented
        return Wrappers.method(self, ex, st, e, recv, mname, args, kwargs)

    def subscript(self, ex, st, e, recv, idx):
        if recv.kind == 'wref' and idx.kind == 'str':
            o = self.obj(st, recv)
            if idx.lit in o['items']:
                return o['items'][idx.lit]
            raise OutOfSubset('item %r of a wrapper object' % idx.lit)
        return Wrappers.subscript(self, ex, st, e, recv, idx)

    def store_subscript(self, ex, st, tg, recv, idx, v):
        if recv.kind == 'wref' and idx.kind == 'str':
            self.mutations.append(('wrapper[%r] = ...' % idx.lit, recv.oid))
            self.write(st, recv, items={idx.lit: v})
            return None
        return Wrappers.store_subscript(self, ex, st, tg, recv, idx, v)

    def bound_star(self, ex, st, fn, args, kwargs, star, dstar):
        recv = fn.recv
        if recv.kind == 'super' and recv.of.kind == 'wref' and fn.mname == '__init__':
            if args or kwargs or star is not None or dstar is None:
                raise OutOfSubset('super().__init__ with positional arguments')
            ex.use('assumed contract:dict.__init__(**kw) on a new object stores exactly the items of kw')
            self.write(st, recv.of, rest=dstar)
            return NONE
        if recv.kind == 'wref' and fn.mname == 'wrapped':
            if args or kwargs or star is None or dstar is None:
                raise OutOfSubset('wrapped called in an unexpected form')
            self.dispatched.append((recv, star, dstar))
            ex.use('callee contract:wrapped(*args, **kwargs) of the subclass is under contract in its own section; here its result is opaque')
            return V(WRAPPED_RESULT(star.pl.t, self.reify_dict(dstar.pd).t))
        return Wrappers.bound_star(self, ex, st, fn, args, kwargs, star, dstar)

    def dictcomp(self, ex, st, e):
        g = e.generators[0]
        it = ex.eval(st, g.iter)
        if it.kind != 'witems':
            return Maps.dictcomp(self, ex, st, e)
        if not (isinstance(g.target, ast.Tuple) and len(g.target.elts) == 2 and all(isinstance(x, ast.Name) for x in g.target.elts)
                and isinstance(e.key, ast.Name) and isinstance(e.value, ast.Name) and e.key.id == g.target.elts[0].id and e.value.id == g.target.elts[1].id):
            raise OutOfSubset('dict comprehension over the items of a wrapper in an unexpected form')
        kn, vn = e.key.id, e.value.id
        o = self.obj(st, it.of)
        env = dict(st.env)
        theory = self

        def cond_sv(k, v):
            env2 = dict(env); env2[kn] = k; env2[vn] = v
            cs = []
            for c in g.ifs:
                val, pend, extra = theory._eval_pure(ex, st, env2, c, 'filter')
                if pend or extra:
                    raise OutOfSubset('comprehension filter that can raise')
                cs.append(ex.truth(st, val))
            return And(*cs) if cs else BoolVal(True)
        rest = o['rest'].pd if o['rest'] is not None else PDict.empty()
        res = rest.filtered(lambda k, v: cond_sv(V(k, 'str'), V(v)))
        for name, item in o['items'].items():
            c = z3.simplify(cond_sv(S(name), item))
            if z3.is_true(c):
                res = res.stored(self.strv(name), self.to_val(ex, item))
            elif not z3.is_false(c):
                raise OutOfSubset('filter undecided on the item %r' % name)
        ex.use('axiom:{k: v for k, v in d.items() if p(k, v)} keeps exactly the items satisfying p')
        return self.mk_dict(res)

    def is_none(self, ex, st, v):
        if v.kind in ('wref', 'bound'):
            return BoolVal(False)
        return Wrappers.is_none(self, ex, st, v)

    def binop(self, ex, st, e, op, a, b):
        if op == 'Mod' and a.kind == 'str' and b.kind == 'str' and a.t is None and b.t is None:
            return S(a.lit % b.lit)
        return Wrappers.binop(self, ex, st, e, op, a, b)


def wrapper_section(ctx, M):
    """wrapper.__init__: no double wrapping.  W is the symbolic class of `self` (any subclass of wrapper whose own __init__ forwards to
    wrapper.__init__), V a different wrapper class, g a plain function.
      direct   W(w1, **kw2) with w1 = W(g, **kw1)        ->  function is g (not w1), parameters {**kw1, **kw2}, w1 untouched
      plain    W(g, **kw2)                               ->  function is g, parameters kw2
      chain    W(v1, **kw2) with v1 = V(W(g, **kw1))     ->  function is a *copy* of v1 whose function is g; parameters {**kw1, **kw2};
                                                             v1 itself still wraps its W(g) (the unwrapping writes into the copy)
    wrapper.__call__: with a function set, the call is forwarded to `wrapped` with the same positional / keyword containers."""
    mdec = M['mdec']
    fdef = M['inline']['wrapper.__init__'][1]
    G = Const('g', Val)
    TAG_W, TAG_V = Consts('class_W class_V', Cls)
    K0 = Const('K0', Val)

    def setup(name):
        th = WrapObjs(M['classes'])
        th.on_lookup = on_lookup
        ex = Exec(mdec, [th, Globals(mdec, ['_function', '_spec'])], inline=M['inline'], name=name)
        st = State()
        st.ghost['heap'] = {}
        st.pc += [TAG_W != TAG_V, TAG_W != CLS_FUNCTION, TAG_V != CLS_FUNCTION]
        return th, ex, st

    def params(th, name):
        d = th.sym_dict(name, cls='dict', own=True, kty='str')
        return d, [Not(d.pd.dom(th.strv('function'))), Not(d.pd.dom(th.strv('function_fullargspec')))]

    g_sv = SV('val', G, ty='callable', tag=CLS_FUNCTION)

    def run(label, build_function):
        th, ex, st = setup('wrapper.__init__.' + label)
        kw2, pre2 = params(th, 'kw2')
        st.pc += pre2
        function, originals = build_function(th, st)
        self_ = th.new_obj(st, 'wrapper', TAG_W, {}, None)
        heap0 = st.ghost['heap']
        outs = ex.run_function(st, 'wrapper.__init__', [self_, function], {'**': kw2})
        inst = th.inst([K0])
        for ob in ex.obligations:
            ob.hyps = list(ob.hyps) + inst
        record_inlined(ctx, ex)
        ctx.absorb(ex)
        ctx.record_function(mdec, 'wrapper.__init__', fdef, ex.stmts_executed)
        return th, ex, st, kw2, self_, heap0, outs, inst, originals

    def untouched(out, heap0, refs):
        h = out.st.ghost['heap']
        return BoolVal(all(h[r.oid]['items'] == heap0[r.oid]['items'] and h[r.oid]['rest'] is heap0[r.oid]['rest'] for r in refs))

    def hidden(th, kw2):
        from pyvc.th_maps import STARTSWITH
        return STARTSWITH(K0, th.strv('_'))
    kwr = dict(witness=dict(K0=K0), replay=rp('wrapper'))

    def posts(label, th, ex, kw2, self_, heap0, outs, inst, originals, expect_function, expect_params):
        pre = 'wrapper.__init__.%s.' % label
        nret = 0
        for out in outs:
            hy = ex.facts + out.st.pc + inst
            if out.kind == 'raise':
                ctx.post(pre + 'raises_only_ValueError_for_hidden_parameters', hy, BoolVal(out.val == 'ValueError'), kind='safety', **kwr)
                continue
            nret += 1
            o = th.obj(out.st, self_)
            fn = o['items'].get('function')
            ctx.post(pre + 'no_double_wrapping', hy, expect_function(out, fn), **kwr)
            ctx.post(pre + 'argspec_cache_reset', hy, BoolVal(o['items'].get('function_fullargspec') is not None and o['items']['function_fullargspec'].kind == 'none'), **kwr)
            rest = o['rest']
            if rest is None or rest.kind != 'pdict':
                ctx.post(pre + 'parameters_are_stored', hy, BoolVal(False), **kwr)
            else:
                dom, get = expect_params
                ctx.post(pre + 'parameters_keys', hy, rest.pd.dom(K0) == dom(K0), **kwr)
                ctx.post(pre + 'parameters_values', hy + [rest.pd.dom(K0)], rest.pd.get(K0) == get(K0), **kwr)
            ctx.post(pre + 'argument_objects_untouched', hy, untouched(out, heap0, originals), kind='frame', **kwr)
        if not nret:
            raise OutOfSubset('wrapper.__init__ (%s) has no returning path' % label)

    # ---- plain function
    def plain():
        th, ex, st, kw2, self_, heap0, outs, inst, originals = run('plain', lambda th, st: (g_sv, []))
        posts('plain', th, ex, kw2, self_, heap0, outs, inst, originals,
              lambda out, fn: BoolVal(fn is not None and fn.kind == 'val') if fn is None or fn.kind != 'val' else fn.t == G,
              (kw2.pd.dom, kw2.pd.get))
    ctx.guarded('wrapper.__init__.plain', plain)

    # ---- W(W(g))
    def direct():
        box = {}

        def build(th, st):
            kw1, pre1 = params(th, 'kw1')
            st.pc += pre1
            w1 = th.new_obj(st, 'wrapper', TAG_W, dict(function=g_sv, function_fullargspec=NONE), kw1)
            box['kw1'] = kw1
            return w1, [w1]
        th, ex, st, kw2, self_, heap0, outs, inst, originals = run('direct', build)
        kw1 = box['kw1']
        posts('direct', th, ex, kw2, self_, heap0, outs, inst, originals,
              lambda out, fn: (fn.t == G) if (fn is not None and fn.kind == 'val') else BoolVal(False),
              (lambda x: Or(kw1.pd.dom(x), kw2.pd.dom(x)), lambda x: If(kw2.pd.dom(x), kw2.pd.get(x), kw1.pd.get(x))))
    ctx.guarded('wrapper.__init__.direct', direct)

    # ---- W(V(W(g)))
    def chain():
        box = {}

        def build(th, st):
            kw1, pre1 = params(th, 'kw1')
            kwv, prev = params(th, 'kwv')
            st.pc += pre1 + prev
            w1 = th.new_obj(st, 'wrapper', TAG_W, dict(function=g_sv, function_fullargspec=NONE), kw1)
            v1 = th.new_obj(st, 'wrapper', TAG_V, dict(function=w1, function_fullargspec=NONE), kwv)
            box.update(kw1=kw1, kwv=kwv, w1=w1, v1=v1)
            return v1, [w1, v1]
        th, ex, st, kw2, self_, heap0, outs, inst, originals = run('chain', build)
        kw1, kwv, v1 = box['kw1'], box['kwv'], box['v1']

        def expect(out, fn):
            if fn is None or fn.kind != 'wref' or fn.oid == v1.oid:
                return BoolVal(False)
            inner = th.obj(out.st, fn)
            f2 = inner['items'].get('function')
            ok = f2 is not None and f2.kind == 'val' and inner['rest'] is kwv
            return And(fn.tag == TAG_V, f2.t == G) if ok else BoolVal(False)
        posts('chain', th, ex, kw2, self_, heap0, outs, inst, originals, expect,
              (lambda x: Or(kw1.pd.dom(x), kw2.pd.dom(x)), lambda x: If(kw2.pd.dom(x), kw2.pd.get(x), kw1.pd.get(x))))
    ctx.guarded('wrapper.__init__.chain', chain)

    # ---- wrapper.__call__ forwards to wrapped
    def call_():
        fcall = M['inline']['wrapper.__call__'][1]
        for cname in ('try_back', 'try_value', 'kwargs_support', 'cache_func'):
            th, ex, st = setup('wrapper.__call__.' + cname)
            args, kwargs = call_inputs(th)
            self_ = th.new_obj(st, cname, TAG_W, dict(function=g_sv, function_fullargspec=NONE), None)
            outs = ex.run_function(st, 'wrapper.__call__', [self_], {'*': args, '**': kwargs})
            inst = th.inst([K0])
            for ob in ex.obligations:
                ob.hyps = list(ob.hyps) + inst
            record_inlined(ctx, ex)
            ctx.absorb(ex)
            ctx.record_function(mdec, 'wrapper.__call__', fcall, ex.stmts_executed, excluded=['decorator-factory path (function is None): constructs type(self)(function = args[0], **parameters)'])
            pre = 'wrapper.__call__.%s.' % cname
            nret = 0
            for out in outs:
                hy = ex.facts + out.st.pc + inst
                if out.kind != 'return':
                    ctx.post(pre + 'never_raises_by_itself', hy, BoolVal(False), kind='safety', **kwr)
                    continue
                nret += 1
                ok = len(th.dispatched) == 1 and th.dispatched[0][0].oid == self_.oid and th.dispatched[0][1].pl.t is not None \
                    and th.dispatched[0][1].pl.t.eq(A) and th.dispatched[0][2].pd.t is not None and th.dispatched[0][2].pd.t.eq(KW)
                ctx.post(pre + 'forwards_to_wrapped_with_the_same_arguments', hy, BoolVal(ok), **kwr)
                ctx.post(pre + 'returns_what_wrapped_returns', hy, th.to_val(ex, out.val) == WRAPPED_RESULT(A, KW), **kwr)
            if not nret:
                raise OutOfSubset('wrapper.__call__ has no returning path')
    ctx.guarded('wrapper.__call__', call_)


def build(ctx):
    M = machinery(ctx)
    ctx.guarded('cache', lambda: cache_section(ctx, M))
    ctx.guarded('cache.decorator', lambda: cache_decorator_section(ctx, M))
    ctx.guarded('try_value', lambda: try_value_section(ctx, M))
    ctx.guarded('try_back', lambda: try_back_section(ctx, M))
    ctx.guarded('kwargs_support', lambda: kwargs_support_section(ctx, M))
    wrapper_section(ctx, M)
