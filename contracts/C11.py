"""C11 - listby/unlist, groupby/ungroup and pivot/unpivot are lossless regroupings.

Functions under contract (real source):
  dictable._listby   (shared with C02; the obligations are generated again here from the same code)
  dictable.listby    the cell expression `[[self[k][i] for i in y] for y in ids]`: one list per group, holding column k's values of the
                     group's rows in the order _listby lists them (ascending original row number)
  dictable.groupby   the inner cell expression `[self[k][i] for i in y]` of each sub-table, likewise
Consequences argued from these obligations (not solver steps): one row per distinct key (keys strictly increasing under cmp, groups tile the
rows); group sizes add up to len(d) (tiling); unlist() - the concatenation of the groups in key order - lists the rows in the order of the
sorted (key, row number) pairs, which is the order dictable.sort computes from the same sort call, i.e. the stable sort.
  dictable.xyz       (pivot) the region from `xys, ids = self._listby(xykeys)` to the end of the double loop that fills the matrix `res`: for every (x, y) group
                     its list of z values (row order; aggregated when agg is given) sits in row = its x group (rs._listby(x)), column = its y group
                     (rs._listby((y_,)) through j2k), every other cell is None, nothing raises.  The three _listby calls by their contract (C02) plus the
                     sort contract's permutation facts; interface lemmas about the groupings (every group listed in exactly one y group, groups of one
                     x group lie in different y groups - from the cmp laws and the component-wise comparison of key tuples) are obligations of their own.
                     Assumed (their bodies are bounded only): type(self)(xys, x + (y_,)) is the table of the group keys; len(rs[[y_]].listby(y_)) is the
                     number of y groups.
  dictable.unlist    in two steps (section unlist): the body of unlist with concat as a call (no row: the table itself; otherwise cls.concat of the list of the
                     rows, in order), and dictable.concat + as_list executed from their source on that list of R records for symbolic R.  Callees by contract:
                     __iter__, the constructor from one record (C01 constructor.record.*: list cells of one length, scalars / None / one-element lists
                     repeated; ValueError for list cells of different lengths), dict_concat (C01), the constructor from equally long columns (C01);
                     axiom: sum(lists, []) is concatenation.  Result: all the columns, NR[0] + ... + NR[R-1] rows (NR[r] = the length of the list cells of
                     row r, 1 when it has none), the block of row r listing its list cells item by item and repeating its other cells; ValueError iff a row
                     has two list cells of different lengths other than 1.  The prefix-sum law is an induction lemma (base + step obligations).
                     What stays an argument: with the groups of listby as cells (proved: one entry per row of the group, in listing order) this makes
                     unlist(listby(d)) the rows of d group by group in key order - the stable sort; "every position below the total belongs to exactly one
                     block" (the converse of the block clause) is not stated.
  dictable.ungroup   `self.concat([row.pop(grp)(**row.do(lambda v: [v])) for row in self])`: the same concat assembly over one table per row, but that table
                     is the row's sub-table called with the other cells as one-element lists (dictable.__call__ -> derived columns, Dict.do, dict.pop):
                     these three are not under contract, so ungroup stays bounded only (rac/C11.py).  What it returns, in terms of the proved pieces: the
                     concat assembly of unlist (same code, ManyTables) over per-row tables that are assumed to be the row's sub-table with every other
                     cell of the row repeated once per sub-table row; with groupby's cells (proved) that is the rows of d group by group in key order.
The constructors `type(self)(xs, by)` of listby / groupby and `type(self)(xys, x + (y_,))` of pivot are the rows + headers form proved in C01
(constructor.rows.*: names given as a list or as dict keys; here they are a tuple and the rows a tuple of key tuples - same statements of
_data_columns_as_dict, no list-specific test on the way, but not one of the two shapes run); the link between the opaque group keys of the `_listby` contract
and their components is not modelled, so these calls remain assumed / bounded as before.
Bounded only (rac/C11.py): ungroup, `rtn.update(...)` / `rtn[grp] = ...` of listby / groupby, the column labels and final assembly of pivot, unpivot.
"""
import ast
import z3
from z3 import And, Or, Not, If, Implies, Int, Ints, IntVal, BoolVal, ForAll, Const, Select, Function, BoolSort, IntSort, ArraySort, Array

from pyvc.front import select, SelectorError, OutOfSubset, find, find_all, walk_no_defs
from pyvc.symex import Exec, State
from pyvc.theories import TypePreds
from pyvc.th_lists import Lists, Val, NONEV, VAL, INT, LIST, fresh_list, V, as_list_sv, at
from pyvc.th_tables import Tables, Key, KEY, fresh_table, wf, column
from pyvc.sv import SV, I, B, T, fresh_name
from contracts.C02 import listby_obligations
from contracts.C01 import Dictable, ground_section
from pyvc.th_lists import NONEV
from pyvc.th_tables import nrows, same_table, key_of, no_columns
from pyvc.th_tables2 import Rows, Init, VLEN
from pyvc.th_tables3 import RowsHeaders, ManyTables, OFFN, offsets_lemma, offsets_def, flatten_instance, cell_len, cell_item, cell_axioms, ISL
from pyvc.th_tables2 import list_value_axioms
from z3 import Exists

PROP = 'C11'


class ColumnAccess:
    def subscript(self, ex, st, e, recv, idx):
        if recv.kind == 'table' and idx.kind == 'key':
            ex.use('callee contract:dictable.__getitem__(column name) is the stored column (dict lookup)')
            ex.raise_if(st, Not(recv.dom[idx.t]), 'KeyError')
            return column(recv, idx.t)
        return NotImplemented


# ====================================================================================================== pivot (xyz): cell addressing
XP = Function('x_part', Val, Val)                   # the x components of an (x..., y) group key
YP = Function('y_part', Val, Val)                   # its y component
AGG = Function('agg', Val, Val)                     # the supplied aggregating function (opaque)
GATHER = Function('gather', ArraySort(IntSort(), Val), ArraySort(IntSort(), IntSort()), IntSort(), Val)   # the list [a[r[0]], ..., a[r[n-1]]] as one value
K2 = Function('j2k', IntSort(), IntSort())          # j2k[g]
INJ2K = Function('in_j2k', IntSort(), BoolSort())   # g is a key of j2k
GRP3 = Function('y_group_of_position', IntSort(), IntSort())      # choice function: a y group containing a sorted position
IA = lambda name: Array(name, IntSort(), IntSort())


class FactBox:
    """stands in for the executor while a callee contract is instantiated: the contract's facts are collected (they are hypotheses of the interface lemmas
    only, the loop obligations see the lemmas), everything else goes to the executor"""

    def __init__(self, ex):
        self.ex, self.facts, self.pres = ex, [], []

    def fact(self, f):
        self.facts.append(f)

    def use(self, what):
        self.ex.use(what)

    def oblige(self, st, name, goal, kind='safety', **kw):
        self.pres.append((name, goal))


class Pivot:
    """what the pivot region needs around its three _listby calls.  By *assumed* contract (their bodies are bounded only): `type(self)(xys, x + (y_,))` is the
    table of the group keys; `rs[[y_]].listby(y_)` has one row per group of `rs._listby((y_,))` (the same column grouped by the same function)."""

    def __init__(self, tbl, box):
        self.tbl, self.box = tbl, box
        self.zs = fresh_list(VAL, 'zs')
        self.NY = Int('NY')

    def call(self, ex, st, e, fname, args, kwargs):
        a0 = args[0] if args else None
        if fname == 'type' and len(args) == 1 and a0.kind == 'obj' and a0.f.get('cls') == 'dictable':
            return SV('cls', None, name='dictable')
        if fname == 'as_list' and len(args) == 1 and a0.kind == 'str':
            return SV('namelist', None, names=[a0.lit])
        if fname == 'len' and len(args) == 1 and a0.kind == 'ystable':
            return I(self.NY)
        if fname == 'dict' and len(args) == 1 and a0.kind == 'list' and a0.f.get('ety') is not None and a0.ety.kind == 'tuple' and len(a0.arrs) == 2:
            return SV('y2id', None)          # only its keys are used afterwards (column labels: outside the region)
        if fname == 'enumerate' and len(args) == 1 and a0.kind == 'list':
            return SV('enum', None, of=a0)
        if fname in st.env and st.env[fname].kind == 'aggfunc' and len(args) == 1:
            if a0.kind not in ('val', 'gather'):
                raise OutOfSubset('aggregating a %s' % a0.kind)
            ex.use('model:the aggregating function is an opaque function of the list it is given')
            return V(AGG(a0.t))
        return NotImplemented

    def call_value(self, ex, st, e, fn, args, kwargs):
        if fn.kind == 'cls' and len(args) == 2 and args[0].kind == 'list' and args[1].kind == 'tuple':
            ex.use('assumed contract:type(self)(xys, x + (y_,)) is the table with one row per (x, y) group holding the x components and the y component of the group '
                   'key, so rs[x] / rs[(y_,)] are these components row by row (constructor from rows + headers: bounded only; tuple projection: proved in C01)')
            g = Int('g!rs')
            keys = args[0].arrs[0]
            for nm, part in (('rs_x', XP), ('rs_y', YP)):
                ks = self.tbl.key_list(nm)
                self.box.fact(And(ks.t == args[0].t, ForAll([g], Implies(And(0 <= g, g < ks.t), ks.arrs[0][g] == part(Select(keys, g))))))
            return self.tbl.table('rs')
        return NotImplemented

    def binop(self, ex, st, e, op, a, b):
        if op == 'Add' and a.kind == 'tuple' and b.kind == 'tuple':
            return T(list(a.items) + list(b.items))
        return NotImplemented

    def subscript(self, ex, st, e, recv, idx):
        if recv.kind == 'obj' and recv.f.get('cls') == 'dictable' and idx.kind == 'zspec':
            ex.use('callee contract:self[z] for a column name is the stored column, one entry per row (proved in C01 __getitem__.column.*); z given as a callable: bounded only')
            return self.zs
        if recv.kind == 'obj' and recv.f.get('cls') == 'dictable' and idx.kind == 'namelist':
            return SV('yproj', None, of=recv.name)
        if recv.kind == 'ystable' and idx.kind == 'str':
            return fresh_list(VAL, 'ys', n=self.NY)
        if recv.kind == 'j2k' and idx.kind == 'int':
            ex.use('axiom:{j: k for k, js in enumerate(yrows) for j in js} maps every j listed in some yrows[k] to (the last such) k; a lookup of anything else raises KeyError')
            ex.raise_if(st, Not(INJ2K(idx.t)), 'KeyError')
            return I(K2(idx.t))
        return NotImplemented

    def method(self, ex, st, e, recv, mname, args, kwargs):
        if recv.kind == 'yproj' and mname == 'listby' and len(args) == 1 and args[0].kind == 'str':
            ex.use('assumed contract:rs[[y_]].listby(y_) has one row per group of rs._listby((y_,)), in the same order (listby is _listby - proved - followed by a '
                   'constructor and update, which are bounded only)')
            return SV('ystable', None)
        return NotImplemented

    def dictcomp(self, ex, st, e):
        gs = e.generators
        if len(gs) != 2 or gs[0].ifs or gs[1].ifs or not (isinstance(gs[0].target, ast.Tuple) and len(gs[0].target.elts) == 2):
            return NotImplemented
        it = ex.eval(st, gs[0].iter)
        if it.kind != 'enum':
            return NotImplemented
        lst = it.f['of']
        k0, p0 = Int('k!j2k'), Int('p!j2k')
        sub = st.fork(); sub.env = dict(st.env); sub.pending = []
        ex.assign(sub, gs[0].target, T([I(k0), at(lst, k0)]), None)
        inner = ex.eval(sub, gs[1].iter)
        if inner.kind != 'list' or inner.f.get('ety') != INT:
            raise OutOfSubset('j2k: inner generator over %s' % inner.kind)
        ex.assign(sub, gs[1].target, I(Select(inner.arrs[0], p0)), None)
        key, val = ex.eval(sub, e.key), ex.eval(sub, e.value)
        if key.kind != 'int' or val.kind != 'int' or sub.pending:
            raise OutOfSubset('j2k: key / value of kind %s / %s' % (key.kind, val.kind))
        rng = And(0 <= k0, k0 < lst.t, 0 <= p0, p0 < inner.t)
        g = Int('g!j2k')
        defs = [ForAll([g], INJ2K(g) == z3.Exists([k0, p0], And(rng, key.t == g))), ForAll([k0, p0], Implies(rng, K2(key.t) == val.t))]
        for f in defs:
            self.box.fact(f)
        st.ghost['j2k'] = dict(k0=k0, p0=p0, rng=rng, key=key.t, val=val.t, facts=defs)
        return SV('j2k', None)

    def listcomp(self, ex, st, e):
        if len(e.generators) != 1 or e.generators[0].ifs:
            return NotImplemented
        g = e.generators[0]
        # [[None for _ in range(a)] for _ in range(b)]: the b x a matrix of None
        if isinstance(e.elt, ast.ListComp) and len(e.elt.generators) == 1 and not e.elt.generators[0].ifs and isinstance(e.elt.elt, ast.Constant) \
                and e.elt.elt.value is None:
            outer, inner = ex.eval(st, g.iter), ex.eval(st, e.elt.generators[0].iter)
            if outer.kind == 'range' and inner.kind == 'range':
                ex.use('axiom:[[None for _ in range(a)] for _ in range(b)] is a list of b lists of a Nones')
                return SV('list', outer.n, ety=LIST(VAL), arrs=[z3.K(IntSort(), inner.n), z3.K(IntSort(), z3.K(IntSort(), NONEV))])
        # [zs[i] for i in rows]: the list of the values at the listed positions, as one value
        probe = st.fork()
        try:
            it = ex.eval(probe, g.iter)
        except OutOfSubset:
            return NotImplemented
        if it.kind == 'list' and it.f.get('ety') == INT and isinstance(g.target, ast.Name):
            it = ex.eval(st, g.iter)
            i0, p0 = Int(fresh_name('id')), Int(fresh_name('p'))
            sub = st.fork(); sub.pending = []
            bind = And(0 <= p0, p0 < it.t, i0 == Select(it.arrs[0], p0))
            sub.pc.append(bind)
            sub.env = dict(st.env); sub.env[g.target.id] = I(i0)
            n0 = len(sub.pc)
            v = ex.eval(sub, e.elt)
            if v.kind != 'val':
                return NotImplemented
            for o in sub.pending:
                side = st.fork(); side.guards = []
                side.pc += st.guards + [bind] + o.st.pc[n0:]
                st.pending.append(type(o)('raise', side, o.val))
            src = self.zs.arrs[0]
            ex.oblige(sub, 'cell_list.element_is_the_z_value_of_the_listed_row', v.t == Select(src, i0), kind='post')
            ex.use('engine:a map-form comprehension over a list of positions is taken as one value gather(column, positions, n)')
            return SV('gather', GATHER(src, it.arrs[0], it.t))
        return NotImplemented

    def store_subscript(self, ex, st, tg, recv, idx, v):
        if recv.kind == 'list' and idx.kind == 'int' and recv.f.get('ety') == VAL and v.kind in ('val', 'gather', 'none'):
            ex.raise_if(st, Not(And(0 <= idx.t, idx.t < recv.t)), 'IndexError')
            term = NONEV if v.kind == 'none' else v.t
            return SV('list', recv.t, ety=VAL, arrs=[z3.Store(recv.arrs[0], idx.t, term)])
        if recv.kind == 'list' and idx.kind == 'int' and recv.f.get('ety') == LIST(VAL) and v.kind == 'list':
            ex.raise_if(st, Not(And(0 <= idx.t, idx.t < recv.t)), 'IndexError')
            return SV('list', recv.t, ety=LIST(VAL), arrs=[z3.Store(recv.arrs[0], idx.t, v.t), z3.Store(recv.arrs[1], idx.t, v.arrs[0])])
        return NotImplemented

    def truth(self, ex, st, v):
        if v.kind == 'lazylist' and v.f.get('items') is not None:
            return BoolVal(len(v.f['items']) > 0)
        return NotImplemented

    def concrete_items(self, ex, st, it):
        if it.kind == 'lazylist' and it.f.get('items') is not None:
            return it.f['items']
        return NotImplemented

    def is_none(self, ex, st, v):
        if v.kind in ('gather', 'y2id', 'j2k', 'ystable', 'yproj', 'cls', 'obj', 'enum'):
            return BoolVal(False)
        return NotImplemented


def listby_call_contract(box, st, tbl, name):
    """_listby at a call site: C02's contract (proved on the body: groups tile the sorted pairs, keys strictly increasing, members carry the group key, rows
    listed in sorted order, rows of a group ascending) together with what the sort contract (C07) says about the sorted pairs themselves: their second
    components are a permutation of the row numbers and the first component is that row's key."""
    from contracts.C02 import listby_contract
    r = listby_contract(box, st, tbl, name)
    G = tbl.groups[name]
    ks = tbl.key_list(name)
    n, sk, si = G['n'], G['sk'], G['si']
    inv = IA(fresh_name('inv_' + name))
    p = Int('p!pc')
    box.use('assumed contract:sort(list of (key, i)) returns a permutation that is non-decreasing under cmp on pairs (property C07)')
    box.fact(ForAll([p], Implies(And(0 <= p, p < n), And(0 <= si[p], si[p] < n, sk[p] == ks.arrs[0][si[p]], inv[si[p]] == p))))
    box.fact(ForAll([p], Implies(And(0 <= p, p < n), And(0 <= inv[p], inv[p] < n, si[inv[p]] == p))))
    G['inv'] = inv
    return r


def xyz_obligations(ctx, m):
    """The pivot region of dictable.xyz: from `xys, ids = self._listby(xykeys)` to the end of the double loop that fills the matrix `res`.
    Interface lemmas (proved once, from the contracts of the three _listby calls, the cmp laws and the lexicographic comparison of key tuples): the rows and groups
    listed are in range, every (x, y) group is listed in exactly one y group (so j2k is defined on all of them), two groups of one x group lie in different y
    groups (no cell is written twice).  Loop obligations (invariants with a ghost 'writer' matrix): after the loops, for every (x, y) group its list of z values
    (row order; aggregated when agg is given) sits in row = its x group, column = its y group, and every other cell is None."""
    from contracts.C02 import Table, laws, start_of
    from pyvc.symex import LoopSpec
    from pyvc.th_lists import cmpf
    from pyvc.ground import ground_obligation
    fdef = m.func('dictable.xyz')
    fors = find_all(fdef, lambda x: isinstance(x, ast.For))
    if len(fors) != 3:
        raise SelectorError('xyz: expected the loops over x groups, over the (x, y) groups of one x group, and over the aggregating functions')
    outer, inner, aggloop = fors
    body = [s for s in fdef.body if not (isinstance(s, ast.Expr) and isinstance(s.value, ast.Constant))]
    first = [k_ for k_, s in enumerate(body) if isinstance(s, ast.Assign) and isinstance(s.value, ast.Call) and ast.unparse(s.value.func).endswith('._listby')]
    if not first or outer not in body:
        raise SelectorError('xyz: no `xys, ids = self._listby(xykeys)` before the loops')
    prelude = body[first[0]: body.index(outer)]
    store = [s for s in walk_no_defs(inner) if isinstance(s, ast.Assign) and isinstance(s.targets[0], ast.Subscript) and isinstance(s.targets[0].value, ast.Subscript)]
    if len(store) != 1:
        raise SelectorError('xyz: expected one cell assignment res[i][k] = value')
    label = 'xyz'
    tbl = Table(); tbl.by_contract = False
    holder = {}

    class Calls:        # the three _listby calls, by the extended contract; which key projection is meant is read off the argument
        def method(self, ex, st, e, recv, mname, args, kwargs):
            if recv.kind == 'obj' and recv.f.get('cls') == 'dictable' and mname == '_listby' and len(args) == 1:
                if recv.name == 'self':
                    nm = 'self'
                elif args[0].kind == 'tuple' and len(args[0].items) == 1 and args[0].items[0].kind == 'str' and args[0].items[0].lit == st.env['y_'].lit:
                    nm = 'rs_y'
                else:
                    nm = 'rs_x'
                return listby_call_contract(holder['box'], st, tbl, nm)
            return NotImplemented

    def clauses(st, i, p):
        """the matrix after the (x, y) groups listed before position p of x group i (and all of the x groups before i) have been written"""
        L1, L2 = tbl.groups['self'], tbl.groups['rs_x']
        res = st.env['res']
        rowlen, rows = res.arrs
        rlen1, rows1 = L1['ids'].arrs
        rlen2, rows2 = L2['ids'].arrs
        NX = L2['xs'].t
        zsa = piv.zs.arrs[0]
        cell = lambda g: (AGG(GATHER(zsa, rows1[g], rlen1[g])) if holder['agg'] else GATHER(zsa, rows1[g], rlen1[g]))
        i2, p2, q2 = Ints('i!pv p!pv q!pv')
        done = lambda a, b: Or(a < i, And(a == i, b < p))
        W = st.ghost['W']
        return [('matrix_has_one_row_per_x_group_and_one_cell_per_y_group', And(res.t == NX, ForAll([i2], Implies(And(0 <= i2, i2 < NX), rowlen[i2] == piv.NY)))),
                ('every_group_written_so_far_sits_in_the_cell_of_its_x_group_and_y_group',
                 ForAll([i2, p2], Implies(And(0 <= i2, i2 < NX, 0 <= p2, p2 < rlen2[i2], done(i2, p2)),
                                          rows[i2][K2(rows2[i2][p2])] == cell(rows2[i2][p2])))),
                ('a_cell_no_group_was_written_to_is_None',
                 ForAll([i2, q2], Implies(And(0 <= i2, i2 < NX, 0 <= q2, q2 < piv.NY),
                                          Or(rows[i2][q2] == NONEV,
                                             And(0 <= W[i2][q2], W[i2][q2] < rlen2[i2], done(i2, W[i2][q2]), K2(rows2[i2][W[i2][q2]]) == q2)))))]

    def inv_outer(st, entry):
        return clauses(st, st.ghost[holder['label'] + '.For0.k'], IntVal(0))

    def inv_inner(st, entry):
        i = st.env['i'].t
        return clauses(st, i, st.ghost[holder['label'] + '.For1.k']) + [('x_group_in_range', And(0 <= i, i < tbl.groups['rs_x']['xs'].t))]

    def ghost_havoc(ex, st):
        st.ghost['W'] = Array(fresh_name('W'), IntSort(), ArraySort(IntSort(), IntSort()))

    def after_store(ex, st, s):      # ghost: which listed group wrote cell (i, k)
        i, k = st.env['i'].t, st.env['k'].t
        W = st.ghost['W']
        st.ghost['W'] = z3.Store(W, i, z3.Store(W[i], k, st.ghost[holder['label'] + '.For1.k']))

    protos = dict(res=fresh_list(LIST(VAL), 'res'))

    def specs(lbl):
        return {id(outer): LoopSpec(lbl + '.For0', inv_outer, ghost_havoc=ghost_havoc, protos=protos),
                id(inner): LoopSpec(lbl + '.For1', inv_inner, ghost_havoc=ghost_havoc, protos=protos, keep=('i',))}      # i is only read (res[i][k] = ...): the engine's assigned-names scan is syntactic
    holder.update(label='xyz', agg=False)
    ex = Exec(m, [], loops=specs('xyz'), hooks=[(lambda s: s is store[0], after_store)], name=label, prune=False)
    box = FactBox(ex)
    holder['box'] = box
    piv = Pivot(tbl, box)
    ex.theories = [Calls(), piv, tbl, Lists(), TypePreds()]
    aggs = lambda with_agg: SV('lazylist', None, n=IntVal(1 if with_agg else 0), items=[SV('aggfunc')] if with_agg else [], at=None)
    env = {'self': tbl.table('self'), 'xykeys': SV('colspec'), 'x': T([SV('str', None, lit='x')]), 'y': SV('str', None, lit='y'), 'z': SV('zspec'), 'agg': aggs(False)}
    st = State(env=env)
    st.ghost['W'] = Array('W0', IntSort(), ArraySort(IntSort(), IntSort()))
    n_ob = len(ctx.obligations)
    pre_outs = ex.run_block(st, prelude)
    live = [o.st for o in pre_outs if o.kind == 'next']
    for o in pre_outs:
        if o.kind != 'next':
            ctx.post(label + '.prelude_never_raises.%s' % o.val, ex.facts + box.facts + o.st.pc, BoolVal(False), kind='safety')
    if len(live) != 1:
        raise OutOfSubset('xyz: the statements before the loops have %d normal exits' % len(live))
    st = live[0]
    L1, L2, L3 = tbl.groups['self'], tbl.groups['rs_x'], tbl.groups['rs_y']
    n_self, G, NX, NYG = L1['n'], L1['xs'].t, L2['xs'].t, L3['xs'].t
    KEYS = L1['xs'].arrs[0]
    rlen1, rows1 = L1['ids'].arrs
    rlen2, rows2 = L2['ids'].arrs
    rlen3, rows3 = L3['ids'].arrs
    a_, b_ = Const('a!h', Val), Const('b!h', Val)
    g_, i_, k_, p1_, p2_, pos_, h_ = Ints('g!h i!h k!h p1!h p2!h pos!h h!h')
    assumed = [piv.NY == NYG, piv.zs.t == n_self, n_self >= 1]
    ctx.trust('xyz: len(rs[[y_]].listby(y_)) is the number of groups of rs._listby((y_,)) and len(self[z]) the number of rows (assumed: see the use texts)')
    lex = ForAll([a_, b_], (cmpf(a_, b_) == 0) == And(cmpf(XP(a_), XP(b_)) == 0, cmpf(YP(a_), YP(b_)) == 0))
    ctx.trust('cmp of two (x..., y) key tuples is 0 iff it is 0 on the x components and on the y component (C07: tuples are compared component by component)')
    base = box.facts + assumed

    # ---------------- interface lemmas: what the loop obligations may use about the three groupings.  Every lemma gets exactly the clauses of the
    # contracts it needs (the same formulas listby_call_contract asserted), so that the queries stay small
    from contracts.C02 import listby_post

    def clause(L, nm, cname):        # the clause as the contract states it: conditional on a non-empty table
        return Implies(L['n'] >= 1, listby_post(L['n'], L['sk'], L['si'], L['xs'], L['ids'], L['END'])[cname])

    def perm(L, nm):
        ks, n, sk, si, inv = tbl.key_list(nm), L['n'], L['sk'], L['si'], L['inv']
        p = Int('p!pc')
        return [ForAll([p], Implies(And(0 <= p, p < n), And(0 <= si[p], si[p] < n, sk[p] == ks.arrs[0][si[p]], inv[si[p]] == p))),
                ForAll([p], Implies(And(0 <= p, p < n), And(0 <= inv[p], inv[p] < n, si[inv[p]] == p)))]

    def keyfact(nm, part):
        ks = tbl.key_list(nm)
        g = Int('g!rs')
        return And(ks.t == G, ForAll([g], Implies(And(0 <= g, g < ks.t), ks.arrs[0][g] == part(Select(KEYS, g)))))
    for f in [clause(L, nm, c_) for L, nm in ((L1, 'self'), (L2, 'rs_x'), (L3, 'rs_y')) for c_ in listby_post(L['n'], L['sk'], L['si'], L['xs'], L['ids'], L['END'])] \
            + perm(L1, 'self') + perm(L2, 'rs_x') + perm(L3, 'rs_y') + [keyfact('rs_x', XP), keyfact('rs_y', YP)]:
        if not any(z3.eq(f, b) for b in box.facts):
            raise OutOfSubset('xyz: a clause used by the interface lemmas is not among the facts of the callee contracts')
    NAMES = {id(L1): 'self', id(L2): 'rs_x', id(L3): 'rs_y'}
    C = lambda L, cname: clause(L, NAMES[id(L)], cname)
    sizes = [n_self >= 1, C(L1, 'at_least_one_group'), C(L1, 'same_number_of_keys_and_rows'), keyfact('rs_x', XP), keyfact('rs_y', YP),
             C(L2, 'at_least_one_group'), C(L2, 'same_number_of_keys_and_rows'), C(L3, 'at_least_one_group'), C(L3, 'same_number_of_keys_and_rows')]
    facts = {}
    facts['shapes'] = And(G >= 1, NX >= 1, NYG >= 1, L2['n'] == G, L3['n'] == G, L2['ids'].t == NX, L3['ids'].t == NYG, L1['ids'].t == G)
    facts['x_listing_in_range'] = ForAll([i_, p1_], Implies(And(0 <= i_, i_ < NX, 0 <= p1_, p1_ < rlen2[i_]), And(0 <= rows2[i_][p1_], rows2[i_][p1_] < G)))
    facts['listed_rows_in_range'] = ForAll([g_, p1_], Implies(And(0 <= g_, g_ < G, 0 <= p1_, p1_ < rlen1[g_]), And(0 <= rows1[g_][p1_], rows1[g_][p1_] < n_self)))
    facts['every_group_is_a_key_of_j2k_with_a_y_group_as_value'] = ForAll([g_], Implies(And(0 <= g_, g_ < G), And(INJ2K(g_), 0 <= K2(g_), K2(g_) < NYG)))
    facts['groups_of_one_x_group_lie_in_different_y_groups'] = ForAll([i_, p1_, p2_], Implies(And(0 <= i_, i_ < NX, 0 <= p1_, p1_ < p2_, p2_ < rlen2[i_]),
                                                                                             K2(rows2[i_][p1_]) != K2(rows2[i_][p2_])))
    shapes = facts['shapes']
    keep_quantified = set()

    def lem(name, hyps, goal, grounded=True):
        ob = ctx.post('xyz.lemma.' + name, hyps, goal, kind='lemma')
        if not grounded:         # pure consequences of other lemmas that need chains of the cmp laws: left to the solver's own instantiation
            keep_quantified.add(id(ob))
        return ob
    lem('sizes_of_the_three_groupings', sizes, shapes)

    def tiling(L):        # what is needed to turn a position inside a group into a position of the sorted list
        return [C(L, 'groups_tile_all_rows'), C(L, 'ends_increase'), C(L, 'rows_listed_in_sorted_order'), shapes, n_self >= 1]
    END3 = L3['END']
    claim3 = lambda h: ForAll([pos_], Implies(And(0 <= pos_, pos_ < END3[h]), z3.Exists([g_], And(0 <= g_, g_ <= h, start_of(END3, g_) <= pos_, pos_ < END3[g_]))))
    cover3 = ForAll([pos_], Implies(And(0 <= pos_, pos_ < G), z3.Exists([g_], And(0 <= g_, g_ < NYG, start_of(END3, g_) <= pos_, pos_ < END3[g_]))))
    lem('y_grouping.every_position_lies_in_a_group.base', [], claim3(IntVal(0)))
    lem('y_grouping.every_position_lies_in_a_group.step', [0 <= h_, claim3(h_)], claim3(h_ + 1))
    lem('y_grouping.every_position_lies_in_a_group.conclusion', [claim3(NYG - 1), C(L3, 'groups_tile_all_rows'), shapes], cover3)
    ctx.trust('induction over the groups of a tiling (base and step are obligations)')
    inv3 = L3['inv']
    # a choice function for the existential just proved (definition by choice: conservative), so that the witnesses below are terms
    in_grp = lambda g, pos: And(0 <= g, g < NYG, start_of(END3, g) <= pos, pos < END3[g])
    choice = ForAll([pos_], Implies(z3.Exists([g_], in_grp(g_, pos_)), in_grp(GRP3(pos_), pos_)))
    ctx.trust('definition by choice: y_group_of_position(pos) is some group that contains the sorted position pos, when there is one')
    cover3f = ForAll([pos_], Implies(And(0 <= pos_, pos_ < G), in_grp(GRP3(pos_), pos_)))
    lem('y_grouping.the_group_of_a_position', [cover3, choice], cover3f)
    YG = lambda g: GRP3(inv3[g])                              # the y group that lists the (x, y) group g ...
    at3 = lambda g: inv3[g] - start_of(END3, YG(g))           # ... and where: its sorted position minus the group's start
    listed_y = ForAll([g_], Implies(And(0 <= g_, g_ < G), And(0 <= YG(g_), YG(g_) < NYG, 0 <= at3(g_), at3(g_) < rlen3[YG(g_)], rows3[YG(g_)][at3(g_)] == g_)))
    lem('every_group_is_listed_in_a_y_group', [cover3f] + tiling(L3) + perm(L3, 'rs_y'), listed_y)
    once_y = ForAll([k_, p1_, h_, p2_], Implies(And(0 <= k_, k_ < NYG, 0 <= p1_, p1_ < rlen3[k_], 0 <= h_, h_ < NYG, 0 <= p2_, p2_ < rlen3[h_], rows3[k_][p1_] == rows3[h_][p2_]),
                                                And(k_ == h_, p1_ == p2_)))
    lem('no_group_is_listed_in_two_y_groups', tiling(L3) + perm(L3, 'rs_y'), once_y)
    ctx.trust('the dict comprehension j2k assigns every key once (lemma no_group_is_listed_in_two_y_groups), so "the last k wins" is "the k that lists j"')
    member_y = ForAll([k_, p1_], Implies(And(0 <= k_, k_ < NYG, 0 <= p1_, p1_ < rlen3[k_]),
                                         And(0 <= rows3[k_][p1_], rows3[k_][p1_] < G, cmpf(YP(KEYS[rows3[k_][p1_]]), L3['xs'].arrs[0][k_]) == 0)))
    lem('members_of_a_y_group_have_its_y_value', tiling(L3) + perm(L3, 'rs_y') + [C(L3, 'members_have_the_group_key'), keyfact('rs_y', YP)], member_y)
    member_x = ForAll([i_, p1_], Implies(And(0 <= i_, i_ < NX, 0 <= p1_, p1_ < rlen2[i_]),
                                         And(0 <= rows2[i_][p1_], rows2[i_][p1_] < G, cmpf(XP(KEYS[rows2[i_][p1_]]), L2['xs'].arrs[0][i_]) == 0)))
    lem('members_of_an_x_group_have_its_x_key', tiling(L2) + perm(L2, 'rs_x') + [C(L2, 'members_have_the_group_key'), keyfact('rs_x', XP)], member_x)
    lem('listed_groups_are_groups', [member_x], facts['x_listing_in_range'])
    lem('listed_rows_are_rows', tiling(L1) + perm(L1, 'self'), facts['listed_rows_in_range'])
    j2 = st.ghost['j2k']
    j2k_def = j2['facts']
    y_of = ForAll([g_], Implies(And(0 <= g_, g_ < G), K2(g_) == YG(g_)))
    lem('j2k_maps_every_group_to_the_y_group_that_lists_it', j2k_def + [listed_y, shapes], And(facts['every_group_is_a_key_of_j2k_with_a_y_group_as_value'], y_of))
    y_value = ForAll([g_], Implies(And(0 <= g_, g_ < G), cmpf(YP(KEYS[g_]), L3['xs'].arrs[0][K2(g_)]) == 0))
    lem('every_group_has_the_y_value_of_its_y_group', [y_of, listed_y, member_y], y_value)
    ordered_x = ForAll([i_, p1_, p2_], Implies(And(0 <= i_, i_ < NX, 0 <= p1_, p1_ < p2_, p2_ < rlen2[i_]), rows2[i_][p1_] < rows2[i_][p2_]))
    increasing = ForAll([g_, h_], Implies(And(0 <= g_, g_ < h_, h_ < G), cmpf(KEYS[g_], KEYS[h_]) == -1))
    lem('order_facts_of_the_groupings', [C(L2, 'rows_of_a_group_in_original_order'), C(L1, 'keys_strictly_increasing'), shapes, n_self >= 1], And(ordered_x, increasing))
    c_ = Const('c!h', Val)
    equiv = ForAll([a_, b_, c_], Implies(And(cmpf(a_, b_) == 0, cmpf(c_, b_) == 0), cmpf(a_, c_) == 0))
    lem('cmp_equality_is_an_equivalence', laws(), equiv)
    lem('groups_of_one_x_group_lie_in_different_y_groups', [equiv, lex, member_x, y_value, ordered_x, increasing], facts['groups_of_one_x_group_lie_in_different_y_groups'],
        grounded=False)
    for nm_, goal_ in box.pres:
        ctx.post('xyz.' + nm_, sizes, goal_, kind='pre')
    loop_facts = list(facts.values()) + assumed

    # ---------------- the loops, without and with an aggregating function
    for with_agg in (False, True):
        label = 'xyz.agg' if with_agg else 'xyz'
        holder.update(label=label, agg=with_agg)
        ex.name, ex.loops = label, specs(label)
        st2 = st.fork()
        st2.env['agg'] = aggs(with_agg)
        n_abs = len(ctx.obligations)
        outs = ex.run_block(st2, [outer])
        ctx.absorb(ex)
        for ob in ctx.obligations[n_abs:]:
            ob.hyps = list(ob.hyps) + loop_facts
        nexit = 0
        for out in outs:
            hy = ex.facts + out.st.pc + loop_facts
            if out.kind != 'next':
                ctx.post(label + '.loops_never_raise.%s' % out.val, hy, BoolVal(False), kind='safety')
                continue
            nexit += 1
            res = out.st.env['res']
            rowlen, rows = res.arrs
            zsa = piv.zs.arrs[0]
            cell = lambda g: (AGG(GATHER(zsa, rows1[g], rlen1[g])) if with_agg else GATHER(zsa, rows1[g], rlen1[g]))
            i2, p2, q2 = Ints('i!po p!po q!po')
            ctx.post(label + '.post.matrix_has_one_row_per_x_group_and_one_cell_per_y_group', hy, And(res.t == NX, ForAll([i2], Implies(And(0 <= i2, i2 < NX), rowlen[i2] == NYG))))
            ctx.post(label + '.post.the_z_values_of_every_group_sit_in_the_cell_of_its_x_group_and_y_group', hy,
                     ForAll([i2, p2], Implies(And(0 <= i2, i2 < NX, 0 <= p2, p2 < rlen2[i2]), rows[i2][K2(rows2[i2][p2])] == cell(rows2[i2][p2]))))
            ctx.post(label + '.post.a_cell_without_a_group_is_None', hy,
                     ForAll([i2, q2], Implies(And(0 <= i2, i2 < NX, 0 <= q2, q2 < NYG, rows[i2][q2] != NONEV),
                                              z3.Exists([p2], And(0 <= p2, p2 < rlen2[i2], K2(rows2[i2][p2]) == q2)))))
        if nexit == 0:
            raise OutOfSubset('xyz: the loops have no normal exit')
    ctx.record_function(m, 'dictable.xyz', fdef, ex.stmts_executed,
                        excluded=['x / agg normalisation, the empty table, z given as a callable, the column labels (y2id) and the final assembly type(self)(xs, x), '
                                  'type(self)(res, columns), update: bounded only'])
    import os
    for ob in ctx.obligations[n_ob:]:
        if ob.kind != 'syntactic' and id(ob) not in keep_quantified and not os.environ.get('PYVC_NO_GROUND'):
            ground_obligation(ob, rounds=3 if ob.kind == 'lemma' else 2, cap=2000 if ob.kind == 'lemma' else 600)
    ctx.trust('engine:obligations of the pivot section are discharged on their grounding (universal hypotheses replaced by instances over the index terms of the query)')


# ====================================================================================================== unlist: concat of the rows
def _battery(kind):
    return lambda model: dict(kind=kind)


class ConcatStub:
    """inside unlist: `self.concat(xs)` is the call whose body the section proves separately; here it only has to be made with the list of the rows"""

    def __init__(self):
        self.calls = []

    def method(self, ex, st, e, recv, mname, args, kwargs):
        if recv.kind == 'table' and mname == 'concat' and len(args) == 1 and not kwargs:
            ex.use('callee contract:cls.concat(list of the rows of the table) (proved in C11 unlist.concat.*)')
            res = fresh_table('concatenated')
            self.calls.append((recv, args[0], res, list(st.pc) + list(st.guards)))
            return res
        return NotImplemented


def unlist_obligations(ctx, m):
    """dictable.unlist - `self.concat([row for row in self]) if len(self) else self` - for a rectangular table with R rows whose cells are None, python lists
    or scalars, in two steps over the real source:
      unlist.dispatch   the body of unlist with `concat` as a call: a table without rows is returned as it is, otherwise the result is cls.concat of the list of
                        the rows, in order (the comprehension is executed: one element per row, the j-th being row j);
      unlist.concat     dictable.concat and as_list executed from their source on that list of rows.  Callees by contract: __iter__ and __len__ (C01), the
                        constructor from one record (C01 constructor.record.*: the broadcast), dict_concat (C01), the constructor from a dict of equally long
                        columns (C01 constructor.columns.*); axiom: sum(lists, []) is concatenation.
    With NR[r] the row count of the table made of row r (the length of a list cell of that row that is not of length 1, else 1) and
    rows_before(r) = NR[0] + ... + NR[r-1], the concatenation has all the columns and rows_before(R) rows, and the block of row r - positions rows_before(r) ..
    rows_before(r) + NR[r] - 1 - holds in a column whose cell is a list of length NR[r] the items of that list in order, in any other column the cell (the
    item of a one-element list) repeated; ValueError iff some row has two list cells whose lengths differ and are both other than 1.  The prefix-sum
    law used (items_before == rows_before) is proved by induction (offsets lemma)."""
    ma = ctx.mod('_as_list')
    fdef, cdef = m.func('dictable.unlist'), m.func('dictable.concat')
    comps = [x for x in walk_no_defs(fdef) if isinstance(x, ast.ListComp)]
    if len(comps) != 1:
        raise SelectorError('unlist: expected one comprehension (the list of the rows)')
    comp = comps[0]
    n = Int('N')
    t = fresh_table('self')
    R = nrows(t, n)
    pre = [wf(t, n)]
    n0 = len(ctx.obligations)
    c, c2, C0, W = Const('c!ul', Key), Const('c2!ul', Key), Const('C0!ul', Key), Const('W!ul', Key)
    r, i, j, R0, I0 = Ints('r!ul i!ul j!ul R0!ul I0!ul')
    cell = lambda rr, cc: Select(Select(t.carr, cc), rr)

    # ---------------------------------------------------------------- unlist itself, concat as a call
    stub = ConcatStub()
    rows0 = Rows(known=[(t, n)])
    ex0 = Exec(m, [stub, ManyTables(rows0), rows0, Dictable(m), Tables(), Lists(), TypePreds(extra={'is_arr': ()})],
               inline={'dictable.unlist': (m, fdef), 'dictable.__len__': (m, m.func('dictable.__len__'))}, name='unlist.dispatch')
    st0 = State(env={'self': t})
    st0.pc += pre
    outs0 = ex0.run_function(st0, 'dictable.unlist', [t], {})
    ctx.absorb(ex0)
    ctx.record_function(m, 'dictable.unlist', fdef, ex0.stmts_executed)
    if len(stub.calls) != 1:
        raise OutOfSubset('unlist: expected one call of concat')
    recv, arg, res, guard = stub.calls[0]
    if arg.kind != 'lazylist':
        raise OutOfSubset('unlist: concat is not called with a list')
    nret0 = 0
    for out in outs0:
        hy = ex0.facts + out.st.pc
        if out.kind != 'return' or out.val.kind != 'table':
            ctx.post('unlist.dispatch.never_raises_by_itself.%s' % out.val, hy, BoolVal(False), kind='safety')
            continue
        nret0 += 1
        o = out.val
        ctx.post('unlist.dispatch.a_table_without_rows_is_returned_as_it_is', hy + [R == 0], same_table(o, t))
        ctx.post('unlist.dispatch.otherwise_the_result_is_the_concatenation', hy + [R >= 1], same_table(o, res))
    s2 = State(env={'self': t}); s2.pc += pre
    row = arg.at(s2, j)
    if row.kind != 'rowmap':
        raise OutOfSubset('unlist: concat is not called with a list of records')
    ctx.post('unlist.dispatch.concat_is_called_on_the_receiver_with_one_record_per_row', ex0.facts + pre, And(same_table(recv, t), arg.n == R))
    ctx.post('unlist.dispatch.the_jth_record_is_row_j', ex0.facts + s2.pc + [0 <= j, j < R],
             And(row.dom == t.dom, ForAll([c], Implies(t.dom[c], Select(row.vals, c) == cell(j, c)))))
    if nret0 == 0:
        raise OutOfSubset('unlist has no returning path')

    # ---------------------------------------------------------------- concat on the list of the rows
    inline = {'dictable.concat': (m, cdef), 'dictable.__len__': (m, m.func('dictable.__len__')), 'as_list': (ma, ma.func('as_list')), 'is_rng': (ma, ma.func('is_rng'))}
    rows = Rows(known=[(t, n)])
    many = ManyTables(rows)
    ex = Exec(m, [many, RowsHeaders(), Init(), rows, Dictable(m), Tables(), Lists(), TypePreds(extra={'is_arr': ()})], inline=inline, name='unlist.concat')
    st = State(env={'self': t})
    st.pc += pre
    records = ex.eval(st, comp)                   # the argument of concat as unlist builds it: the real comprehension, rows with their index kept
    if records.kind != 'lazylist' or st.pending:
        raise OutOfSubset('unlist: the list of rows is not a plain comprehension')
    outs = ex.run_function(st, 'dictable.concat', [SV('cls', None, name='dictable'), records], {})
    ctx.absorb(ex)
    ctx.record_function(m, 'dictable.concat', cdef, ex.stmts_executed, excluded=['operands that are tables already (d1 + d2: C01 __add__.*)'])
    p = many.per_row
    if p is None:
        raise OutOfSubset('concat no longer builds a table from every record')
    NR, clash = p['nr'], p['clash']
    nret = nraise = 0
    for out in outs:
        hy = ex.facts + out.st.pc
        if out.kind != 'return':
            nraise += 1
            ctx.post('unlist.concat.raises_only_ValueError_and_only_for_a_row_with_list_cells_of_different_lengths', hy,
                     And(BoolVal(out.val == 'ValueError'), Exists([r], And(0 <= r, r < R, clash(r)))), kind='safety')
            continue
        nret += 1
        o = out.val
        if o.kind != 'table':
            raise OutOfSubset('concat does not return a table')
        # the path through `dict_concat` is proved from its path condition (it carries the stepping stones about the concatenation: its columns, its cells,
        # the prefix sums) and the few axioms needed, not from every contract fact at once
        base = out.st.pc + [p['fact'], OFFN(NR, 0) == 0, OFFN(NR, 1) == OFFN(NR, 0) + NR[0]]          # ground instances of the prefix-sum definition (one row)
        ctx.post('unlist.concat.returns_only_when_no_row_has_list_cells_of_different_lengths', hy, ForAll([r], Implies(And(0 <= r, r < R), Not(clash(r)))))
        ctx.post('unlist.concat.row_count_of_a_row_is_the_length_of_its_list_cells', base + cell_axioms(),
                 ForAll([r, c], Implies(And(0 <= r, r < R, t.dom[c]), And(NR[r] >= 0, Implies(cell_len(cell(r, c)) != 1, NR[r] == cell_len(cell(r, c))),
                                                                          Implies(ForAll([c2], Implies(t.dom[c2], cell_len(cell(r, c2)) == 1)), NR[r] == 1)))))
        ctx.post('unlist.concat.keeps_all_columns', base + [R >= 1], ForAll([c], o.dom[c] == t.dom[c]))
        # for an arbitrary column C0; W names some column of a table that has one (a choice constant); ground instances of the prefix-sum stepping stone
        off = getattr(many, 'offsets_at', None)
        ground_off = [off(W, R), off(C0, R)] if off is not None else []
        ctx.post('unlist.concat.rectangular_with_the_row_counts_added_up', out.st.pc + [p['at'](IntVal(0))] + base[-2:] + ground_off + [R >= 1, Implies(Not(no_columns(t)), t.dom[W])],
                 And(OFFN(NR, R) >= 0, Implies(o.dom[C0], o.clen[C0] == OFFN(NR, R))))
        # stated for an arbitrary column C0, row R0 and position I0 (constants no hypothesis mentions), so that the one instance of the flatten axiom the
        # proof needs can be handed over (the solver does not find it by matching: the position is a sum)
        cat = getattr(many, 'concatenated', None)
        inst = [flatten_instance(Select(cat.carr, C0), Select(cat.clen, C0), R0, I0)] if cat is not None else []
        ctx.post('unlist.concat.block_of_row_r_lists_its_list_cells_and_repeats_the_others', base + cell_axioms() + list_value_axioms() + inst + [R >= 1],
                 Implies(And(t.dom[C0], 0 <= R0, R0 < R, 0 <= I0, I0 < NR[R0]),
                         o.carr[C0][OFFN(NR, R0) + I0] == If(cell_len(cell(R0, C0)) == NR[R0], cell_item(cell(R0, C0), I0), cell_item(cell(R0, C0), IntVal(0)))))
    offsets_lemma(ctx, 'unlist')
    ground_section(ctx, n0, rounds=3, lazy=True)
    for ob in ctx.obligations[n0:]:
        if ob.kind != 'syntactic':
            ob.meta['replay'] = _battery('unlist')
            ob.meta['replay_without_model'] = True
            ob.meta['replay_module'] = 'rac.C11_ded'
    if nret == 0 or nraise == 0:
        raise OutOfSubset('concat of the rows: expected a returning and a raising path')
    ka, kb = key_of('a'), key_of('b')
    va, vb = cell(0, ka), cell(0, kb)
    ctx.cover('unlist.pre_with_a_list_cell_and_a_scalar', pre + cell_axioms() + [n == 2, t.dom[ka], t.dom[kb], ISL(va), va != NONEV, VLEN(va) == 3, Not(ISL(vb)), vb != NONEV])


def build(ctx):
    m = ctx.mod('_dictable')
    ctx.trust('cmp laws (range, antisymmetry, transitivity) are hypotheses here: they are the subject of property C07')
    n_lb = len(ctx.obligations)
    ctx.guarded('_listby', lambda: listby_obligations(ctx, m))
    # the loop-invariant obligations of _listby are discharged on their grounding here, so that a broken loop body comes back `sat` (a named violation)
    # rather than `unknown`; C02 discharges the same obligations with the solver's own quantifier instantiation
    from pyvc.ground import ground_obligation
    for ob in ctx.obligations[n_lb:]:
        if '.inv_preserved.' in ob.name:
            ground_obligation(ob, rounds=2, cap=600)

    def cells(fname, outer_is_nested):
        fdef = m.func('dictable.' + fname)
        inner = [n for n in walk_no_defs(fdef) if isinstance(n, ast.ListComp) and isinstance(n.elt, ast.Subscript)
                 and isinstance(n.elt.value, ast.Subscript) and ast.unparse(n.elt.value.value) == 'self']
        if len(inner) != 1:
            raise SelectorError('%s: expected one comprehension of the form [self[k][i] for i in y]' % fname)
        comp = inner[0]
        gen = comp.generators[0]
        kname = ast.unparse(comp.elt.value.slice)
        ynames = [x.id for x in ast.walk(gen.iter) if isinstance(x, ast.Name)]
        if len(ynames) != 1:
            raise SelectorError('%s: the cell comprehension does not iterate one group list' % fname)
        yname = ynames[0]
        n = Int('N')
        t = fresh_table('self')
        y = fresh_list(INT, 'group')
        j = Int('J')
        p = Int('p!in')
        kc = Const('KCOL', Key)
        ex = Exec(m, [ColumnAccess(), Tables(), Lists(), TypePreds()], name=fname + '.cells')
        st = State(env={'self': t, kname: KEY(kc), yname: y})
        st.pc += [wf(t, n), t.dom[kc], y.t >= 0, ForAll([p], Implies(And(0 <= p, p < y.t), And(0 <= y.arrs[0][p], y.arrs[0][p] < n)))]
        val = ex.eval(st, comp)
        pend = list(st.pending)
        ctx.absorb(ex)
        ctx.record_function(m, 'dictable.' + fname, fdef, {id(s) for s in walk_no_defs(fdef) if isinstance(s, ast.stmt) and comp in list(ast.walk(s))},
                            how='the cell comprehension is symbolically executed; the surrounding constructor / update calls are bounded only',
                            excluded=['empty table and no-key / all-key branches, constructor type(self)(xs, by), update: bounded only'])
        for o in pend:
            ctx.post('%s.cells.never_raise_for_listed_rows.%s' % (fname, o.val), ex.facts + o.st.pc, BoolVal(False), kind='safety')
        if val.kind != 'lazylist':
            raise OutOfSubset('%s: cell expression is not a comprehension' % fname)
        s2 = st.fork()
        cell = val.at(s2, j)
        ctx.post('%s.cells.one_entry_per_row_of_the_group' % fname, ex.facts + st.pc, val.n == y.t)
        ctx.post('%s.cells.entry_is_that_rows_value_in_listing_order' % fname, ex.facts + s2.pc + [0 <= j, j < y.t], cell.t == t.carr[kc][y.arrs[0][j]])
        # the comprehension must be applied to every group: the enclosing comprehension iterates the ids returned by _listby
        outer = [c for c in walk_no_defs(fdef) if isinstance(c, ast.ListComp) and comp in list(ast.walk(c)) and c is not comp]
        src = [ast.unparse(c.generators[0].iter) for c in outer]
        lb = [s for s in fdef.body if isinstance(s, ast.Assign) and isinstance(s.value, ast.Call) and ast.unparse(s.value.func) == 'self._listby']
        ids_name = lb[0].targets[0].elts[1].id if lb and isinstance(lb[0].targets[0], ast.Tuple) else None
        ctx.post('%s.cells.computed_for_every_group_of__listby' % fname, [], BoolVal(bool(outer) and ids_name is not None and ids_name in src and yname in
                                                                                  [ast.unparse(c.generators[0].target) for c in outer]), kind='syntactic')

    ctx.guarded('xyz', lambda: xyz_obligations(ctx, m))
    ctx.guarded('listby', lambda: cells('listby', True))
    ctx.guarded('groupby', lambda: cells('groupby', False))
    ctx.guarded('unlist', lambda: unlist_obligations(ctx, m))
    ctx.trust('that listby / groupby apply the cell comprehension to the ids returned by _listby is checked on the AST (iteration source), not symbolically')

    # ------------------------------------------------------------------ frame: operations that return a new object never alter their operands
    def frame_section():
        from pyvc import own
        own.post_all(ctx, own.table_report(PROP), replay=frame_replay)
    ctx.guarded('frame', frame_section)


def frame_replay(d):
    """replay description of a failed frame obligation: the native re-check looks at the receiver / operands before and after the call"""
    return dict(kind='frame', name=d['name'], where=d['where'], detail=d['detail'][:300])
