"""C11 - listby/unlist, groupby/ungroup and pivot/unpivot are lossless regroupings.

Functions under contract (real source):
  dictable._listby   (shared with C02; the obligations are generated again here from the same code)
  dictable.listby    the cell expression `[[self[k][i] for i in y] for y in ids]`: one list per group, holding column k's values of the
                     group's rows in the order _listby lists them (ascending original row number)
  dictable.groupby   the inner cell expression `[self[k][i] for i in y]` of each sub-table, likewise
Consequences argued from these obligations (not solver steps): one row per distinct key (keys strictly increasing under cmp, groups tile the
rows); group sizes add up to len(d) (tiling); unlist() - the concatenation of the groups in key order - lists the rows in the order of the
sorted (key, row number) pairs, which is the order dictable.sort computes from the same sort call, i.e. the stable sort.
Bounded only (rac/C11.py): the constructors `type(self)(xs, by)`, update, concat in unlist/ungroup, pivot (xyz) and unpivot.
"""
import ast
import z3
from z3 import And, Or, Not, If, Implies, Int, Ints, IntVal, BoolVal, ForAll, Const, Select

from pyvc.front import select, SelectorError, OutOfSubset, find, find_all, walk_no_defs
from pyvc.symex import Exec, State
from pyvc.theories import TypePreds
from pyvc.th_lists import Lists, Val, VAL, INT, LIST, fresh_list, V, as_list_sv, at
from pyvc.th_tables import Tables, Key, KEY, fresh_table, wf, column
from pyvc.sv import SV, I, B, T, fresh_name
from contracts.C02 import listby_obligations

PROP = 'C11'


class ColumnAccess:
    def subscript(self, ex, st, e, recv, idx):
        if recv.kind == 'table' and idx.kind == 'key':
            ex.use('callee contract:dictable.__getitem__(column name) is the stored column (dict lookup)')
            ex.raise_if(st, Not(recv.dom[idx.t]), 'KeyError')
            return column(recv, idx.t)
        return NotImplemented


def build(ctx):
    m = ctx.mod('_dictable')
    ctx.trust('cmp laws (range, antisymmetry, transitivity) are hypotheses here: they are the subject of property C07')
    ctx.guarded('_listby', lambda: listby_obligations(ctx, m))

    def cells(fname, outer_is_nested):
        fdef = m.func('dictable.' + fname)
        inner = [n for n in walk_no_defs(fdef) if isinstance(n, ast.ListComp) and isinstance(n.elt, ast.Subscript)
                 and isinstance(n.elt.value, ast.Subscript) and ast.unparse(n.elt.value.value) == 'self']
        if len(inner) != 1:
            raise SelectorError('%s: expected one comprehension of the form [self[k][i] for i in y]' % fname)
        comp = inner[0]
        gen = comp.generators[0]
        kname = ast.unparse(comp.elt.value.slice)
        yname = ast.unparse(gen.iter)
        n = Int('N')
        t = fresh_table('self')
        y = fresh_list(INT, 'group')
        j = Int('J')
        p = Int('p!in')
        kc = Const('KCOL', Key)
        ex = Exec(m, [ColumnAccess(), Tables(), Lists(), TypePreds()], name=fname + '.cells')
        st = State(env={'self': t, kname: KEY(kc), yname: y})
        st.pc += [wf(t, n), t.dom[kc], y.t >= 0, ForAll([p], Implies(And(0 <= p, p < y.t), And(0 <= y.arrs[0][p], y.arrs[0][p] < n)))]
        val = ex.eval(st, comp)
        pend = list(st.pending)
        ctx.absorb(ex)
        ctx.record_function(m, 'dictable.' + fname, fdef, {id(s) for s in walk_no_defs(fdef) if isinstance(s, ast.stmt) and comp in list(ast.walk(s))},
                            how='the cell comprehension is symbolically executed; the surrounding constructor / update calls are bounded only',
                            excluded=['empty table and no-key / all-key branches, constructor type(self)(xs, by), update: bounded only'])
        for o in pend:
            ctx.post('%s.cells.never_raise_for_listed_rows.%s' % (fname, o.val), ex.facts + o.st.pc, BoolVal(False), kind='safety')
        if val.kind != 'lazylist':
            raise OutOfSubset('%s: cell expression is not a comprehension' % fname)
        s2 = st.fork()
        cell = val.at(s2, j)
        ctx.post('%s.cells.one_entry_per_row_of_the_group' % fname, ex.facts + st.pc, val.n == y.t)
        ctx.post('%s.cells.entry_is_that_rows_value_in_listing_order' % fname, ex.facts + s2.pc + [0 <= j, j < y.t], cell.t == t.carr[kc][y.arrs[0][j]])
        # the comprehension must be applied to every group: the enclosing comprehension iterates the ids returned by _listby
        outer = [c for c in walk_no_defs(fdef) if isinstance(c, ast.ListComp) and comp in list(ast.walk(c)) and c is not comp]
        src = [ast.unparse(c.generators[0].iter) for c in outer]
        lb = [s for s in fdef.body if isinstance(s, ast.Assign) and isinstance(s.value, ast.Call) and ast.unparse(s.value.func) == 'self._listby']
        ids_name = lb[0].targets[0].elts[1].id if lb and isinstance(lb[0].targets[0], ast.Tuple) else None
        ctx.post('%s.cells.computed_for_every_group_of__listby' % fname, [], BoolVal(bool(outer) and ids_name is not None and ids_name in src and yname in
                                                                                  [ast.unparse(c.generators[0].target) for c in outer]), kind='syntactic')

    ctx.guarded('listby', lambda: cells('listby', True))
    ctx.guarded('groupby', lambda: cells('groupby', False))
    ctx.trust('that listby / groupby apply the cell comprehension to the ids returned by _listby is checked on the AST (iteration source), not symbolically')

    # ------------------------------------------------------------------ frame: operations that return a new object never alter their operands
    def frame_section():
        from pyvc import own
        own.post_all(ctx, own.table_report(PROP), replay=frame_replay)
    ctx.guarded('frame', frame_section)


def frame_replay(d):
    """replay description of a failed frame obligation: the native re-check looks at the receiver / operands before and after the call"""
    return dict(kind='frame', name=d['name'], where=d['where'], detail=d['detail'][:300])
