"""C15 - tree flatten/rebuild are inverse; tree_update is a non-destructive deep merge.

Deductive part (real source of pyg_base/_dict.py and _table_to_tree.py, re-read on every run):
  F  frame obligations from the ownership checker pyvc/own.py:
       items_to_tree, tree_update, Dict.__add__, table_to_tree      modifies nothing (neither `tree` nor `update` / `items` / `table` at any depth)
       _tree_setitem, _table_to_tree                                modifies branches(tree) - and nothing else
       _tree_copy                                                   modifies nothing and returns a BRANCH-DEEP object (every branch is new)
       tree_items, tree_keys, tree_values, tree_getitem, tree_get   modify nothing
  P  tree_keys / tree_values are the projections of tree_items: the three recursive bodies are executed on one symbolic tree, the recursive
       calls are taken by the functions' own contract (structural induction on the nesting depth), the `sum(..., [])` fold by induction on the
       number of segments;
     tree_getitem follows the path (For#0 with the invariant res == FOLLOW(k));
     _tree_setitem: For#0 creates missing branches, keeps existing ones, and the leaf is written unless ignored (heap model).
Bounded only (rac/C15.py, never counted as proved): items_to_tree(tree_items(t)) == t, tree_update equals the recursive merge spec,
tree_update(t, t) == t, tree_update(t, {}) == t, table_to_tree / tree_to_table round trips.
"""
import ast
import z3
from z3 import And, Or, Not, If, Implies, Int, Ints, IntVal, BoolVal, ForAll, Function, IntSort, BoolSort, Const

from pyvc import own
from pyvc.front import select, SelectorError, OutOfSubset, find_all
from pyvc.symex import Exec, State, LoopSpec
from pyvc.theories import TypePreds
from pyvc.sv import SV, I, B, S, T, NONE, fresh_int, fresh_name
from pyvc.th_tree import (TreeVals, Val, L, V, TYPEOF, NK, KEY, HAS, CHILD, DEPTH, LEN, TL, TA, VA, tup_len, tup_at, list_len, list_at)

PROP = 'C15'
REPLAY_MODULE = 'rac.C15_ded'

FRAME_CONTRACTS = {
    '_dict:_tree_setitem': dict(modifies=['branches(tree)'], brparam='types', constructors=['base'], captures=[('item', 'tree', 'leaf')],
                                result='IMM', iterates={'item': 2}),
    '_dict:_tree_copy': dict(modifies=[], brparam='types', result=('BRANCH', ['tree'])),
    '_table_to_tree:_table_to_tree': dict(modifies=['branches(tree)'], brparam='types', constructors=['base'],
                                          captures=[('d', 'tree', 'leaf'), ('pattern', 'tree', 'leaf')], result='IMM'),
    '_table_to_tree:table_to_tree': dict(modifies=[], constructors=['base']),
}
FRAME_FUNCS = [('_dict', '_tree_setitem'), ('_dict', '_tree_copy'), ('_table_to_tree', '_table_to_tree'),
               ('_dict', 'items_to_tree'), ('_dict', 'tree_update'), ('_dict', 'Dict.__add__'), ('_table_to_tree', 'table_to_tree'),
               ('_dict', 'tree_items'), ('_dict', 'tree_keys'), ('_dict', 'tree_values'), ('_dict', 'tree_getitem'), ('_dict', 'tree_get'),
               ('_dict', 'tree_setitem')]
FRAME_MODIFIES = {'tree_setitem': ['deep(tree)']}            # the documented in-place entry point (writes below `tree` only)


def frame_replay(d):
    """call description for the native re-check of a failed frame obligation"""
    return dict(kind='frame', obligation=d['name'], func=d['name'].split('.frame.')[0].split('.linearity.')[0], where=d['where'], detail=d['detail'][:300])


def frame_section(ctx):
    an = own.Analyzer(FRAME_CONTRACTS)
    for modname, qual in FRAME_FUNCS:
        def one(modname=modname, qual=qual):
            spec = FRAME_MODIFIES.get(qual)
            rs = own.check_function(an, modname, qual, modifies=spec)
            own.post_all(ctx, rs, replay=frame_replay)
            m = ctx.mod(modname)
            ctx.record_function(m, qual, m.func(qual), None, how='ownership / frame analysis (pyvc/own.py)')
        ctx.guarded('frame.' + qual, one)
    unchecked = an.used_contracts - {'%s:%s' % f for f in FRAME_FUNCS}
    for k in sorted(unchecked):
        ctx.trust('assumed frame contract (body not checked): ' + k)
    ctx.trust('frame precondition: the leaves written by _tree_setitem are not instances of the branch types (property universe: None / int / str / '
              'list leaves), or the written paths are prefix-free (tree_items output); otherwise a later write descends into a caller-owned leaf: '
              'items_to_tree([("a", d), ("a", "c", 2)]) adds "c" to the caller\'s dict d')


# ================================================================================================ projections
def P_clauses(I_len, K_len, V_len, i_tl, i_ta, k_tl, k_ta, v_at, p, q):
    """the property's clause 'tree_keys and tree_values are the paths and leaves of tree_items in the same order' for element p (component q);
    arguments are python callables producing z3 terms"""
    return {
        'keys.same_number': K_len == I_len,
        'values.same_number': V_len == I_len,
        'items.nonempty': Implies(And(0 <= p, p < I_len), i_tl(p) >= 1),
        'keys.path_length': Implies(And(0 <= p, p < I_len), k_tl(p) == i_tl(p) - 1),
        'keys.path_components': Implies(And(0 <= p, p < I_len, 0 <= q, q < i_tl(p) - 1), k_ta(p, q) == i_ta(p, q)),
        'values.leaf': Implies(And(0 <= p, p < I_len), v_at(p) == i_ta(p, i_tl(p) - 1)),
    }


def P_over_lists(li, lk, lv, p, q):
    """P for three L terms"""
    return P_clauses(LEN(li), LEN(lk), LEN(lv), lambda a: TL(li, a), lambda a, b: TA(li, a, b), lambda a: TL(lk, a), lambda a, b: TA(lk, a, b),
                     lambda a: VA(lv, a), p, q)


def P_all(li, lk, lv):
    """P as a closed (quantified) hypothesis"""
    p, q = Ints('p!h q!h')
    cs = P_over_lists(li, lk, lv, p, q)
    return [cs['keys.same_number'], cs['values.same_number'], LEN(li) >= 0,
            ForAll([p], And(cs['items.nonempty'], cs['keys.path_length'], cs['values.leaf'])),
            ForAll([p, q], cs['keys.path_components'])]


def concat_axiom(F, m, seg_len, seg_tl, seg_ta, tuples=True, seg_va=None):
    """F(m+1) == F(m) ++ segment m, in the (len, at) style"""
    p, q = Ints('p!c q!c')
    a, b = F(m), F(m + 1)
    out = [LEN(b) == LEN(a) + seg_len, LEN(a) >= 0, seg_len >= 0]
    if tuples:
        out.append(ForAll([p], Implies(And(0 <= p, p < LEN(a)), TL(b, p) == TL(a, p))))
        out.append(ForAll([p, q], Implies(And(0 <= p, p < LEN(a)), TA(b, p, q) == TA(a, p, q))))
        out.append(ForAll([p], Implies(And(LEN(a) <= p, p < LEN(b)), TL(b, p) == seg_tl(p - LEN(a)))))
        out.append(ForAll([p, q], Implies(And(LEN(a) <= p, p < LEN(b), 0 <= q, q < seg_tl(p - LEN(a))), TA(b, p, q) == seg_ta(p - LEN(a), q))))
    else:
        out.append(ForAll([p], Implies(And(0 <= p, p < LEN(a)), VA(b, p) == VA(a, p))))
        out.append(ForAll([p], Implies(And(LEN(a) <= p, p < LEN(b)), VA(b, p) == seg_va(p - LEN(a)))))
    return out


def run_body(ctx, m, fname, tree, rec):
    """symbolically execute the real body of tree_items / tree_keys / tree_values on the symbolic tree (types=None);
    returns (executor, {'branch': (state, flat SV), 'leaf': (state, list literal SV)}, raises)"""
    th = TreeVals(root=tree, recursive=rec)
    inline = {fname: (m, m.func(fname))}
    if m.has_func('_tree_types'):
        inline['_tree_types'] = (m, m.func('_tree_types'))
    ex = Exec(m, [th, TypePreds()], inline=inline, name=fname)
    st = State()
    outs = ex.run_function(st, fname, [V(tree), NONE], {})
    res, raises = {}, []
    for o in outs:
        if o.kind != 'return':
            raises.append(o)
        elif o.val.kind == 'flat':
            res['branch'] = (o.st, o.val)
        elif o.val.kind == 'listlit':
            res['leaf'] = (o.st, o.val)
        else:
            raise OutOfSubset('%s returns a %s' % (fname, o.val.kind))
    if set(res) != {'branch', 'leaf'}:
        raise OutOfSubset('%s: expected one branch path and one leaf path, found %s' % (fname, sorted(res)))
    ctx.absorb(ex)
    ctx.record_function(m, fname, m.func(fname), ex.stmts_executed,
                        excluded=['types given explicitly: path precondition "types is None" (the default branch types dict, Dict, dictattr)'])
    return ex, res, raises


def projection_section(ctx):
    m = ctx.mod('_dict')
    t = Const('TREE', Val)
    ITEMS, KEYS, VALUES = Function('ITEMS', Val, L), Function('KEYS', Val, L), Function('VALUES', Val, L)
    rec = {'tree_items': (ITEMS, 'tup'), 'tree_keys': (KEYS, 'tup'), 'tree_values': (VALUES, 'val')}
    exI, rI, xI = run_body(ctx, m, 'tree_items', t, rec)
    exK, rK, xK = run_body(ctx, m, 'tree_keys', t, rec)
    exV, rV, xV = run_body(ctx, m, 'tree_values', t, rec)
    facts = exI.facts + exK.facts + exV.facts
    p, q, mm = Ints('P Q M')
    for name, xs in (('tree_items', xI), ('tree_keys', xK), ('tree_values', xV)):
        for o in xs:
            ctx.post('%s.never_raises.%s' % (name, o.val), facts + o.st.pc, BoolVal(False), kind='safety')
    # ---- the three bodies take the same decision
    def cond(r):
        return And(*r['branch'][0].pc) if r['branch'][0].pc else BoolVal(True)
    ctx.post('projection.same_branch_test.keys', facts, cond(rI) == cond(rK))
    ctx.post('projection.same_branch_test.values', facts, cond(rI) == cond(rV))
    ctx.cover('projection.branch_reachable', facts + rI['branch'][0].pc + [NK(t) == 2])
    ctx.cover('projection.leaf_reachable', facts + rI['leaf'][0].pc)
    # ---- leaf
    stI, LI = rI['leaf']; stK, LK = rK['leaf']; stV, LV = rV['leaf']
    hy = facts + stI.pc + stK.pc + stV.pc

    def lit(lst):
        return (list_len(lst), lambda a: tup_len(list_at(None, lst, a)), lambda a, b: tup_at(list_at(None, lst, a), b))
    il, itl, ita = lit(LI)
    kl, ktl, kta = lit(LK)
    vl = list_len(LV)
    vat = lambda a: list_at(None, LV, a).t
    for cname, goal in P_clauses(il, kl, vl, itl, ita, ktl, kta, vat, p, q).items():
        ctx.post('projection.leaf.%s' % cname, hy, goal)
    # ---- branch: fold induction over the segments of sum([...], [])
    stI, FI_ = rI['branch']; stK, FK_ = rK['branch']; stV, FV_ = rV['branch']
    hy = facts + stI.pc + stK.pc + stV.pc
    n = FI_.outer.n
    ctx.post('projection.branch.same_outer_iteration', hy, And(FK_.outer.n == n, FV_.outer.n == n))
    FI, FK, FV = Function('FOLD_I', IntSort(), L), Function('FOLD_K', IntSort(), L), Function('FOLD_V', IntSort(), L)
    s2 = stI.fork()
    segI, segK, segV = FI_.outer.at(s2, mm), FK_.outer.at(stK.fork(), mm), FV_.outer.at(stV.fork(), mm)
    for sg in (segI, segK, segV):
        if sg.kind != 'lazylist':
            raise OutOfSubset('segment of the flattened list is a %s' % sg.kind)
    sI, sK, sV = stI.fork(), stK.fork(), stV.fork()
    ax = concat_axiom(FI, mm, segI.n, lambda j: tup_len(segI.at(sI, j)), lambda j, b: tup_at(segI.at(sI, j), b)) \
        + concat_axiom(FK, mm, segK.n, lambda j: tup_len(segK.at(sK, j)), lambda j, b: tup_at(segK.at(sK, j), b)) \
        + concat_axiom(FV, mm, segV.n, None, None, tuples=False, seg_va=lambda j: segV.at(sV, j).t)
    ctx.trust('axiom: list concatenation in the (len, at) style: (a + b)[p] is a[p] for p < len(a) and b[p - len(a)] otherwise')
    child = CHILD(t, KEY(t, mm))
    ih = P_all(ITEMS(child), KEYS(child), VALUES(child))
    ctx.trust('induction schema: structural induction on the nesting depth (recursive calls on children use the functions\' own contract; the measure '
              'decrease is an obligation) and induction on the number of segments of sum(..., [])')
    ctx.trust('axiom: trees are finite - a child is strictly less deep than its parent (the property quantifies over finite trees)')
    hm = P_all(FI(mm), FK(mm), FV(mm))
    base = [LEN(FI(0)) == 0, LEN(FK(0)) == 0, LEN(FV(0)) == 0]
    for cname, goal in P_over_lists(FI(0), FK(0), FV(0), p, q).items():
        ctx.post('projection.branch.fold.base.%s' % cname, base, goal, kind='lemma')
    step_h = hy + facts + [0 <= mm, mm < n] + hm + ax + ih + exI.facts + exK.facts + exV.facts
    for cname, goal in P_over_lists(FI(mm + 1), FK(mm + 1), FV(mm + 1), p, q).items():
        ctx.post('projection.branch.fold.step.%s' % cname, step_h, goal, kind='lemma')
    ctx.cover('projection.branch.fold.step_hypotheses_satisfiable', step_h + [LEN(FI(mm)) == 1, segI.n == 1])
    # the recursion hypothesis is only used on children: every recursive call must be on a strictly smaller tree (obligations generated by the theory)
    ctx.trust('the results of the three functions on a tree are named ITEMS(t), KEYS(t), VALUES(t); the fold FOLD_*(n) over all n = len(t) segments is '
              'the value returned by the branch path')


# ================================================================================================ tree_getitem
def getitem_section(ctx):
    """tree_getitem(tree, path) for a list / tuple path: the loop follows the path; KeyError exactly when a step is missing"""
    m = ctx.mod('_dict')
    fn = m.func('tree_getitem')
    loop = select(fn, 'For#0')
    t, path = Const('TREE_G', Val), Const('PATH', L)
    FOLLOW = Function('FOLLOW', IntSort(), Val)
    k = Int('k!f')
    follow_def = [FOLLOW(0) == t, ForAll([k], Implies(And(0 <= k, k < LEN(path)), FOLLOW(k + 1) == CHILD(FOLLOW(k), VA(path, k)))), LEN(path) >= 0]
    present = ForAll([k], Implies(And(0 <= k, k < LEN(path)), HAS(FOLLOW(k), VA(path, k))))

    def inv(st, entry):
        return [('follows_path', st.env['res'].t == FOLLOW(st.ghost['tree_getitem.For0.k']))]
    spec = LoopSpec('tree_getitem.For0', inv)
    ex = Exec(m, [TreeVals(), TypePreds()], loops={id(loop): spec}, inline={'tree_getitem': (m, fn)}, name='')
    st = State()
    st.pc += follow_def
    outs = ex.run_function(st, 'tree_getitem', [V(t), SV('keylist', path)], {})
    ctx.absorb(ex)
    ctx.record_function(m, 'tree_getitem', fn, ex.stmts_executed, excluded=['dotted-string paths (item.split): path precondition "item is a list or tuple of keys"'])
    nret = 0
    for o in outs:
        hy = ex.facts + o.st.pc
        if o.kind == 'return':
            nret += 1
            ctx.post('tree_getitem.returns_node_at_end_of_path', hy, o.val.t == FOLLOW(LEN(path)))
        elif o.kind == 'raise':
            kk = o.st.ghost.get('tree_getitem.For0.k')
            ctx.post('tree_getitem.never_raises_on_a_listed_path.%s' % o.val, hy + [present], BoolVal(False), kind='safety')
            if kk is not None:
                ctx.post('tree_getitem.raises_only_at_a_missing_step.%s' % o.val, hy, And(0 <= kk, kk < LEN(path), Not(HAS(FOLLOW(kk), VA(path, kk)))))
        else:
            raise OutOfSubset('tree_getitem: unexpected %s' % o.kind)
    if nret == 0:
        raise OutOfSubset('tree_getitem has no returning path')
    ctx.cover('tree_getitem.path_of_two_steps_present', follow_def + [present, LEN(path) == 2])
    ctx.trust('FOLLOW(k) is the node reached after k steps of the path (defined by its recurrence); that the paths listed by tree_items lead to their leaves '
              'is checked by the bounded stand-in only (C15:tree_getitem:leaf)')


# ================================================================================================ _tree_setitem (heap model)
def setitem_section(ctx):
    """_tree_setitem(tree, item, base, ignore, types) on a mutable heap: For#0 walks item[:-2] creating a new branch wherever the key is missing or
    holds a non-branch, existing branches are kept (same object), the leaf item[-1] is written under item[-2] unless it is ignored and the key exists,
    and nothing off the path changes.  Clauses from the property's mechanism "path insertion creating branches on demand" and the ignore-list clause."""
    from z3 import Array, Store, Select
    from pyvc.th_tree import TreeHeap, R, ISB, IGN, ITEM
    m = ctx.mod('_dict')
    fn = m.func('_tree_setitem')
    loop = select(fn, 'For#0')
    if not (isinstance(loop.body[-1], ast.Assign) and len(loop.body[-1].targets) == 1 and isinstance(loop.body[-1].targets[0], ast.Name)):
        raise SelectorError('_tree_setitem/For#0 does not end with an assignment to the cursor (`res = res[key]`)')
    descent = loop.body[-1]
    cursor = descent.targets[0].id
    tree, n, next0 = Ints('TREE_S NITEM NEXT0')
    H0has = Array('H0has', IntSort(), IntSort(), BoolSort())
    H0get = Array('H0get', IntSort(), IntSort(), IntSort())
    RANK = Function('RANK', IntSort(), IntSort())
    o, kk, i, j = Ints('o!s k!s i!s j!s')
    KN = 'setitem.For0.k'

    def Mz(x):                                  # strictly increasing along the path: old nodes by decreasing rank, then new nodes by identity
        return If(x < next0, -RANK(x), x - next0)
    pre = [tree < next0, tree >= 0, n >= 0, next0 >= 1,
           ForAll([j], Implies(And(0 <= j, j < n), And(0 <= ITEM(j), ITEM(j) < next0))),                       # keys and the leaf exist already
           ForAll([o, kk], Implies(Select(H0has, o, kk), And(0 <= Select(H0get, o, kk), Select(H0get, o, kk) < next0, o < next0))),   # well-formed heap
           ForAll([o], RANK(o) >= 1),
           ForAll([o, kk], Implies(And(Select(H0has, o, kk), ISB(Select(H0get, o, kk))), RANK(Select(H0get, o, kk)) < RANK(o))),      # branches form a finite tree
           ForAll([o], Implies(o >= next0, ISB(o)))]                                                              # base() creates branches
    ctx.trust('precondition of _tree_setitem (from its call sites): base() returns a new empty instance of one of the branch types; the branches reachable '
              'from `tree` form a finite tree (no cycles); keys and leaf are existing objects')

    def on_path(st, x, key, upto):
        N = st.ghost['N']
        return z3.Exists([j], And(0 <= j, j < upto, x == Select(N, j), key == ITEM(j)))

    def inv(st, entry):
        k = st.ghost[KN]
        N, Hh, Hg, nx = st.ghost['N'], st.ghost['Hhas'], st.ghost['Hget'], st.ghost['next']
        return [('at_node_k', And(st.env[cursor].t == Select(N, k), Select(N, 0) == tree)),
                ('path_so_far_is_linked', ForAll([j], Implies(And(0 <= j, j < k), And(Select(Hh, Select(N, j), ITEM(j)), Select(Hg, Select(N, j), ITEM(j)) == Select(N, j + 1),
                                                                                         ISB(Select(N, j + 1)))))),
                ('allocation', And(nx >= next0, ForAll([j], Implies(And(0 <= j, j <= k), And(0 <= Select(N, j), Select(N, j) < nx))))),
                ('nodes_strictly_ordered', ForAll([i, j], Implies(And(0 <= i, i < j, j <= k), Mz(Select(N, i)) < Mz(Select(N, j))))),
                ('off_path_unchanged', ForAll([o, kk], Implies(Not(on_path(st, o, kk, k)),
                                                                And(Select(Hh, o, kk) == Select(H0has, o, kk), Select(Hg, o, kk) == Select(H0get, o, kk))))),
                ('existing_branches_kept', ForAll([j], Implies(And(0 <= j, j < k, Select(N, j) < next0, Select(H0has, Select(N, j), ITEM(j)),
                                                                   ISB(Select(H0get, Select(N, j), ITEM(j)))),
                                                               Select(N, j + 1) == Select(H0get, Select(N, j), ITEM(j))))),
                ('other_steps_create_new_nodes', ForAll([j], Implies(And(0 <= j, j < k, Not(And(Select(N, j) < next0, Select(H0has, Select(N, j), ITEM(j)),
                                                                                                ISB(Select(H0get, Select(N, j), ITEM(j)))))),
                                                                     Select(N, j + 1) >= next0)))]

    def ghost_havoc(ex, st):
        st.ghost['N'] = Array(fresh_name('N'), IntSort(), IntSort())
        st.ghost['Hhas'] = Array(fresh_name('Hhas'), IntSort(), IntSort(), BoolSort())
        st.ghost['Hget'] = Array(fresh_name('Hget'), IntSort(), IntSort(), IntSort())
        st.ghost['next'] = fresh_int('next')

    def record_node(ex, st, stmt):               # ghost: the node reached after this step is N[k+1]
        st.ghost['N'] = Store(st.ghost['N'], st.ghost[KN] + 1, st.env[cursor].t)
    spec = LoopSpec('setitem.For0', inv, ghost_havoc=ghost_havoc)
    ex = Exec(m, [TreeHeap(), TypePreds()], loops={id(loop): spec}, inline={'_tree_setitem': (m, fn)}, hooks=[(lambda s_: s_ is descent, record_node)], name='_tree')
    st = State()
    st.pc += pre
    st.ghost.update(Hhas=H0has, Hget=H0get, next=next0, N=Store(Array('N0', IntSort(), IntSort()), 0, tree))
    item = SV('reflist', None, n=n, off=IntVal(0))
    outs = ex.run_function(st, '_tree_setitem', [R(tree), item, SV('ctor'), SV('ignorelist'), SV('types')], {})
    ctx.absorb(ex)
    ctx.record_function(m, '_tree_setitem', fn, ex.stmts_executed)
    leaf, last = ITEM(n - 1), ITEM(n - 2)
    nnorm = 0
    for out in outs:
        hy = ex.facts + out.st.pc
        if out.kind == 'raise':
            if out.val == 'ValueError':
                ctx.post('_tree_setitem.raises_ValueError_only_for_short_items', hy, n < 2)
            else:
                ctx.post('_tree_setitem.never_raises.%s' % out.val, hy, BoolVal(False), kind='safety')
            continue
        if out.kind != 'return':
            raise OutOfSubset('_tree_setitem: unexpected %s' % out.kind)
        nnorm += 1
        g = out.st.ghost
        N, Hh, Hg = g['N'], g['Hhas'], g['Hget']
        k = g[KN]
        end = Select(N, n - 2)
        ctx.post('_tree_setitem.loop_covers_the_branch_part_of_the_path', hy, And(k == n - 2, n >= 2))
        ctx.post('_tree_setitem.path_is_linked_by_branches', hy, ForAll([j], Implies(And(0 <= j, j < n - 2),
                 And(Select(Hh, Select(N, j), ITEM(j)), Select(Hg, Select(N, j), ITEM(j)) == Select(N, j + 1), ISB(Select(N, j + 1))))))
        written = And(Select(Hh, end, last), Select(Hg, end, last) == leaf)
        kept = And(Select(Hh, end, last) == Select(H0has, end, last), Select(Hg, end, last) == Select(H0get, end, last))
        ign = And(Select(H0has, end, last), IGN(leaf), end < next0)
        ctx.post('_tree_setitem.leaf_written_unless_ignored', hy, Implies(Not(And(Select(Hh, end, last), IGN(leaf))), written) if False else
                 Or(written, And(IGN(leaf), kept, Select(Hh, end, last))))
        ctx.post('_tree_setitem.ignored_leaf_never_overwrites_an_existing_entry', hy, Implies(And(IGN(leaf), end < next0, Select(H0has, end, last)), kept))
        ctx.post('_tree_setitem.leaf_written_when_not_ignored_or_key_absent', hy, Implies(Or(Not(IGN(leaf)), Not(And(end < next0, Select(H0has, end, last)))), written))
        ctx.post('_tree_setitem.nothing_off_the_path_changes', hy, ForAll([o, kk], Implies(Not(on_path(out.st, o, kk, n - 1)),
                 And(Select(Hh, o, kk) == Select(H0has, o, kk), Select(Hg, o, kk) == Select(H0get, o, kk)))))
        ctx.post('_tree_setitem.existing_branches_are_kept', hy, ForAll([j], Implies(And(0 <= j, j < n - 2, Select(N, j) < next0, Select(H0has, Select(N, j), ITEM(j)),
                 ISB(Select(H0get, Select(N, j), ITEM(j)))), Select(N, j + 1) == Select(H0get, Select(N, j), ITEM(j)))))
        ctx.post('_tree_setitem.missing_branches_are_new_objects', hy, ForAll([j], Implies(And(0 <= j, j < n - 2, Not(And(Select(N, j) < next0, Select(H0has, Select(N, j), ITEM(j)),
                 ISB(Select(H0get, Select(N, j), ITEM(j)))))), Select(N, j + 1) >= next0)))
    if nnorm == 0:
        raise OutOfSubset('_tree_setitem has no normal exit')
    ctx.cover('_tree_setitem.precondition_satisfiable', pre + [n == 4, Select(H0has, tree, ITEM(0)), ISB(Select(H0get, tree, ITEM(0)))])


def attach_replays(ctx):
    """the obligations of the P sections live in abstractions (an uninterpreted tree sort, a heap of ids): a failed one is re-checked natively by a
    search over the small scope of rac/C15_ded.py that exercises the same clause"""
    kinds = (('projection.', 'projection'), ('tree_items.', 'projection'), ('tree_keys.', 'projection'), ('tree_values.', 'projection'),
             ('tree_getitem.', 'getitem'), ('_tree_setitem.', 'setitem'), ('_tree.setitem.', 'setitem'))
    for ob in ctx.obligations:
        short = ob.name[len(PROP) + 1:]
        for prefix, kind in kinds:
            if short.startswith(prefix) and not ob.witness:
                ob.witness = dict(site=IntVal(0))
                ob.meta['replay'] = (lambda model, kind=kind, name=ob.name: dict(kind=kind, obligation=name))
                break


def build(ctx):
    frame_section(ctx)
    ctx.guarded('_tree_setitem', lambda: setitem_section(ctx))
    ctx.guarded('projection', lambda: projection_section(ctx))
    ctx.guarded('tree_getitem', lambda: getitem_section(ctx))
    attach_replays(ctx)
