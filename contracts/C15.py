"""C15 - tree flatten/rebuild are inverse; tree_update is a non-destructive deep merge.

Deductive part (real source of pyg_base/_dict.py and _table_to_tree.py, re-read on every run):
  F  frame obligations from the ownership checker pyvc/own.py:
       items_to_tree, tree_update, Dict.__add__, table_to_tree      modifies nothing (neither `tree` nor `update` / `items` / `table` at any depth)
       _tree_setitem, _table_to_tree                                modifies branches(tree) - and nothing else
       _tree_copy                                                   modifies nothing and returns a BRANCH-DEEP object (every branch is new)
       tree_items, tree_keys, tree_values, tree_getitem, tree_get   modify nothing
  P  tree_keys / tree_values are the projections of tree_items: the three recursive bodies are executed on one symbolic tree, the recursive
       calls are taken by the functions' own contract (structural induction on the nesting depth), the `sum(..., [])` fold by induction on the
       number of segments;
     tree_getitem follows the path (For#0 with the invariant res == FOLLOW(k));
     _tree_setitem: For#0 creates missing branches, keeps existing ones, and the leaf is written unless ignored (heap model).
Bounded only (rac/C15.py, never counted as proved): items_to_tree(tree_items(t)) == t, tree_update equals the recursive merge spec,
tree_update(t, t) == t, tree_update(t, {}) == t, table_to_tree / tree_to_table round trips.
"""
import ast
import z3
from z3 import And, Or, Not, If, Implies, Int, Ints, IntVal, BoolVal, ForAll, Function, IntSort, BoolSort, Const

from pyvc import own
from pyvc.front import select, SelectorError, OutOfSubset, find_all
from pyvc.symex import Exec, State, LoopSpec
from pyvc.theories import TypePreds
from pyvc.sv import SV, I, B, S, T, NONE, fresh_int, fresh_name
from pyvc.th_tree import (TreeVals, Val, L, V, TYPEOF, NK, KEY, HAS, CHILD, DEPTH, LEN, TL, TA, VA, tup_len, tup_at, list_len, list_at)

PROP = 'C15'
REPLAY_MODULE = 'rac.C15_ded'

FRAME_CONTRACTS = {
    '_dict:_tree_setitem': dict(modifies=['branches(tree)'], brparam='types', constructors=['base'], captures=[('item', 'tree', 'leaf')],
                                result='IMM', iterates={'item': 2}),
    '_dict:_tree_copy': dict(modifies=[], brparam='types', result=('BRANCH', ['tree'])),
    '_table_to_tree:_table_to_tree': dict(modifies=['branches(tree)'], brparam='types', constructors=['base'],
                                          captures=[('d', 'tree', 'leaf'), ('pattern', 'tree', 'leaf')], result='IMM'),
    '_table_to_tree:table_to_tree': dict(modifies=[], constructors=['base']),
}
FRAME_FUNCS = [('_dict', '_tree_setitem'), ('_dict', '_tree_copy'), ('_table_to_tree', '_table_to_tree'),
               ('_dict', 'items_to_tree'), ('_dict', 'tree_update'), ('_dict', 'Dict.__add__'), ('_table_to_tree', 'table_to_tree'),
               ('_dict', 'tree_items'), ('_dict', 'tree_keys'), ('_dict', 'tree_values'), ('_dict', 'tree_getitem'), ('_dict', 'tree_get'),
               ('_dict', 'tree_setitem')]
FRAME_MODIFIES = {'tree_setitem': ['deep(tree)']}            # the documented in-place entry point (writes below `tree` only)


def frame_replay(d):
    """call description for the native re-check of a failed frame obligation"""
    return dict(kind='frame', obligation=d['name'], func=d['name'].split('.frame.')[0].split('.linearity.')[0], where=d['where'], detail=d['detail'][:300])


def frame_section(ctx):
    an = own.Analyzer(FRAME_CONTRACTS)
    for modname, qual in FRAME_FUNCS:
        def one(modname=modname, qual=qual):
            spec = FRAME_MODIFIES.get(qual)
            rs = own.check_function(an, modname, qual, modifies=spec)
            own.post_all(ctx, rs, replay=frame_replay)
            m = ctx.mod(modname)
            ctx.record_function(m, qual, m.func(qual), None, how='ownership / frame analysis (pyvc/own.py)')
        ctx.guarded('frame.' + qual, one)
    unchecked = an.used_contracts - {'%s:%s' % f for f in FRAME_FUNCS}
    for k in sorted(unchecked):
        ctx.trust('assumed frame contract (body not checked): ' + k)
    ctx.trust('frame precondition: the leaves written by _tree_setitem are not instances of the branch types (property universe: None / int / str / '
              'list leaves), or the written paths are prefix-free (tree_items output); otherwise a later write descends into a caller-owned leaf: '
              'items_to_tree([("a", d), ("a", "c", 2)]) adds "c" to the caller\'s dict d')


# ================================================================================================ projections
def P_clauses(I_len, K_len, V_len, i_tl, i_ta, k_tl, k_ta, v_at, p, q):
    """the property's clause 'tree_keys and tree_values are the paths and leaves of tree_items in the same order' for element p (component q);
    arguments are python callables producing z3 terms"""
    return {
        'keys.same_number': K_len == I_len,
        'values.same_number': V_len == I_len,
        'items.nonempty': Implies(And(0 <= p, p < I_len), i_tl(p) >= 1),
        'keys.path_length': Implies(And(0 <= p, p < I_len), k_tl(p) == i_tl(p) - 1),
        'keys.path_components': Implies(And(0 <= p, p < I_len, 0 <= q, q < i_tl(p) - 1), k_ta(p, q) == i_ta(p, q)),
        'values.leaf': Implies(And(0 <= p, p < I_len), v_at(p) == i_ta(p, i_tl(p) - 1)),
    }


def P_over_lists(li, lk, lv, p, q):
    """P for three L terms"""
    return P_clauses(LEN(li), LEN(lk), LEN(lv), lambda a: TL(li, a), lambda a, b: TA(li, a, b), lambda a: TL(lk, a), lambda a, b: TA(lk, a, b),
                     lambda a: VA(lv, a), p, q)


def P_all(li, lk, lv):
    """P as a closed (quantified) hypothesis"""
    p, q = Ints('p!h q!h')
    cs = P_over_lists(li, lk, lv, p, q)
    return [cs['keys.same_number'], cs['values.same_number'], LEN(li) >= 0,
            ForAll([p], And(cs['items.nonempty'], cs['keys.path_length'], cs['values.leaf'])),
            ForAll([p, q], cs['keys.path_components'])]


def concat_axiom(F, m, seg_len, seg_tl, seg_ta, tuples=True, seg_va=None):
    """F(m+1) == F(m) ++ segment m, in the (len, at) style"""
    p, q = Ints('p!c q!c')
    a, b = F(m), F(m + 1)
    out = [LEN(b) == LEN(a) + seg_len, LEN(a) >= 0, seg_len >= 0]
    if tuples:
        out.append(ForAll([p], Implies(And(0 <= p, p < LEN(a)), TL(b, p) == TL(a, p))))
        out.append(ForAll([p, q], Implies(And(0 <= p, p < LEN(a)), TA(b, p, q) == TA(a, p, q))))
        out.append(ForAll([p], Implies(And(LEN(a) <= p, p < LEN(b)), TL(b, p) == seg_tl(p - LEN(a)))))
        out.append(ForAll([p, q], Implies(And(LEN(a) <= p, p < LEN(b), 0 <= q, q < seg_tl(p - LEN(a))), TA(b, p, q) == seg_ta(p - LEN(a), q))))
    else:
        out.append(ForAll([p], Implies(And(0 <= p, p < LEN(a)), VA(b, p) == VA(a, p))))
        out.append(ForAll([p], Implies(And(LEN(a) <= p, p < LEN(b)), VA(b, p) == seg_va(p - LEN(a)))))
    return out


def run_body(ctx, m, fname, tree, rec):
    """symbolically execute the real body of tree_items / tree_keys / tree_values on the symbolic tree (types=None);
    returns (executor, {'branch': (state, flat SV), 'leaf': (state, list literal SV)}, raises)"""
    th = TreeVals(root=tree, recursive=rec)
    inline = {fname: (m, m.func(fname))}
    if m.has_func('_tree_types'):
        inline['_tree_types'] = (m, m.func('_tree_types'))
    ex = Exec(m, [th, TypePreds()], inline=inline, name=fname)
    st = State()
    outs = ex.run_function(st, fname, [V(tree), NONE], {})
    res, raises = {}, []
    for o in outs:
        if o.kind != 'return':
            raises.append(o)
        elif o.val.kind == 'flat':
            res['branch'] = (o.st, o.val)
        elif o.val.kind == 'listlit':
            res['leaf'] = (o.st, o.val)
        else:
            raise OutOfSubset('%s returns a %s' % (fname, o.val.kind))
    if set(res) != {'branch', 'leaf'}:
        raise OutOfSubset('%s: expected one branch path and one leaf path, found %s' % (fname, sorted(res)))
    ctx.absorb(ex)
    ctx.record_function(m, fname, m.func(fname), ex.stmts_executed,
                        excluded=['types given explicitly: path precondition "types is None" (the default branch types dict, Dict, dictattr)'])
    return ex, res, raises


def projection_section(ctx):
    m = ctx.mod('_dict')
    t = Const('TREE', Val)
    ITEMS, KEYS, VALUES = Function('ITEMS', Val, L), Function('KEYS', Val, L), Function('VALUES', Val, L)
    rec = {'tree_items': (ITEMS, 'tup'), 'tree_keys': (KEYS, 'tup'), 'tree_values': (VALUES, 'val')}
    exI, rI, xI = run_body(ctx, m, 'tree_items', t, rec)
    exK, rK, xK = run_body(ctx, m, 'tree_keys', t, rec)
    exV, rV, xV = run_body(ctx, m, 'tree_values', t, rec)
    facts = exI.facts + exK.facts + exV.facts
    p, q, mm = Ints('P Q M')
    for name, xs in (('tree_items', xI), ('tree_keys', xK), ('tree_values', xV)):
        for o in xs:
            ctx.post('%s.never_raises.%s' % (name, o.val), facts + o.st.pc, BoolVal(False), kind='safety')
    # ---- the three bodies take the same decision
    def cond(r):
        return And(*r['branch'][0].pc) if r['branch'][0].pc else BoolVal(True)
    ctx.post('projection.same_branch_test.keys', facts, cond(rI) == cond(rK))
    ctx.post('projection.same_branch_test.values', facts, cond(rI) == cond(rV))
    ctx.cover('projection.branch_reachable', facts + rI['branch'][0].pc + [NK(t) == 2])
    ctx.cover('projection.leaf_reachable', facts + rI['leaf'][0].pc)
    # ---- leaf
    stI, LI = rI['leaf']; stK, LK = rK['leaf']; stV, LV = rV['leaf']
    hy = facts + stI.pc + stK.pc + stV.pc

    def lit(lst):
        return (list_len(lst), lambda a: tup_len(list_at(None, lst, a)), lambda a, b: tup_at(list_at(None, lst, a), b))
    il, itl, ita = lit(LI)
    kl, ktl, kta = lit(LK)
    vl = list_len(LV)
    vat = lambda a: list_at(None, LV, a).t
    for cname, goal in P_clauses(il, kl, vl, itl, ita, ktl, kta, vat, p, q).items():
        ctx.post('projection.leaf.%s' % cname, hy, goal)
    # ---- branch: fold induction over the segments of sum([...], [])
    stI, FI_ = rI['branch']; stK, FK_ = rK['branch']; stV, FV_ = rV['branch']
    hy = facts + stI.pc + stK.pc + stV.pc
    n = FI_.outer.n
    ctx.post('projection.branch.same_outer_iteration', hy, And(FK_.outer.n == n, FV_.outer.n == n))
    FI, FK, FV = Function('FOLD_I', IntSort(), L), Function('FOLD_K', IntSort(), L), Function('FOLD_V', IntSort(), L)
    s2 = stI.fork()
    segI, segK, segV = FI_.outer.at(s2, mm), FK_.outer.at(stK.fork(), mm), FV_.outer.at(stV.fork(), mm)
    for sg in (segI, segK, segV):
        if sg.kind != 'lazylist':
            raise OutOfSubset('segment of the flattened list is a %s' % sg.kind)
    sI, sK, sV = stI.fork(), stK.fork(), stV.fork()
    ax = concat_axiom(FI, mm, segI.n, lambda j: tup_len(segI.at(sI, j)), lambda j, b: tup_at(segI.at(sI, j), b)) \
        + concat_axiom(FK, mm, segK.n, lambda j: tup_len(segK.at(sK, j)), lambda j, b: tup_at(segK.at(sK, j), b)) \
        + concat_axiom(FV, mm, segV.n, None, None, tuples=False, seg_va=lambda j: segV.at(sV, j).t)
    ctx.trust('axiom: list concatenation in the (len, at) style: (a + b)[p] is a[p] for p < len(a) and b[p - len(a)] otherwise')
    child = CHILD(t, KEY(t, mm))
    ih = P_all(ITEMS(child), KEYS(child), VALUES(child))
    ctx.trust('induction schema: structural induction on the nesting depth (recursive calls on children use the functions\' own contract; the measure '
              'decrease is an obligation) and induction on the number of segments of sum(..., [])')
    ctx.trust('axiom: trees are finite - a child is strictly less deep than its parent (the property quantifies over finite trees)')
    hm = P_all(FI(mm), FK(mm), FV(mm))
    base = [LEN(FI(0)) == 0, LEN(FK(0)) == 0, LEN(FV(0)) == 0]
    for cname, goal in P_over_lists(FI(0), FK(0), FV(0), p, q).items():
        ctx.post('projection.branch.fold.base.%s' % cname, base, goal, kind='lemma')
    step_h = hy + facts + [0 <= mm, mm < n] + hm + ax + ih + exI.facts + exK.facts + exV.facts
    for cname, goal in P_over_lists(FI(mm + 1), FK(mm + 1), FV(mm + 1), p, q).items():
        ctx.post('projection.branch.fold.step.%s' % cname, step_h, goal, kind='lemma')
    ctx.cover('projection.branch.fold.step_hypotheses_satisfiable', step_h + [LEN(FI(mm)) == 1, segI.n == 1])
    # the recursion hypothesis is only used on children: every recursive call must be on a strictly smaller tree (obligations generated by the theory)
    ctx.trust('the results of the three functions on a tree are named ITEMS(t), KEYS(t), VALUES(t); the fold FOLD_*(n) over all n = len(t) segments is '
              'the value returned by the branch path')


def build(ctx):
    frame_section(ctx)
    ctx.guarded('projection', lambda: projection_section(ctx))
