"""C16 - ulist, dictattr and Dict implement ordered set / key algebra without side effects.

Vocabulary (pyvc/th_maps.py): python values modulo == are an uninterpreted sort; a list is seen through its element view
(mem = `x in l`, fst = `l.index(x)`) and its index view (len, at); a dict through dom / get and an insertion time stamp rk
(only the relative order of two keys is used).  A duplicate-free list is *determined* by its member set and the relative order of
its members (two duplicate-free lists with the same members in the same relative order are equal - induction on the length,
not a solver step), so "u + x equals the ordered union" is stated as

    nodup(r),   x in r <=> x in u or x in xs,   for a, b in r:  r.index(a) < r.index(b) <=> ordU(a) < ordU(b)
    ordU(e) = u.index(e) if e in u else len(u) + xs.index(e)                 (xs = [x] for a single element)

and likewise for difference / intersection (members filtered, order of u).  The same form is used for key order of mappings:
(d - k).keys() == d.keys() - k  <=>  same member keys, same relative order.

ulist (`_ulist.py`)      __add__, __or__ (checked to be the same function object in the class body), __sub__, __and__, copy are
                         executed from the real AST for a list argument and for a single non-list element; the result class is the
                         symbolic class tag type(self) (every subclass at once).
                         The constructor contract the operators rely on is proved from the real ulist.__init__ (section ulist.__init__.*):
                         ulist(xs) = DEDUP(xs) (no duplicates, same element set, first-occurrence order, at most len(xs) items - the set / index /
                         sorted pipeline under the axioms of those builtins, which are validated against CPython on every run), ulist(xs,
                         unique = True) holds the items of xs, ulist() is empty.  The precondition of the fast path (xs duplicate free) is an
                         obligation at every call site that uses it (copy, `&` with one element, dictattr.keys).
dictattr (`_dictattr.py`) __sub__ (single key, list of keys: the `for` loop with a pointwise invariant, the recursive call with
                         copy = False inlined), __delitem__ (through `del res[key]`), __and__ (with the real as_list / keys),
                         __add__, __getitem__ (key, tuple of keys, list of keys), __getattr__, __setattr__, __delattr__ (the two in-place
                         operations, run on an owned copy), keys, copy, relabel: the method body with the module-level helper relabel() executed
                         at its call site, once per shape of *args (none, suffix '_x', prefix 'x_', other string, callable, dict, two names):
                         same class, new object, every key renamed to the label the call asks for (explicit relabels win), values untouched and
                         original key order when no two keys collide; the helper on its own in relabel.* (string concatenation and the
                         callable stay uninterpreted; new labels are strings by precondition).
                         The law (d - k).keys() == d.keys() - k is checked with both sides executed: the real dictattr.keys on the
                         result and on the receiver and the real ulist.__sub__ on the latter (same members, same relative order).  Frame: every mutation site executed (del, update, store) produces an obligation
                         "the target was created in this activation (copy / constructor)" - the ownership flag travels with the
                         symbolic object through the inlined calls.
                         Excluded by path precondition: tuple paths (`d - ('a','b')`, known to delete inside a shared child - noted
                         in DESIGN section 7, outside the key universe), dotted string keys (nested access).
Dict (`_dict.py`)        __call__: see the section comment below.

"Dict.__call__'s result does not depend on keyword order" is NOT a solver step: the proved loop contract says every callable key is
assigned exactly once, in a round strictly after the rounds of all its callable dependencies, from the mapping as of that moment.
On an acyclic dependency graph the equations  res[k] = f_k(res[args of k])  then have a unique solution (induction along the
rounds), whatever order the keywords were given in; the rounds themselves may differ with the order, the fixpoint does not.
"""
import ast
import z3
from z3 import And, Or, Not, If, Implies, Int, Ints, IntVal, BoolVal, Const, Consts, Function, IntSort, BoolSort, ForAll, Exists

from pyvc.front import select, SelectorError, OutOfSubset, find_all, find
from pyvc.symex import Exec, State, LoopSpec
from pyvc.th_maps import (Maps, Val, Lst, Dct, Cls, LEN, AT, MEM, FST, NODUP, DOM, GET, RK, NXT, CARD, V, PList, PDict, fresh_val,
                          validate_axioms, pairs, CALLABLE, IS_STR)
from pyvc.sv import SV, I, B, S, T, NONE, fresh_int, fresh_name

PROP = 'C16'
RELABEL_FN = '_dictattr.relabel'
REPLAY_MODULE = 'rac.C16_ded'


def class_methods(mod, cname):
    cdef = mod.func(cname)
    return {'%s.%s' % (cname, n.name): (mod, n) for n in cdef.body if isinstance(n, ast.FunctionDef)}


def machinery(ctx):
    mu, mt, ml, md, mD = ctx.mod('_ulist'), ctx.mod('_types'), ctx.mod('_as_list'), ctx.mod('_dictattr'), ctx.mod('_dict')
    classes = {'ulist': (mu, mu.func('ulist'), 'list'), 'dictattr': (md, md.func('dictattr'), 'dict'), 'Dict': (mD, mD.func('Dict'), 'dictattr')}
    inline = {}
    for mod, c in ((mu, 'ulist'), (md, 'dictattr'), (mD, 'Dict')):
        inline.update(class_methods(mod, c))
    for mod, f in ((mt, 'is_list'), (mt, 'is_str'), (ml, 'as_list'), (ml, 'is_rng')):
        inline[f] = (mod, mod.func(f))
    inline[RELABEL_FN] = (md, md.func('relabel'))        # the module-level helper (dictattr.relabel is the method)
    return dict(mu=mu, mt=mt, ml=ml, md=md, mD=mD, classes=classes, inline=inline)


def record_inlined(ctx, ex):
    """every repo function whose statements were executed (directly or inlined at a call site) is listed in the evidence"""
    for key, (mod, fdef) in ex.inline.items():
        if any(isinstance(n, ast.stmt) and id(n) in ex.stmts_executed for n in ast.walk(fdef) if n is not fdef):
            ctx.record_function(mod, 'relabel' if key == RELABEL_FN else key, fdef, ex.stmts_executed)


def finish(ctx, ex, th, E, J=()):
    """obligations raised inside the executor (call-site preconditions, frame, safety) get the axiom instances too"""
    record_inlined(ctx, ex)
    inst = th.inst(E, J)
    for ob in ex.obligations:
        ob.hyps = list(ob.hyps) + inst
    ctx.absorb(ex)
    return inst


# =============================================================================================== ulist
def ulist_section(ctx, M):
    mu = M['mu']
    cdef = mu.func('ulist')
    u = Const('u', Lst)
    xs = Const('xs', Lst)
    x = Const('x', Val)
    CLS = Const('type_self', Cls)
    a, b = Consts('a b', Val)

    for op in ('__add__', '__or__', '__sub__', '__and__'):
        for argkind in ('element', 'list'):
            th = Maps(M['classes'])
            key = th.resolve('ulist', op)
            if key is None or key not in M['inline']:
                raise SelectorError('ulist.%s not found' % op)
            fdef = M['inline'][key][1]
            ex = Exec(mu, [th], inline=M['inline'], name='ulist.%s.%s' % (op.strip('_'), argkind))
            self_ = th.sym_list('u', cls='ulist', tag=CLS)
            U = self_.pl
            st = State(); st.pc += [NODUP(u)]           # class invariant of ulist: established by every constructor path (contract)
            if argkind == 'element':
                other = V(x, 'elem')
                XS = PList.literal([x])
                E = [a, b, x]
            else:
                other = th.sym_list('xs', cls='list')
                XS = other.pl
                E = [a, b]
            outs = ex.run_function(st, key, [self_, other], {})
            inst = finish(ctx, ex, th, E)
            ctx.record_function(mu, key, fdef, ex.stmts_executed)
            # replayable models: lists of length <= 3, axioms instantiated at every position (hints are used for model extraction only)
            wit = dict(len_u=LEN(u), len_xs=XS.len, a=a, b=b)
            cells = []
            for i in range(3):
                wit['u%d' % i] = U.at(i); wit['xs%d' % i] = XS.at(i)
                cells += [U.at(i), XS.at(i)]
            ctx.default_meta = dict(search_hints=[LEN(u) <= 3, XS.len <= 3] + th.inst(E + cells, [0, 1, 2]))
            nret = 0
            name = op.strip('_')
            for out in outs:
                hy = ex.facts + out.st.pc + inst
                if out.kind != 'return':
                    ctx.post('ulist.%s.%s.never_raises.%s' % (name, argkind, out.val), hy, BoolVal(False), kind='safety', witness=wit, replay=rp('ulist', name, argkind))
                    continue
                nret += 1
                r = out.val
                if r.kind != 'plist':
                    raise OutOfSubset('ulist.%s returns %s' % (op, r.kind))
                R = r.pl
                if name in ('add', 'or'):
                    member = Or(U.mem(a), XS.mem(a))
                    order = lambda e: If(U.mem(e), U.fst(e), U.len + XS.fst(e))
                elif name == 'sub':
                    member = And(U.mem(a), Not(XS.mem(a)))
                    order = U.fst
                else:
                    member = And(U.mem(a), XS.mem(a))
                    order = U.fst
                pre = 'ulist.%s.%s.' % (name, argkind)
                kw = dict(witness=wit, replay=rp('ulist', name, argkind))
                ctx.post(pre + 'result_is_type_self', hy, And(BoolVal(r.cls == 'ulist'), r.tag == CLS), **kw)
                ctx.post(pre + 'no_duplicates', hy, R.nodup if R.nodup is not None else BoolVal(False), **kw)
                ctx.post(pre + 'exact_membership', hy, R.mem(a) == member, **kw)
                ctx.post(pre + 'order_of_first_occurrence', hy + [R.mem(a), R.mem(b)], (R.fst(a) < R.fst(b)) == (order(a) < order(b)), **kw)
            if nret == 0:
                raise OutOfSubset('ulist.%s(%s) has no returning path' % (op, argkind))
            muts = [m for m in th.mutations]
            ctx.post('ulist.%s.%s.frame.no_mutation_site_executed' % (name, argkind), [], BoolVal(len(muts) == 0), kind='frame')
            ctx.cover('ulist.%s.%s.precondition' % (name, argkind), [NODUP(u), LEN(u) >= 2, U.mem(a), Not(U.mem(b)), XS.mem(b)] + th.inst(E))
    # __or__ is the very same function as __add__ (class-body alias), checked structurally
    alias = [n for n in cdef.body if isinstance(n, ast.Assign) and len(n.targets) == 1 and isinstance(n.targets[0], ast.Name) and n.targets[0].id == '__or__']
    ctx.post('ulist.or_is_add', [], BoolVal(bool(alias) and isinstance(alias[-1].value, ast.Name) and alias[-1].value.id == '__add__'), kind='post')
    ctx.trust('elements are compared with an == that is an equivalence consistent with hash (no NaN elements)')
    ctx.trust('a duplicate-free list is determined by its member set and the relative order of its members (induction, not a solver step)')


# =============================================================================================== ulist.__init__ (the constructor contract the operators use)
def init_section(ctx, M):
    """ulist.__init__(self, *args, unique = False), executed from the real AST on the object under construction (an empty list of class type(self),
    created by list.__new__ for this call) and one symbolic list argument xs (or none):

      unique = False   self ends up holding DEDUP(xs): no duplicates, exactly the members of xs, first occurrences in the order of xs, at most len(xs)
                       items - through whatever pipeline the body uses (today: set -> (index, item) pairs -> sorted -> second components), given the
                       axioms of those builtins over the list theory; `xs.index(u)` never raises because u comes from set(xs); sorted() never compares
                       two items because the first components of different items differ (an obligation at the call).
      unique = True    self holds the items of xs, position by position (so it is duplicate free iff xs is - the call-site precondition).
      no argument      self is empty.
    These are the three contracts `Maps.construct` hands to every caller ulist(...) / type(self)(...)."""
    mu = M['mu']
    key = 'ulist.__init__'
    if key not in M['inline']:
        raise SelectorError('ulist.__init__ not found')
    fdef = M['inline'][key][1]
    xs = Const('xs', Lst)
    a, b = Consts('a b', Val)
    J0 = Int('J0')
    CLS = Const('type_self', Cls)
    for variant in ('dedup', 'dedup.no_argument', 'unique', 'unique.no_argument'):
        th = Maps(M['classes'])
        ex = Exec(mu, [th], inline=M['inline'], name='ulist.__init__.' + variant)
        self_ = SV('plist', None, pl=PList.literal([]), cls='ulist', tag=CLS, own=True)
        src = th.sym_list('xs', cls='list')
        XS = src.pl
        has_arg = 'no_argument' not in variant
        outs = ex.run_function(State(), key, [self_] + ([src] if has_arg else []), {'unique': B(variant.startswith('unique'))})
        E, J = [a, b], [J0]
        inst = finish(ctx, ex, th, E, J)
        ctx.record_function(mu, key, fdef, ex.stmts_executed)
        wit = dict(len_xs=LEN(xs), a=a, b=b, J0=J0)
        cells = []
        for i in range(3):
            wit['xs%d' % i] = XS.at(i)
            cells.append(XS.at(i))
        ctx.default_meta = dict(search_hints=[LEN(xs) <= 3] + th.inst(E + cells, [0, 1, 2]))
        kw = dict(witness=wit, replay=rp('ulist_init', variant))
        pre = 'ulist.__init__.%s.' % variant
        nret = 0
        for out in outs:
            hy = ex.facts + out.st.pc + inst
            if out.kind != 'return':
                ctx.post(pre + 'never_raises.%s' % out.val, hy, BoolVal(False), kind='safety', **kw)
                continue
            nret += 1
            cur = out.st.env.get('self')
            if cur is None or cur.kind != 'plist':
                raise OutOfSubset('ulist.__init__: receiver lost')
            R = cur.pl
            ctx.post(pre + 'returns_None_and_keeps_the_class', hy, And(BoolVal(out.val.kind == 'none' and cur.cls == 'ulist'), cur.tag == CLS), **kw)
            if not has_arg:
                ctx.post(pre + 'empty', hy, R.len == 0, **kw)
            elif variant == 'dedup':
                ctx.post(pre + 'no_duplicates', hy, R.nodup if R.nodup is not None else BoolVal(False), **kw)
                ctx.post(pre + 'same_members', hy, R.mem(a) == XS.mem(a), **kw)
                ctx.post(pre + 'first_occurrence_order', hy + [R.mem(a), R.mem(b)], (R.fst(a) < R.fst(b)) == (XS.fst(a) < XS.fst(b)), **kw)
                ctx.post(pre + 'at_most_len_xs_items', hy, And(R.len <= XS.len, R.len >= 0), **kw)
            else:
                ctx.post(pre + 'same_length', hy, R.len == XS.len, **kw)
                ctx.post(pre + 'same_item_at_every_position', hy + [0 <= J0, J0 < XS.len],
                         (R.at(J0) == XS.at(J0)) if R.at is not None else BoolVal(False), **kw)
                ctx.post(pre + 'same_element_view', hy, And(R.mem(a) == XS.mem(a), Implies(XS.mem(a), R.fst(a) == XS.fst(a))), **kw)
                ctx.post(pre + 'duplicate_free_iff_xs_is', hy, (R.nodup == NODUP(xs)) if R.nodup is not None else BoolVal(False), **kw)
            arg_now = out.st.env.get(fdef.args.vararg.arg) if fdef.args.vararg is not None else None
            kept = (not has_arg) or (arg_now is not None and arg_now.kind == 'tuple' and len(arg_now.items) == 1 and arg_now.items[0] is src)
            ctx.post(pre + 'argument_unchanged', hy, BoolVal(bool(kept)), kind='frame', **kw)
        if not nret:
            raise OutOfSubset('ulist.__init__ has no returning path')
        muts = list(th.mutations)
        ctx.post(pre + 'frame.writes_only_the_object_under_construction', [], BoolVal(len(muts) == 1 and all(own for _, own in muts)), kind='frame')
        if has_arg:
            ctx.cover(pre + 'precondition', [LEN(xs) >= 3, XS.mem(a), XS.mem(b), a != b, XS.at(0) == XS.at(2)] + th.inst(E + [XS.at(0), XS.at(2)], [0, 2]))
    ctx.default_meta = {}
    cdef = mu.func('ulist')
    ctx.post('ulist.__init__.construction_is_list_new_then_this_init', [],
             BoolVal(not any(isinstance(n, ast.FunctionDef) and n.name in ('__new__', '__init_subclass__', '__class_getitem__') for n in cdef.body)
                     and [ast.unparse(bs) for bs in cdef.bases] == ['list'] and not cdef.keywords), kind='post')
    ctx.trust('axiom:C(*args, **kw) for a subclass C of list that defines no __new__ creates an empty list of class C, runs C.__init__(it, *args, **kw) and '
              'returns it (object construction; ulist.__init__.* verify what __init__ leaves in it)')



# =============================================================================================== dictattr
def dictattr_section(ctx, M, cls):
    """cls: 'dictattr' or 'Dict' - the static class whose MRO resolves the methods; the *dynamic* class is the symbolic tag"""
    md = M['md']
    d = Const('d', Dct)
    o = Const('o', Dct)
    ks = Const('ks', Lst)
    k = Const('k', Val)
    CLS = Const('type_self', Cls)
    K0, K1 = Consts('K0 K1', Val)
    J0 = Int('J0')
    STARTS_ = None

    def setup(name, loops=None):
        th = Maps(M['classes'])
        th.contracts['relabel'] = relabel_contract(th)
        ex = Exec(md, [th], inline=M['inline'], loops=loops or {}, name='%s.%s' % (cls, name))
        self_ = th.sym_dict('d', cls=cls, tag=CLS, kty='str')
        return th, ex, self_

    def hints(th, D, extra_lists=()):
        """replayable models: at most 3 keys in every mapping / list involved"""
        hs = []
        for pl in extra_lists:
            hs.append(pl.len <= 3)
        return hs

    def wit(D, **more):
        w = dict(K0=K0, K1=K1, K0_in_d=D.dom(K0), K1_in_d=D.dom(K1), K0_before_K1=D.rk(K0) < D.rk(K1), K0_eq_K1=(K0 == K1))
        w.update(more)
        return w

    def same_class(r):
        return And(BoolVal(r.kind == 'pdict' and r.cls == cls), r.tag == CLS) if r.kind == 'pdict' else BoolVal(False)

    def receiver_unchanged(out, self_):
        cur = out.st.env.get('self')
        return BoolVal(cur is not None and cur.kind == 'pdict' and cur.pd is self_.pd)

    def mapping_posts(pre, hy, r, self_, member, value, order, kw):
        """the four clauses for an operation returning a new mapping: class, exact keys, untouched values, key order"""
        D, R = self_.pd, r.pd
        ctx.post(pre + 'result_is_type_self', hy, same_class(r), **kw)
        ctx.post(pre + 'result_is_a_new_object', hy, BoolVal(bool(r.f.get('own')) and r.pd is not D or bool(r.f.get('own'))), **kw)
        ctx.post(pre + 'exact_keys', hy, R.dom(K0) == member(K0), **kw)
        ctx.post(pre + 'values_untouched', hy + [R.dom(K0)], R.get(K0) == value(K0), **kw)
        ctx.post(pre + 'key_order', hy + [R.dom(K0), R.dom(K1)], (R.rk(K0) < R.rk(K1)) == (order(K0) < order(K1)), **kw)

    def run(name, key, th, ex, self_, args, kwargs=None, E=(), J=(), excluded=None, pre=()):
        fdef = M['inline'][key][1]
        st = State(); st.pc += list(pre)
        outs = ex.run_function(st, key, [self_] + list(args), kwargs or {})
        inst = finish(ctx, ex, th, list(E), list(J))
        ctx.record_function(M['inline'][key][0], key, fdef, ex.stmts_executed, excluded=excluded)
        return outs, inst

    TUPLE_PATH = ['tuple paths d - (k1, k2): nested deletion inside a shared child (outside the key universe; noted in DESIGN section 7)']

    def keys_law(th, ex, out, self_, operand, pre, kw, E):
        """(d - k).keys() == d.keys() - k, both sides executed: the real dictattr.keys on the result and on the receiver, the real
        ulist.__sub__ on the latter; two duplicate-free lists are equal iff same members in the same relative order"""
        st2 = out.st.fork(); st2.pending = []
        kk = th.resolve(cls, 'keys')
        L1 = ex.call_inline_expr(st2, kk, [out.val], {})
        L2 = ex.call_inline_expr(st2, kk, [self_], {})
        L3 = ex.call_inline_expr(st2, th.resolve('ulist', '__sub__'), [L2, operand], {})
        inst = finish(ctx, ex, th, E)
        hy = ex.facts + st2.pc + inst
        for o in st2.pending:
            ctx.post(pre + 'keys_law.never_raises', ex.facts + o.st.pc + inst, BoolVal(False), kind='safety', **kw)
        if L1.kind != 'plist' or L3.kind != 'plist':
            raise OutOfSubset('keys() does not return a list')
        ctx.post(pre + 'keys_law.both_sides_are_ulists', hy, And(BoolVal(L1.cls == 'ulist' and L3.cls == 'ulist'), L1.tag == L3.tag), **kw)
        ctx.post(pre + 'keys_law.both_sides_duplicate_free', hy, And(L1.pl.nodup, L3.pl.nodup), **kw)
        ctx.post(pre + 'keys_law.same_members', hy, L1.pl.mem(K0) == L3.pl.mem(K0), **kw)
        ctx.post(pre + 'keys_law.same_order', hy + [L1.pl.mem(K0), L1.pl.mem(K1)], (L1.pl.fst(K0) < L1.pl.fst(K1)) == (L3.pl.fst(K0) < L3.pl.fst(K1)), **kw)

    def resolve(th, mname):
        key = th.resolve(cls, mname)
        if key is None or key not in M['inline']:
            raise SelectorError('%s.%s not found' % (cls, mname))
        return key

    # ------------------------------------------------------------------ d - key
    def sub_key():
        th, ex, self_ = setup('sub.key')
        D = self_.pd
        key = resolve(th, '__sub__')
        E = [K0, K1, k]
        ctx.default_meta = dict(search_hints=[])
        outs, inst = run('sub.key', key, th, ex, self_, [V(k, 'str')], E=E, excluded=TUPLE_PATH)
        kw = dict(witness=wit(D, k=k, k_in_d=D.dom(k)), replay=rp('dictattr', cls, 'sub.key'))
        pre = '%s.sub.key.' % cls
        nret = 0
        for out in outs:
            hy = ex.facts + out.st.pc + inst
            if out.kind != 'return':
                ctx.post(pre + 'never_raises.%s' % out.val, hy, BoolVal(False), kind='safety', **kw)
                continue
            nret += 1
            mapping_posts(pre, hy, out.val, self_, lambda x: And(D.dom(x), x != k), D.get, D.rk, kw)
            ctx.post(pre + 'receiver_unchanged', hy, receiver_unchanged(out, self_), kind='frame', **kw)
            keys_law(th, ex, out, self_, V(k, 'elem'), pre, kw, E)
        if not nret:
            raise OutOfSubset('no returning path')
        ctx.cover(pre + 'precondition', [D.dom(k), D.dom(K0), K0 != k] + th.inst(E))
    ctx.guarded('%s.sub.key' % cls, sub_key)

    # ------------------------------------------------------------------ d - [keys]
    def sub_list():
        fdef = M['inline'][Maps(M['classes']).resolve(cls, '__sub__')][1]
        fors = find_all(fdef, lambda n: isinstance(n, ast.For))
        if len(fors) != 2:
            raise SelectorError('dictattr.__sub__: expected two for loops (tuple path, list path), found %d' % len(fors))
        loop = fors[1]
        box = {}

        def inv(st, entry):
            th, ex, self_ = box['th'], box['ex'], box['self']
            D = self_.pd
            SEL = box['sel'].pl
            res = st.env['res']
            kk = st.ghost['sub.For1.k']
            for f in th.inst([K0, K1], [kk]):
                ex.fact(f)
            if res.kind != 'pdict':
                return [('res_is_a_mapping', BoolVal(False))]
            R = res.pd
            cl = [('class_kept', And(BoolVal(res.cls == cls and bool(res.f.get('own'))), res.tag == CLS))]
            for nm, x in (('K0', K0), ('K1', K1)):
                cl.append(('keys_are_d_minus_prefix.' + nm, R.dom(x) == And(D.dom(x), Not(SEL.memp(kk, x)))))
                cl.append(('values_and_stamps_kept.' + nm, Implies(R.dom(x), And(R.get(x) == D.get(x), R.rk(x) == D.rk(x)))))
            return cl
        th, ex, self_ = setup('sub.list', loops={id(loop): LoopSpec('sub.For1', inv)})
        box.update(th=th, ex=ex, self=self_)
        D = self_.pd
        key = resolve(th, '__sub__')
        sel = th.sym_list('ks', cls='list', elty='str')
        box['sel'] = sel
        E = [K0, K1]
        outs, inst = run('sub.list', key, th, ex, self_, [sel], E=E, excluded=TUPLE_PATH)
        kw = dict(witness=wit(D, len_ks=LEN(ks), K0_in_ks=MEM(ks, K0), K1_in_ks=MEM(ks, K1)), replay=rp('dictattr', cls, 'sub.list'))
        pre = '%s.sub.list.' % cls
        nret = 0
        for out in outs:
            hy = ex.facts + out.st.pc + inst
            if out.kind != 'return':
                ctx.post(pre + 'never_raises.%s' % out.val, hy, BoolVal(False), kind='safety', **kw)
                continue
            nret += 1
            mapping_posts(pre, hy, out.val, self_, lambda x: And(D.dom(x), Not(MEM(ks, x))), D.get, D.rk, kw)
            ctx.post(pre + 'receiver_unchanged', hy, receiver_unchanged(out, self_), kind='frame', **kw)
            keys_law(th, ex, out, self_, sel, pre, kw, E)
        if not nret:
            raise OutOfSubset('no returning path')
        ctx.cover(pre + 'precondition', [D.dom(K0), MEM(ks, K0), D.dom(K1), Not(MEM(ks, K1)), LEN(ks) >= 2] + th.inst(E))
    ctx.guarded('%s.sub.list' % cls, sub_list)

    # ------------------------------------------------------------------ d & key, d & [keys]
    def and_(argkind):
        th, ex, self_ = setup('and.' + argkind)
        D = self_.pd
        key = resolve(th, '__and__')
        if argkind == 'key':
            other, E, sel = V(k, 'str'), [K0, K1, k], (lambda x: x == k)
        else:
            other, E, sel = th.sym_list('ks', cls='list', elty='str'), [K0, K1], (lambda x: MEM(ks, x))
        outs, inst = run('and.' + argkind, key, th, ex, self_, [other], E=E)
        kw = dict(witness=wit(D, K0_sel=sel(K0), K1_sel=sel(K1)), replay=rp('dictattr', cls, 'and.' + argkind))
        pre = '%s.and.%s.' % (cls, argkind)
        nret = 0
        for out in outs:
            hy = ex.facts + out.st.pc + inst
            if out.kind != 'return':
                ctx.post(pre + 'never_raises.%s' % out.val, hy, BoolVal(False), kind='safety', **kw)
                continue
            nret += 1
            mapping_posts(pre, hy, out.val, self_, lambda x: And(D.dom(x), sel(x)), D.get, D.rk, kw)
            ctx.post(pre + 'receiver_unchanged', hy, receiver_unchanged(out, self_), kind='frame', **kw)
        if not nret:
            raise OutOfSubset('no returning path')
        ctx.post(pre + 'frame.no_mutation_site_executed', [], BoolVal(len(th.mutations) == 0), kind='frame')
        ctx.cover(pre + 'precondition', [D.dom(K0), sel(K0), D.dom(K1), Not(sel(K1))] + th.inst(E))
    for argkind in ('key', 'list'):
        ctx.guarded('%s.and.%s' % (cls, argkind), lambda argkind=argkind: and_(argkind))

    # ------------------------------------------------------------------ d + other  ==  {**d, **other}
    def add(okind, opname='add', method='__add__'):
        th, ex, self_ = setup(opname + '.' + okind)
        D = self_.pd
        key = resolve(th, method)
        other = th.sym_dict('o', cls=('dict' if okind == 'dict' else cls), kty='str')
        O = other.pd
        E = [K0, K1]
        outs, inst = run(opname + '.' + okind, key, th, ex, self_, [other], E=E)
        kw = dict(witness=wit(D, K0_in_o=O.dom(K0), K1_in_o=O.dom(K1), K0_before_K1_in_o=O.rk(K0) < O.rk(K1)), replay=rp('dictattr', cls, opname + '.' + okind))
        pre = '%s.%s.%s.' % (cls, opname, okind)
        nret = 0
        for out in outs:
            hy = ex.facts + out.st.pc + inst
            if out.kind != 'return':
                ctx.post(pre + 'never_raises.%s' % out.val, hy, BoolVal(False), kind='safety', **kw)
                continue
            nret += 1
            # {**d, **o}: keys of d in d's order (values overwritten by o), then the new keys of o in o's order
            mapping_posts(pre, hy, out.val, self_, lambda x: Or(D.dom(x), O.dom(x)), lambda x: If(O.dom(x), O.get(x), D.get(x)),
                          lambda x: If(D.dom(x), D.rk(x), D.nxt + O.rk(x)), kw)
            ctx.post(pre + 'receiver_unchanged', hy, receiver_unchanged(out, self_), kind='frame', **kw)
            oth = out.st.env.get('other')
            ctx.post(pre + 'other_unchanged', hy, BoolVal(oth is not None and oth.kind == 'pdict' and oth.pd is O), kind='frame', **kw)
        if not nret:
            raise OutOfSubset('no returning path')
        ctx.cover(pre + 'precondition', [D.dom(K0), O.dom(K0), O.dom(K1), Not(D.dom(K1))] + th.inst(E))
    if cls == 'dictattr':            # Dict.__add__ is tree_update (nested merge): property C15's subject, bounded here
        for okind in ('dict', 'same'):
            ctx.guarded('%s.add.%s' % (cls, okind), lambda okind=okind: add(okind))
    for okind in ('dict', 'same'):       # d | other: dict.__or__ re-wrapped into type(self)
        ctx.guarded('%s.or.%s' % (cls, okind), lambda okind=okind: add(okind, 'or', '__or__'))

    # ------------------------------------------------------------------ d[key], d.key
    def getitem_key(how):
        th, ex, self_ = setup(how + '.key')
        D = self_.pd
        key = resolve(th, '__getitem__' if how == 'getitem' else '__getattr__')
        E = [k]
        from pyvc.th_maps import STARTSWITH
        st_pre = [Not(STARTSWITH(k, th.strv('_')))]
        fdef = M['inline'][key][1]
        st = State(); st.pc += st_pre
        outs = ex.run_function(st, key, [self_, V(k, 'str')], {})
        inst = finish(ctx, ex, th, E)
        ctx.record_function(M['inline'][key][0], key, fdef, ex.stmts_executed,
                            excluded=['dotted keys (nested access)', 'attribute names starting with "_" (python attributes of dict)'] if how == 'getattr' else ['dotted keys (nested access)'])
        kw = dict(witness=dict(k=k, k_in_d=D.dom(k)), replay=rp('dictattr', cls, how + '.key'))
        pre = '%s.%s.key.' % (cls, how)
        expected_exc = 'KeyError' if how == 'getitem' else 'AttributeError'
        nret = 0
        for out in outs:
            hy = ex.facts + out.st.pc + inst
            if out.kind == 'raise':
                ctx.post(pre + 'raises_only_%s_and_only_for_an_absent_key' % expected_exc, hy, And(BoolVal(out.val == expected_exc), Not(D.dom(k))), kind='safety', **kw)
                continue
            nret += 1
            r = out.val
            ctx.post(pre + 'returns_the_stored_value', hy, And(D.dom(k), th.to_val(ex, r) == D.get(k)), **kw)
            ctx.post(pre + 'receiver_unchanged', hy, receiver_unchanged(out, self_), kind='frame', **kw)
        if not nret:
            raise OutOfSubset('no returning path')
        ctx.post(pre + 'frame.no_mutation_site_executed', [], BoolVal(len(th.mutations) == 0), kind='frame')
        ctx.cover(pre + 'precondition.present', st_pre + [D.dom(k)] + th.inst(E))
        ctx.cover(pre + 'precondition.absent', st_pre + [Not(D.dom(k))] + th.inst(E))
    for how in ('getitem', 'getattr'):
        ctx.guarded('%s.%s.key' % (cls, how), lambda how=how: getitem_key(how))

    # ------------------------------------------------------------------ e.key = v, del e.key  (the documented in-place operations, on an owned copy)
    def setattr_():
        from pyvc.th_maps import STARTSWITH, CONTAINS
        th, ex, _ = setup('setattr.key')
        self_ = th.sym_dict('d', cls=cls, tag=CLS, kty='str', own=True)
        D = self_.pd
        v = Const('v', Val)
        key = resolve(th, '__setattr__')
        E = [K0, K1, k]
        outs, inst = run('setattr.key', key, th, ex, self_, [V(k, 'str'), V(v)], E=E, pre=[Not(STARTSWITH(k, th.strv('_')))],
                         excluded=['attribute names starting with "_" (python attributes, not items)'])
        kw = dict(witness=wit(D, k=k, k_in_d=D.dom(k)), replay=rp('dictattr', cls, 'setattr.key'))
        pre = '%s.setattr.key.' % cls
        nret = 0
        for out in outs:
            hy = ex.facts + out.st.pc + inst
            if out.kind != 'return':
                ctx.post(pre + 'never_raises.%s' % out.val, hy, BoolVal(False), kind='safety', **kw)
                continue
            nret += 1
            cur = out.st.env.get('self')
            if cur is None or cur.kind != 'pdict':
                raise OutOfSubset('receiver lost')
            R = cur.pd
            ctx.post(pre + 'stores_the_item', hy, And(R.dom(k), R.get(k) == v), **kw)
            ctx.post(pre + 'other_items_untouched', hy + [K0 != k], And(R.dom(K0) == D.dom(K0), Implies(D.dom(K0), R.get(K0) == D.get(K0))), **kw)
            ctx.post(pre + 'key_order', hy + [R.dom(K0), R.dom(K1)], (R.rk(K0) < R.rk(K1)) == (If(D.dom(K0), D.rk(K0), D.nxt) < If(D.dom(K1), D.rk(K1), D.nxt)), **kw)
        if not nret:
            raise OutOfSubset('no returning path')
    ctx.guarded('%s.setattr.key' % cls, setattr_)

    def delattr_():
        from pyvc.th_maps import STARTSWITH, CONTAINS
        th, ex, _ = setup('delattr.key')
        self_ = th.sym_dict('d', cls=cls, tag=CLS, kty='str', own=True)
        D = self_.pd
        key = resolve(th, '__delattr__')
        E = [K0, K1, k]
        outs, inst = run('delattr.key', key, th, ex, self_, [V(k, 'str')], E=E, pre=[Not(STARTSWITH(k, th.strv('_'))), Not(CONTAINS(k, th.strv('.')))],
                         excluded=['attribute names starting with "_"', 'dotted keys (nested deletion)'])
        kw = dict(witness=wit(D, k=k, k_in_d=D.dom(k)), replay=rp('dictattr', cls, 'delattr.key'))
        pre = '%s.delattr.key.' % cls
        nret = 0
        for out in outs:
            hy = ex.facts + out.st.pc + inst
            if out.kind != 'return':
                ctx.post(pre + 'raises_only_AttributeError_and_only_for_an_absent_key', hy, And(BoolVal(out.val == 'AttributeError'), Not(D.dom(k))), kind='safety', **kw)
                continue
            nret += 1
            cur = out.st.env.get('self')
            if cur is None or cur.kind != 'pdict':
                raise OutOfSubset('receiver lost')
            R = cur.pd
            ctx.post(pre + 'removes_exactly_the_item', hy, And(D.dom(k), R.dom(K0) == And(D.dom(K0), K0 != k)), **kw)
            ctx.post(pre + 'other_items_untouched', hy + [R.dom(K0)], And(R.get(K0) == D.get(K0), R.rk(K0) == D.rk(K0)), **kw)
        if not nret:
            raise OutOfSubset('no returning path')
    ctx.guarded('%s.delattr.key' % cls, delattr_)

    # ------------------------------------------------------------------ d[k1, k2, ...] -> list of values
    def getitem_tuple():
        th, ex, self_ = setup('getitem.tuple')
        D = self_.pd
        key = resolve(th, '__getitem__')
        sel = th.sym_list('ks', cls='tuple', elty='str')
        E = [AT(ks, J0)]
        outs, inst = run('getitem.tuple', key, th, ex, self_, [sel], E=E, J=[J0])
        kw = dict(witness=dict(len_ks=LEN(ks), J0=J0), replay=rp('dictattr', cls, 'getitem.tuple'))
        pre = '%s.getitem.tuple.' % cls
        nret = 0
        for out in outs:
            hy = ex.facts + out.st.pc + inst
            if out.kind == 'raise':
                # the comprehension's raise outcome names the offending position through its path condition
                absent = Exists([J0], And(0 <= J0, J0 < LEN(ks), Not(D.dom(AT(ks, J0)))))
                ctx.post(pre + 'raises_only_KeyError_and_only_if_some_key_is_absent', hy, And(BoolVal(out.val == 'KeyError'), absent), kind='safety', **kw)
                continue
            nret += 1
            r = out.val
            if r.kind != 'lazylist':
                raise OutOfSubset('d[tuple] does not return a list comprehension')
            s2 = out.st.fork()
            ej = r.at(s2, J0)
            hy2 = ex.facts + s2.pc + inst
            ctx.post(pre + 'one_value_per_key', hy2, r.n == LEN(ks), **kw)
            ctx.post(pre + 'jth_value_is_the_value_of_the_jth_key', hy2 + [0 <= J0, J0 < LEN(ks)], And(D.dom(AT(ks, J0)), th.to_val(ex, ej) == D.get(AT(ks, J0))), **kw)
            ctx.post(pre + 'receiver_unchanged', hy, receiver_unchanged(out, self_), kind='frame', **kw)
        if not nret:
            raise OutOfSubset('no returning path')
        ctx.post(pre + 'frame.no_mutation_site_executed', [], BoolVal(len(th.mutations) == 0), kind='frame')
        ctx.cover(pre + 'precondition', [LEN(ks) >= 2, 0 <= J0, J0 < LEN(ks), D.dom(AT(ks, J0))] + th.inst(E, [J0]))
    ctx.guarded('%s.getitem.tuple' % cls, getitem_tuple)

    # ------------------------------------------------------------------ d[[k1, k2, ...]] -> sub-mapping of the same class
    def getitem_list():
        th, ex, self_ = setup('getitem.list')
        D = self_.pd
        key = resolve(th, '__getitem__')
        sel = th.sym_list('ks', cls='list', elty='str')
        E = [K0, K1]
        outs, inst = run('getitem.list', key, th, ex, self_, [sel], E=E)
        kw = dict(witness=wit(D, len_ks=LEN(ks), K0_in_ks=MEM(ks, K0), K1_in_ks=MEM(ks, K1)), replay=rp('dictattr', cls, 'getitem.list'))
        pre = '%s.getitem.list.' % cls
        nret = 0
        for out in outs:
            hy = ex.facts + out.st.pc + inst
            if out.kind == 'raise':
                absent = Or(*[And(MEM(ks, w), Not(D.dom(w))) for w in th.elems]) if th.elems else BoolVal(False)
                ctx.post(pre + 'raises_only_KeyError_and_only_if_some_key_is_absent', hy, And(BoolVal(out.val == 'KeyError'), absent), kind='safety', **kw)
                continue
            nret += 1
            # keys: exactly the selected ones, all present; order: first occurrence in the selection
            mapping_posts(pre, hy, out.val, self_, lambda x: MEM(ks, x), D.get, lambda x: FST(ks, x), kw)
            ctx.post(pre + 'returns_only_if_every_selected_key_is_present', hy + [MEM(ks, K0)], D.dom(K0), **kw)
            ctx.post(pre + 'receiver_unchanged', hy, receiver_unchanged(out, self_), kind='frame', **kw)
        if not nret:
            raise OutOfSubset('no returning path')
        ctx.post(pre + 'frame.no_mutation_site_executed', [], BoolVal(len(th.mutations) == 0), kind='frame')
        ctx.cover(pre + 'precondition', [MEM(ks, K0), D.dom(K0), MEM(ks, K1), K0 != K1] + th.inst(E))
    ctx.guarded('%s.getitem.list' % cls, getitem_list)

    # ------------------------------------------------------------------ relabel (the module-level helper relabel() is executed at its call site)
    def relabel_(variant):
        th, ex, self_ = setup('relabel.' + variant)
        th.contracts['__call__'] = call1_contract(th)
        D = self_.pd
        key = resolve(th, 'relabel')
        E = [K0, K1]
        args, pre_, base, extra = relabel_setup(th, variant)
        rel = th.sym_dict('relabels', cls='dict', kty='str', own=True)
        RL = rel.pd
        fdef = M['inline'][key][1]
        st = State(); st.pc += list(pre_)
        outs = ex.run_function(st, key, [self_] + args, {'**': rel})
        Mmap, KS = getattr(th, 'relabel_map', None), getattr(th, 'relabel_keys', None)
        if Mmap is None or KS is None:
            raise OutOfSubset('dictattr.relabel does not call relabel(list of keys, ...)')
        m = lambda x: If(Mmap.dom(x), Mmap.get(x), x)
        want = lambda x: If(RL.dom(x), RL.get(x), If(base['dom'](KS, x), base['get'](KS, x), x)) if base['get'] is not None else If(RL.dom(x), RL.get(x), x)
        inst = finish(ctx, ex, th, E + [m(K0), m(K1)] + [v for v in extra.values() if z3.is_expr(v)], [0, 1])
        ctx.record_function(md, key, fdef, ex.stmts_executed)
        ctx.record_function(md, 'relabel', M['inline'][RELABEL_FN][1], ex.stmts_executed, how='inlined into dictattr.relabel')
        w = wit(D, K0_renamed=Mmap.dom(K0), K0_relabelled=RL.dom(K0), K1_relabelled=RL.dom(K1))
        if 'amap' in extra:
            w.update(K0_in_arg=extra['amap'].dom(K0), K1_in_arg=extra['amap'].dom(K1))
        kw = dict(witness=w, replay=rp('dictattr', cls, 'relabel.' + variant))
        pre = '%s.relabel.%s.' % (cls, variant)
        q = Const('q', Val)
        inj = lambda x: ForAll([q], Implies(And(D.dom(q), q != x), m(q) != m(x)))
        nret = 0
        for out in outs:
            hy = ex.facts + out.st.pc + inst
            if out.kind != 'return':
                ctx.post(pre + 'never_raises.%s' % out.val, hy, BoolVal(False), kind='safety', **kw)
                continue
            nret += 1
            r = out.val
            R = r.pd
            ctx.post(pre + 'result_is_type_self', hy, same_class(r), **kw)
            ctx.post(pre + 'result_is_a_new_object', hy, BoolVal(bool(r.f.get('own')) and r.pd is not D), **kw)
            ctx.post(pre + 'the_keys_handed_to_relabel_are_the_keys_of_d', hy, And(KS.mem(K0) == D.dom(K0), KS.nodup if KS.nodup is not None else BoolVal(False),
                                                                                  Implies(And(D.dom(K0), D.dom(K1)), (KS.fst(K0) < KS.fst(K1)) == (D.rk(K0) < D.rk(K1)))), **kw)
            ctx.post(pre + 'new_label_of_a_key', hy + [D.dom(K0)], m(K0) == want(K0), **kw)
            ctx.post(pre + 'every_key_is_renamed', hy + [D.dom(K0)], R.dom(m(K0)), **kw)
            ctx.post(pre + 'only_renamed_keys', hy + [R.dom(K0)], Exists([q], And(D.dom(q), m(q) == K0)), **kw)
            ctx.post(pre + 'values_untouched_when_no_two_keys_collide', hy + [D.dom(K0), inj(K0)], R.get(m(K0)) == D.get(K0), **kw)
            ctx.post(pre + 'original_key_order_when_no_two_keys_collide', hy + [D.dom(K0), D.dom(K1), inj(K0), inj(K1)],
                     (R.rk(m(K0)) < R.rk(m(K1))) == (D.rk(K0) < D.rk(K1)), **kw)
            ctx.post(pre + 'receiver_unchanged', hy, receiver_unchanged(out, self_), kind='frame', **kw)
        if not nret:
            raise OutOfSubset('no returning path')
        ctx.post(pre + 'frame.every_mutation_targets_an_object_created_by_the_call', [], BoolVal(all(own for _, own in th.mutations)), kind='frame')
        ctx.cover(pre + 'precondition', list(pre_) + [D.dom(K0), Mmap.dom(K0), D.dom(K1), m(K0) != K1, K0 != K1] + th.inst(E, [0, 1]))
    for variant in RELABEL_VARIANTS:
        ctx.guarded('%s.relabel.%s' % (cls, variant), lambda variant=variant: relabel_(variant))
    ctx.trust('precondition:the new labels handed to dictattr.relabel (values of **relabels or of a dict argument, positional names, results of the callable) are '
              'strings - they become keyword names of type(self)(**{...}), which raises TypeError otherwise (d.relabel(a = 5)); keys are strings (the property)')


# =============================================================================================== Dict.__call__
ARGS = Function('getargs', Val, Lst)                 # getargs(f): uninterpreted list of parameter names;  dep(k, d) := d in getargs(v_k)
APPLY = Function('Dict_apply', Val, Dct, Dct, Val)   # res.apply(f, **defaults) evaluated on a snapshot of res (assumed contract)
SNAP = 'snapshot of res handed to apply when the key was evaluated'


def call_section(ctx, M):
    """Dict.__call__(self, **kwargs), executed from the real AST with

      ghost t        number of completed rounds of While#0
      ghost rnd(k)   round in which key k was assigned        ghost cnt(k)   number of assignments res[k] = ...
      ghost snap(k)  the mapping handed to apply for k        ghost kws(k)   the default keywords handed to apply for k
      Cal(k)  := k in kwargs and callable(kwargs[k])          dep(k, d) := d in getargs(kwargs[k])        R := keys of `callables`

    While#0 invariant (pointwise at arbitrary keys K0, D0; the skolem witnesses of the cardinality tests are instantiated too):
      R(k) => Cal(k) and callables[k] is kwargs[k];   Cal(k) and not R(k) => 0 <= rnd(k) < t, cnt(k) = 1;   R(k) => cnt(k) = 0;
      Cal(k), not R(k), dep(k, d), Cal(d), d != k  =>  not R(d), rnd(d) < rnd(k), snap(k)[d] is res[d]          (dependency order)
      res[k] = apply(kwargs[k], snap(k), key = k) for evaluated k; keys(res) = keys(d) + evaluated / plain keywords.
    variant: len(callables) (a witness independent key leaves the mapping).  The two `for` loops (independent keys of a round,
    the last remaining callable) carry the same facts relative to the state at their entry, over the processed prefix of the keys.
    Taken by contract: res.apply(f, **{key: k}) (= kwargs_support(f)(**{**defaults, **res}); kwargs_support.wrapped is C18's subject),
    getargs (uninterpreted), _postprocess is Dict's own (identity; a subclass overriding it is outside this contract)."""
    mD = M['mD']
    fdef = mD.func('Dict.__call__')
    whiles = find_all(fdef, lambda n: isinstance(n, ast.While))
    fors = find_all(fdef, lambda n: isinstance(n, ast.For))
    if len(whiles) != 1 or len(fors) != 2:
        raise SelectorError('Dict.__call__: expected one while and two for loops')
    while0, for_in, for_last = whiles[0], fors[0], fors[1]
    if for_in not in find_all(while0, lambda n: isinstance(n, ast.For)) or for_last in find_all(while0, lambda n: isinstance(n, ast.For)):
        raise SelectorError('Dict.__call__: loop nesting changed')
    comps = find_all(while0, lambda n: isinstance(n, ast.Assign) and isinstance(n.value, ast.DictComp))
    if len(comps) != 2:
        raise SelectorError('Dict.__call__: expected two dict comprehensions in the while body')
    ind_assign, re_assign = comps
    stores = find_all(fdef, lambda n: isinstance(n, ast.Assign) and isinstance(n.targets[0], ast.Subscript))
    if len(stores) != 2:
        raise SelectorError('Dict.__call__: expected two stores res[key] = ...')
    ind_name = ind_assign.targets[0].id
    cal_name = re_assign.targets[0].id
    res_name = stores[0].targets[0].value.id

    th = Maps(M['classes'])
    CLS = Const('type_self', Cls)
    K0, D0 = Consts('K0 D0', Val)
    E = [K0, D0]
    NAMED = (('K0', K0), ('D0', D0))
    self_ = th.sym_dict('d', cls='Dict', tag=CLS, kty='str')
    kw = th.sym_dict('kw', cls='dict', kty='str', own=True)
    Dd, KWD = self_.pd, kw.pd
    KEYSTR = th.strv('key')
    th.elems.append(KEYSTR)
    items_keys = {}

    def Cal(x):
        return And(KWD.dom(x), CALLABLE(KWD.get(x)))

    def dep(x, y):
        return MEM(ARGS(KWD.get(x)), y)

    def getargs_contract(ex, st, args, kwargs, star=None, dstar=None):
        ex.use('uninterpreted:getargs(f) is an uninterpreted list of parameter names (dep(k, d) := d in getargs(v_k))')
        return th.mk_list(th.base_list(ARGS(th.to_val(ex, args[0]))))
    th.contracts['getargs'] = getargs_contract

    def bound_star(ex, st, fn, args, kwargs, star, dstar):
        if fn.mname != 'apply' or fn.recv.kind != 'pdict' or dstar is None or len(args) != 1:
            return NotImplemented
        ex.use('callee contract:Dict.apply(f, **defaults) is a function of f, the mapping at that moment and the defaults '
               '(= kwargs_support(f)(**{**defaults, **self}): body verified in Dict.apply.*; kwargs_support.wrapped is under contract in C18)')
        Sn = th.reify_dict(fn.recv.pd, 'snap')
        Kw = th.reify_dict(dstar.pd, 'defaults')
        st.ghost['last_apply'] = (Sn.t, Kw.t)
        return V(APPLY(th.to_val(ex, args[0]), Sn.t, Kw.t))
    th.bound_star = bound_star

    orig_iterate = th.iterate

    def iterate(ex_, st, it):
        r = orig_iterate(ex_, st, it)
        if it.kind == 'items':
            items_keys[id(it.of.pd)] = it.f['keys']
        return r
    th.iterate = iterate

    def facts(ex, J=()):
        for f in th.inst(E, J):
            ex.fact(f)

    # ---- ghost updates, addressed structurally
    def after_store(ex, st, s):
        k = th.to_val(ex, ex.eval(st, s.targets[0].slice))
        sn, kws_ = st.ghost['last_apply']
        t = st.ghost['t']
        rnd0, cnt0, snap0, kws0 = st.ghost['rnd'], st.ghost['cnt'], st.ghost['snap'], st.ghost['kws']
        st.ghost['rnd'] = lambda x: If(x == k, t, rnd0(x))
        st.ghost['cnt'] = lambda x: If(x == k, cnt0(x) + 1, cnt0(x))
        st.ghost['snap'] = lambda x: If(x == k, sn, snap0(x))
        st.ghost['kws'] = lambda x: If(x == k, kws_, kws0(x))

    def after_round(ex, st, s):
        st.ghost['t'] = st.ghost['t'] + 1

    def after_independent(ex, st, s):
        facts(ex)
        ind = st.env[ind_name].pd
        for (nx, x), (ny, y) in ((NAMED[0], NAMED[1]), (NAMED[1], NAMED[0])):
            ex.oblige(st, 'lemma.independent_keys_of_one_round_do_not_depend_on_each_other.%s_%s' % (nx, ny),
                      Implies(And(ind.dom(x), ind.dom(y), x != y), Not(MEM(ARGS(ind.get(x)), y))), kind='lemma')
    hooks = [(lambda s: s in stores, after_store), (lambda s: s is re_assign, after_round), (lambda s: s is ind_assign, after_independent)]

    def havoc_all(ex, st):
        st.ghost['t'] = fresh_int('t')
        havoc_maps(ex, st)

    def havoc_maps(ex, st):
        rnd, cnt = Function(fresh_name('rnd'), Val, IntSort()), Function(fresh_name('cnt'), Val, IntSort())
        snap, kws_ = Function(fresh_name('snap'), Val, Dct), Function(fresh_name('kws'), Val, Dct)
        st.ghost['rnd'], st.ghost['cnt'] = (lambda x: rnd(x)), (lambda x: cnt(x))
        st.ghost['snap'], st.ghost['kws'] = (lambda x: snap(x)), (lambda x: kws_(x))

    def shape_ok(st):
        C, R = st.env.get(cal_name), st.env.get(res_name)
        return C is not None and R is not None and C.kind == 'pdict' and R.kind == 'pdict'

    def evaluated_facts(C, R, g, x, strict_t=True):
        """what holds of an evaluated callable key x in state (callables C, res R, ghosts g)"""
        t = g['t']
        return And(0 <= g['rnd'](x), (g['rnd'](x) < t) if strict_t else (g['rnd'](x) <= t), g['cnt'](x) == 1,
                   R.get(x) == APPLY(KWD.get(x), g['snap'](x), g['kws'](x)), DOM(g['kws'](x), KEYSTR), GET(g['kws'](x), KEYSTR) == x)

    def dependency_facts(C, R, g, x, y):
        return And(Not(C.dom(y)), g['rnd'](y) < g['rnd'](x), DOM(g['snap'](x), y), GET(g['snap'](x), y) == R.get(y))

    def outer_inv(st, entry):
        facts(box['ex'])
        if not shape_ok(st):
            return [('callables_and_res_are_mappings', BoolVal(False))]
        Cs, Rs = st.env[cal_name], st.env[res_name]
        C, R, g = Cs.pd, Rs.pd, st.ghost
        cl = [('round_counter_nonnegative', g['t'] >= 0),
              ('res_is_a_copy_of_type_self', And(BoolVal(Rs.cls == 'Dict' and bool(Rs.f.get('own'))), Rs.tag == CLS))]
        for nm, x in NAMED:
            cl.append(('remaining_are_callable_keywords.' + nm, Implies(C.dom(x), And(Cal(x), C.get(x) == KWD.get(x)))))
            cl.append(('remaining_not_yet_assigned.' + nm, Implies(C.dom(x), g['cnt'](x) == 0)))
            cl.append(('evaluated_once_in_an_earlier_round.' + nm, Implies(And(Cal(x), Not(C.dom(x))), evaluated_facts(C, R, g, x))))
            cl.append(('keys_of_res.' + nm, R.dom(x) == Or(Dd.dom(x), And(KWD.dom(x), Not(C.dom(x))))))
            cl.append(('plain_values.' + nm, And(Implies(And(KWD.dom(x), Not(CALLABLE(KWD.get(x)))), R.get(x) == KWD.get(x)),
                                                 Implies(And(Not(KWD.dom(x)), Dd.dom(x)), R.get(x) == Dd.get(x)))))
        for (nx, x), (ny, y) in ((NAMED[0], NAMED[1]), (NAMED[1], NAMED[0])):
            cl.append(('dependencies_evaluated_strictly_earlier.%s_%s' % (nx, ny),
                       Implies(And(Cal(x), Not(C.dom(x)), dep(x, y), Cal(y), y != x), dependency_facts(C, R, g, x, y))))
        return cl

    def for_inv(loopname, over):
        """invariant of `for key, value in <over>.items(): res[key] = ...` relative to the state at loop entry"""
        def inv(st, entry):
            ex = box['ex']
            j = st.ghost[loopname + '.k']
            kl = items_keys.get(id(entry.env[over].pd))
            if kl is None or not shape_ok(st):
                return [('iterates_the_items_of_%s' % over, BoolVal(False))]
            facts(ex, [j])
            P = lambda x: kl.memp(j, x)
            R0, Rj, g0, g = entry.env[res_name].pd, st.env[res_name].pd, entry.ghost, st.ghost
            Rs = st.env[res_name]
            C = entry.env[cal_name].pd
            cl = [('res_is_a_copy_of_type_self', And(BoolVal(Rs.cls == 'Dict' and bool(Rs.f.get('own'))), Rs.tag == CLS)),
                  ('round_counter_unchanged', g['t'] == g0['t'])]
            for nm, x in NAMED:
                cl.append(('keys_of_res.' + nm, Rj.dom(x) == Or(R0.dom(x), P(x))))
                cl.append(('unprocessed_keys_untouched.' + nm, Implies(Not(P(x)), And(Rj.get(x) == R0.get(x), g['rnd'](x) == g0['rnd'](x), g['cnt'](x) == g0['cnt'](x),
                                                                                   g['snap'](x) == g0['snap'](x), g['kws'](x) == g0['kws'](x)))))
                cl.append(('processed_keys_assigned_once_in_this_round.' + nm,
                           Implies(P(x), And(g['rnd'](x) == g['t'], g['cnt'](x) == g0['cnt'](x) + 1, Rj.get(x) == APPLY(KWD.get(x), g['snap'](x), g['kws'](x)),
                                             DOM(g['kws'](x), KEYSTR), GET(g['kws'](x), KEYSTR) == x))))
            for (nx, x), (ny, y) in ((NAMED[0], NAMED[1]), (NAMED[1], NAMED[0])):
                cl.append(('snapshot_holds_the_value_of_each_evaluated_dependency.%s_%s' % (nx, ny),
                           Implies(And(P(x), dep(x, y), Cal(y), y != x, Not(C.dom(y))), And(DOM(g['snap'](x), y), GET(g['snap'](x), y) == Rj.get(y)))))
            return cl
        return inv

    box = {}
    loops = {id(while0): LoopSpec('call.While0', outer_inv, variant=lambda st: st.env[cal_name].pd.card, ghost_havoc=havoc_all),
             id(for_in): LoopSpec('call.For0', for_inv('call.For0', ind_name), ghost_havoc=havoc_maps),
             id(for_last): LoopSpec('call.For1', for_inv('call.For1', cal_name), ghost_havoc=havoc_maps)}
    ex = Exec(mD, [th], inline=M['inline'], loops=loops, hooks=hooks, name='Dict.__call__')
    box['ex'] = ex
    st = State()
    zero = lambda x: IntVal(0)
    snap_i, kws_i = Function('snap_init', Val, Dct), Function('kws_init', Val, Dct)
    st.ghost.update(t=IntVal(0), rnd=zero, cnt=zero, snap=(lambda x: snap_i(x)), kws=(lambda x: kws_i(x)))
    outs = ex.run_function(st, 'Dict.__call__', [self_], {'**': kw})
    inst = finish(ctx, ex, th, E)
    ctx.record_function(mD, 'Dict.__call__', fdef, ex.stmts_executed)
    wit = dict(K0=K0, D0=D0, K0_callable=Cal(K0), D0_callable=Cal(D0), K0_needs_D0=dep(K0, D0), D0_needs_K0=dep(D0, K0), K0_in_kw=KWD.dom(K0), D0_in_kw=KWD.dom(D0))
    kwp = dict(witness=wit, replay=rp('call'))
    pre = 'Dict.__call__.'
    nret = nraise = 0
    p, q, z = Consts('p q z', Val)
    for out in outs:
        hy = ex.facts + out.st.pc + inst
        if out.kind == 'raise':
            nraise += 1
            C = out.st.env[cal_name].pd if out.st.env.get(cal_name) is not None and out.st.env[cal_name].kind == 'pdict' else None
            if C is None:
                ctx.post(pre + 'raises_only_inside_the_loop', hy, BoolVal(False), kind='safety', **kwp)
                continue
            independent = lambda x: And(C.dom(x), ForAll([z], Implies(MEM(ARGS(C.get(x)), z), Not(C.dom(z)))))
            ctx.post(pre + 'raises_only_ValueError', hy, BoolVal(out.val == 'ValueError'), kind='safety', **kwp)
            ctx.post(pre + 'raises_only_if_two_callables_remain', hy, Exists([p, q], And(C.dom(p), C.dom(q), p != q)), kind='safety', **kwp)
            ctx.post(pre + 'raises_only_if_no_remaining_callable_is_independent', hy, Not(independent(K0)), kind='safety', **kwp)
            ctx.cover(pre + 'circular_definitions_reach_the_raise', out.st.pc + [C.dom(K0), C.dom(D0), K0 != D0, dep(K0, D0), dep(D0, K0)] + th.inst(E))
            continue
        nret += 1
        r = out.val
        if r.kind != 'pdict' or not shape_ok(out.st):
            raise OutOfSubset('Dict.__call__ returns %s' % r.kind)
        R, g, C = r.pd, out.st.ghost, out.st.env[cal_name].pd
        ctx.post(pre + 'result_is_type_self', hy, And(BoolVal(r.cls == 'Dict' and bool(r.f.get('own'))), r.tag == CLS), **kwp)
        ctx.post(pre + 'exact_keys', hy, R.dom(K0) == Or(Dd.dom(K0), KWD.dom(K0)), **kwp)
        ctx.post(pre + 'plain_keywords_and_old_items_untouched', hy, And(Implies(And(KWD.dom(K0), Not(CALLABLE(KWD.get(K0)))), R.get(K0) == KWD.get(K0)),
                                                                         Implies(And(Not(KWD.dom(K0)), Dd.dom(K0)), R.get(K0) == Dd.get(K0))), **kwp)
        ctx.post(pre + 'every_callable_is_evaluated_exactly_once', hy + [Cal(K0)], And(g['cnt'](K0) == 1, 0 <= g['rnd'](K0), g['rnd'](K0) <= g['t']), **kwp)
        ctx.post(pre + 'value_is_apply_with_key_as_default', hy + [Cal(K0)], And(R.get(K0) == APPLY(KWD.get(K0), g['snap'](K0), g['kws'](K0)),
                                                                                  DOM(g['kws'](K0), KEYSTR), GET(g['kws'](K0), KEYSTR) == K0), **kwp)
        ctx.post(pre + 'dependencies_are_evaluated_strictly_earlier', hy + [Cal(K0), Cal(D0), dep(K0, D0), D0 != K0], g['rnd'](D0) < g['rnd'](K0), **kwp)
        ctx.post(pre + 'each_function_saw_the_final_value_of_its_dependencies', hy + [Cal(K0), Cal(D0), dep(K0, D0), D0 != K0],
                 And(DOM(g['snap'](K0), D0), GET(g['snap'](K0), D0) == R.get(D0)), **kwp)
        cur = out.st.env.get('self')
        ctx.post(pre + 'receiver_unchanged', hy, BoolVal(cur is not None and cur.kind == 'pdict' and cur.pd is Dd), kind='frame', **kwp)
    if not nret or not nraise:
        raise OutOfSubset('Dict.__call__: %d returning and %d raising paths' % (nret, nraise))
    ctx.cover(pre + 'precondition.chain', [Cal(K0), Cal(D0), K0 != D0, dep(K0, D0), Not(dep(D0, K0)), Not(dep(K0, K0)), Not(dep(D0, D0))] + th.inst(E))
    ctx.trust('Dict.__call__: "the result does not depend on keyword order" follows from the proved loop contract by the unique-fixpoint argument '
              'in the docstring of contracts/C16.py; it is not a solver step')


# =============================================================================================== relabel(keys, *args, **relabels): the renaming map
CALL1 = Function('call_with_one_argument', Val, Val, Val)      # f(k) for a callable value f handed to relabel (uninterpreted, total)
RELABEL_VARIANTS = ('none', 'suffix', 'prefix', 'other_string', 'callable', 'dict', 'names')


def relabel_setup(th, variant):
    """the positional arguments of one call shape of relabel(keys, *args, **relabels): (args, path precondition, description of the base map).
    `base` describes the mapping built from *args before the explicit relabels are laid over it: (dom, get, rk, nxt) closures over the key list KS"""
    from pyvc.th_maps import STARTSWITH, ENDSWITH, CONCAT
    p, f, n0, n1 = Const('p', Val), Const('f', Val), Const('n0', Val), Const('n1', Val)
    us = th.strv('_')
    empty = dict(dom=lambda KS, k: BoolVal(False), get=None, rk=lambda KS, k: IntVal(0), nxt=lambda KS: IntVal(0))
    keyed = lambda get: dict(dom=lambda KS, k: KS.mem(k), get=get, rk=lambda KS, k: KS.fst(k), nxt=lambda KS: KS.len)
    if variant == 'none':
        return [], [], empty, {}
    if variant == 'suffix':
        return [V(p, 'str')], [STARTSWITH(p, us)], keyed(lambda KS, k: CONCAT(k, p)), dict(p=p)
    if variant == 'prefix':
        return [V(p, 'str')], [Not(STARTSWITH(p, us)), ENDSWITH(p, us)], keyed(lambda KS, k: CONCAT(p, k)), dict(p=p)
    if variant == 'other_string':
        return [V(p, 'str')], [Not(STARTSWITH(p, us)), Not(ENDSWITH(p, us))], empty, dict(p=p)
    if variant == 'callable':
        return [V(f, 'callable')], [], keyed(lambda KS, k: CALL1(f, k)), dict(f=f)
    if variant == 'dict':
        a = th.sym_dict('amap', cls='dict', kty='str')
        A = a.pd
        return [a], [], dict(dom=lambda KS, k: A.dom(k), get=lambda KS, k: A.get(k), rk=lambda KS, k: A.rk(k), nxt=lambda KS: A.nxt), dict(amap=A)
    if variant == 'names':
        names = PList.literal([n0, n1])
        return [V(n0, 'str'), V(n1, 'str')], [], dict(dom=lambda KS, k: And(KS.len == 2, KS.mem(k)), get=lambda KS, k: names.at(KS.fst(k)),
                                                      rk=lambda KS, k: KS.fst(k), nxt=lambda KS: If(KS.len == 2, IntVal(2), IntVal(0))), dict(n0=n0, n1=n1)
    raise OutOfSubset('relabel variant %s' % variant)


def call1_contract(th):
    def h(ex, st, fn, args, kwargs, star, dstar):
        if fn.kind != 'val' or fn.f.get('ty') != 'callable' or len(args) != 1 or kwargs or star is not None or dstar is not None:
            return NotImplemented
        ex.use('uninterpreted:f(key) for the callable handed to relabel is an uninterpreted total function of (f, key); precondition: it returns a string '
               '(new labels become keyword names of the constructor call) and does not raise')
        return V(CALL1(fn.t, th.to_val(ex, args[0])), 'str')
    return h


def relabel_helper_section(ctx, M):
    """the module-level relabel(keys, *args, **relabels) executed from the real AST (as_list inlined) for each shape of *args: no argument, a suffix
    string '_x', a prefix string 'x_', any other string, a callable, a dict, two names for two keys.  Proved from the body: the result is a new plain
    dict; an explicit relabel always wins; the other entries are exactly the keys of the list under (key + suffix | prefix + key | f(key) | the
    positional name) - string concatenation and f stay uninterpreted -; a dict argument is laid under the explicit relabels; key order; the key list,
    the dict argument and the keyword mapping are not modified."""
    md = M['md']
    fdef = M['inline'][RELABEL_FN][1]
    ks = Const('ks', Lst)
    K0, K1 = Consts('K0 K1', Val)
    for variant in RELABEL_VARIANTS:
        th = Maps(M['classes'])
        th.contracts['__call__'] = call1_contract(th)
        ex = Exec(md, [th], inline=M['inline'], name='relabel.' + variant)
        keys = th.sym_list('ks', cls='list', elty='str')
        KS = keys.pl
        rel = th.sym_dict('relabels', cls='dict', kty='str', own=True)       # the ** mapping is built for the call
        RL = rel.pd
        args, pre_, base, extra = relabel_setup(th, variant)
        st = State(); st.pc += list(pre_) + [NODUP(ks)]
        outs = ex.run_function(st, RELABEL_FN, [keys] + args, {'**': rel})
        E = [K0, K1] + [v for v in extra.values() if z3.is_expr(v)]
        inst = finish(ctx, ex, th, E, [0, 1])
        ctx.record_function(md, 'relabel', fdef, ex.stmts_executed)
        wit = dict(K0=K0, K1=K1, K0_in_keys=KS.mem(K0), K1_in_keys=KS.mem(K1), K0_relabelled=RL.dom(K0), K1_relabelled=RL.dom(K1), len_keys=LEN(ks),
                   K0_before_K1_in_keys=KS.fst(K0) < KS.fst(K1))
        if 'amap' in extra:
            wit.update(K0_in_arg=extra['amap'].dom(K0), K1_in_arg=extra['amap'].dom(K1))
        kw = dict(witness=wit, replay=rp('relabel', variant))
        pre = 'relabel.%s.' % variant
        bdom = lambda k: base['dom'](KS, k)
        order = lambda k: If(bdom(k), base['rk'](KS, k), base['nxt'](KS) + RL.rk(k))
        nret = 0
        for out in outs:
            hy = ex.facts + out.st.pc + inst
            if out.kind != 'return':
                ctx.post(pre + 'never_raises.%s' % out.val, hy, BoolVal(False), kind='safety', **kw)
                continue
            nret += 1
            r = out.val
            if r.kind != 'pdict':
                raise OutOfSubset('relabel returns %s' % r.kind)
            R = r.pd
            ctx.post(pre + 'returns_a_new_plain_dict', hy, BoolVal(r.cls == 'dict' and bool(r.f.get('own'))), **kw)
            ctx.post(pre + 'exact_keys', hy, R.dom(K0) == Or(RL.dom(K0), bdom(K0)), **kw)
            ctx.post(pre + 'an_explicit_relabel_wins', hy + [RL.dom(K0)], R.get(K0) == RL.get(K0), **kw)
            if base['get'] is not None:
                ctx.post(pre + 'other_keys_get_the_built_label', hy + [Not(RL.dom(K0)), bdom(K0)], R.get(K0) == base['get'](KS, K0), **kw)
            ctx.post(pre + 'key_order', hy + [R.dom(K0), R.dom(K1)], (R.rk(K0) < R.rk(K1)) == (order(K0) < order(K1)), **kw)
            env = out.st.env
            same = (env.get('relabels') is not None and env['relabels'].kind == 'pdict' and env['relabels'].pd is RL)
            if variant == 'dict':
                same = same and args[0].pd is extra['amap']
            ctx.post(pre + 'arguments_unchanged', hy, BoolVal(bool(same)), kind='frame', **kw)
        if not nret:
            raise OutOfSubset('relabel(%s) has no returning path' % variant)
        ctx.post(pre + 'frame.every_mutation_targets_the_new_dict', [], BoolVal(all(own for _, own in th.mutations)), kind='frame')
        ctx.cover(pre + 'precondition', list(pre_) + [NODUP(ks), LEN(ks) == 2, KS.mem(K0), KS.mem(K1), K0 != K1, RL.dom(K0), Not(RL.dom(K1))] + th.inst(E, [0, 1]))
    ctx.trust('relabel(): keys are strings and the key list has no duplicates (it is list(d.keys()) at its call site); *args shapes covered: none, one '
              'string, one callable, one dict, two names; a single list of names (unwrapped by as_list) and three or more names are bounded-checked only')


def relabel_contract(th):
    """call site `relabel(list(self.keys()), *args, **relabels)`: the real body of the module-level helper is executed there (no contract is assumed);
    the mapping it returns and the key list it was given are remembered for the postconditions"""
    def h(ex, st, args, kwargs, star=None, dstar=None):
        ex.use('callee contract:the module-level relabel(keys, *args, **relabels) is executed from its real AST at the call site in dictattr.relabel '
               '(body verified in relabel.* on its own; string concatenation and the callable stay uninterpreted)')
        if RELABEL_FN not in ex.inline:
            raise SelectorError('relabel() not found')
        kw = dict(kwargs)
        if star is not None:
            kw['*'] = star
        if dstar is not None:
            kw['**'] = dstar
        if not args or args[0].kind != 'plist':
            raise OutOfSubset('relabel() called without a key list')
        r = ex.call_inline_expr(st, RELABEL_FN, list(args), kw)
        if r.kind != 'pdict':
            raise OutOfSubset('relabel() returns %s' % r.kind)
        th.relabel_map, th.relabel_keys = r.pd, args[0].pl
        return r
    return h


def inherit_replay(ctx, depth=4):
    """obligations raised inside the executor (frame, call-site preconditions, loop invariants) take the witness terms and the
    replay recipe of the section they belong to (same leading name components)"""
    by_prefix = {}
    for ob in ctx.obligations:
        if ob.witness and ob.meta.get('replay') is not None:
            for d in (depth, depth - 1):
                by_prefix.setdefault('.'.join(ob.name.split('.')[:d]), ob)
    for ob in ctx.obligations:
        if ob.meta.get('replay') is None:
            for d in (depth, depth - 1):
                src = by_prefix.get('.'.join(ob.name.split('.')[:d]))
                if src is not None:
                    ob.witness = dict(src.witness)
                    ob.meta['replay'] = src.meta['replay']
                    if src.meta.get('search_hints') is not None:
                        ob.meta['search_hints'] = src.meta['search_hints']
                    break


def rp(kind, *extra):
    def mk(model):
        d = dict(kind=kind, extra=list(extra))
        d.update(model)
        return d
    return mk


def build(ctx):
    bad = validate_axioms()
    ctx.post('axioms.list_and_dict_element_view_agree_with_cpython', [], BoolVal(not bad), kind='axiom-validation')
    M = machinery(ctx)
    ctx.guarded('ulist', lambda: ulist_section(ctx, M))
    ctx.guarded('ulist.__init__', lambda: init_section(ctx, M))
    for cls in ('dictattr', 'Dict'):
        dictattr_section(ctx, M, cls)
    ctx.guarded('Dict.__call__', lambda: call_section(ctx, M))
    ctx.guarded('Dict.apply', lambda: apply_section(ctx, M))
    ctx.guarded('relabel', lambda: relabel_helper_section(ctx, M))
    inherit_replay(ctx)

    # ------------------------------------------------------------------ frame: operations that return a new object never alter their operands
    def frame_section():
        from pyvc import own
        own.post_all(ctx, own.table_report(PROP), replay=frame_replay)
    ctx.guarded('frame', frame_section)


def apply_section(ctx, M):
    """Dict.apply(self, function, **default_params) for a callable `function`, executed from the real AST: the keywords handed to
    kwargs_support(function) are {**default_params, **self} - every item of the mapping under its own name, the mapping winning over a
    default of the same name - and the result is what that call returns.  This is the contract Dict.__call__ uses for res.apply(f, key = k)."""
    mD = M['mD']
    key = 'Dict.apply'
    if key not in M['inline']:
        raise SelectorError('Dict.apply not found')
    th = Maps(M['classes'])
    CLS = Const('type_self', Cls)
    K0 = Const('K0', Val)
    self_ = th.sym_dict('d', cls='Dict', tag=CLS, kty='str')
    kw = th.sym_dict('defaults', cls='dict', kty='str', own=True)
    Dd, KW = self_.pd, kw.pd
    F = Const('f', Val)
    KS = Function('kwargs_support_of', Val, Val)
    RES = Function('call_result', Val, Dct, Val)
    seen = {}

    def ks_contract(ex, st, args, kwargs, star=None, dstar=None):
        if len(args) != 1 or kwargs or star is not None or dstar is not None:
            raise OutOfSubset('kwargs_support called with more than the function')
        ex.use('callee contract:kwargs_support(f) is a callable that passes f the keywords f declares (C18 kwargs_support.*)')
        seen['wrapped_arg'] = th.to_val(ex, args[0])
        return V(KS(th.to_val(ex, args[0])), 'callable')
    th.contracts['kwargs_support'] = ks_contract

    def call_contract(ex, st, fn, args, kwargs, star, dstar):
        if fn.kind != 'val' or args or kwargs or star is not None or dstar is None or dstar.kind != 'pdict':
            return NotImplemented
        P = th.reify_dict(dstar.pd, 'passed')
        seen.setdefault('calls', []).append((fn.t, dstar.pd, P.t))
        return V(RES(fn.t, P.t))
    th.contracts['__call__'] = call_contract
    ex = Exec(mD, [th], inline=M['inline'], name='Dict.apply')
    st = State()
    outs = ex.run_function(st, key, [self_, V(F, 'callable')], {'**': kw})
    inst = finish(ctx, ex, th, [K0])
    ctx.record_function(mD, key, M['inline'][key][1], ex.stmts_executed, excluded=['function not callable: returns self[function] (item access, dictattr.getitem.* obligations)'])
    kwp = dict(witness=dict(K0=K0, K0_in_d=Dd.dom(K0), K0_in_defaults=KW.dom(K0)), replay=rp('apply', 'Dict', 'apply'))
    pre = 'Dict.apply.'
    nret = 0
    for out in outs:
        hy = ex.facts + out.st.pc + inst
        if out.kind != 'return':
            ctx.post(pre + 'never_raises.%s' % out.val, hy, BoolVal(False), kind='safety', **kwp)
            continue
        nret += 1
        calls = seen.get('calls', [])
        ctx.post(pre + 'the_function_is_called_once_through_kwargs_support', hy, BoolVal(len(calls) == 1 and seen.get('wrapped_arg') is not None), **kwp)
        if len(calls) != 1:
            continue
        fn_t, P, Pt = calls[0]
        ctx.post(pre + 'wraps_the_given_function', hy, And(fn_t == KS(F), seen['wrapped_arg'] == F), **kwp)
        ctx.post(pre + 'passes_exactly_the_items_and_the_defaults', hy, P.dom(K0) == Or(Dd.dom(K0), KW.dom(K0)), **kwp)
        ctx.post(pre + 'an_item_of_the_mapping_wins_over_a_default_of_the_same_name', hy + [Dd.dom(K0)], P.get(K0) == Dd.get(K0), **kwp)
        ctx.post(pre + 'a_default_is_passed_where_the_mapping_has_no_such_item', hy + [Not(Dd.dom(K0)), KW.dom(K0)], P.get(K0) == KW.get(K0), **kwp)
        ctx.post(pre + 'returns_what_the_call_returns', hy, BoolVal(out.val.kind == 'val') if out.val.kind != 'val' else out.val.t == RES(fn_t, Pt), **kwp)
        cur = out.st.env.get('self')
        ctx.post(pre + 'receiver_unchanged', hy, BoolVal(cur is not None and cur.kind == 'pdict' and cur.pd is Dd), kind='frame', **kwp)
    if not nret:
        raise OutOfSubset('Dict.apply has no returning path')
    ctx.cover(pre + 'precondition', [Dd.dom(K0), KW.dom(K0), Dd.get(K0) != KW.get(K0)] + th.inst([K0]))


def frame_replay(d):
    """replay description of a failed frame obligation: the native re-check looks at the receiver / operands before and after the call"""
    return dict(kind='frame', name=d['name'], where=d['where'], detail=d['detail'][:300])
