"""C16 - ulist, dictattr and Dict implement ordered set / key algebra without side effects.

Vocabulary (pyvc/th_maps.py): python values modulo == are an uninterpreted sort; a list is seen through its element view
(mem = `x in l`, fst = `l.index(x)`) and its index view (len, at); a dict through dom / get and an insertion time stamp rk
(only the relative order of two keys is used).  A duplicate-free list is *determined* by its member set and the relative order of
its members (two duplicate-free lists with the same members in the same relative order are equal - induction on the length,
not a solver step), so "u + x equals the ordered union" is stated as

    nodup(r),   x in r <=> x in u or x in xs,   for a, b in r:  r.index(a) < r.index(b) <=> ordU(a) < ordU(b)
    ordU(e) = u.index(e) if e in u else len(u) + xs.index(e)                 (xs = [x] for a single element)

and likewise for difference / intersection (members filtered, order of u).  The same form is used for key order of mappings:
(d - k).keys() == d.keys() - k  <=>  same member keys, same relative order.

ulist (`_ulist.py`)      __add__, __or__ (checked to be the same function object in the class body), __sub__, __and__, copy are
                         executed from the real AST for a list argument and for a single non-list element; the result class is the
                         symbolic class tag type(self) (every subclass at once).
                         ASSUMED (bounded stand-in only): the constructor contract - ulist(xs) = DEDUP(xs) (no duplicates, same element
                         set, first-occurrence order; the set / index / sorted pipeline of ulist.__init__), ulist(xs, unique = True)
                         holds the items of xs.  The precondition of the trusted fast path (xs duplicate free) is an obligation at
                         every call site that uses it (copy, `&` with one element, dictattr.keys).
dictattr (`_dictattr.py`) __sub__ (single key, list of keys: the `for` loop with a pointwise invariant, the recursive call with
                         copy = False inlined), __delitem__ (through `del res[key]`), __and__ (with the real as_list / keys),
                         __add__, __getitem__ (key, tuple of keys, list of keys), __getattr__, keys, copy, relabel (method body; the
                         module-level helper relabel() that builds the renaming dict is taken as an arbitrary mapping M - its string
                         building stays bounded).  Frame: every mutation site executed (del, update, store) produces an obligation
                         "the target was created in this activation (copy / constructor)" - the ownership flag travels with the
                         symbolic object through the inlined calls.
                         Excluded by path precondition: tuple paths (`d - ('a','b')`, known to delete inside a shared child - noted
                         in DESIGN section 7, outside the key universe), dotted string keys (nested access).
Dict (`_dict.py`)        __call__: see the section comment below.

"Dict.__call__'s result does not depend on keyword order" is NOT a solver step: the proved loop contract says every callable key is
assigned exactly once, in a round strictly after the rounds of all its callable dependencies, from the mapping as of that moment.
On an acyclic dependency graph the equations  res[k] = f_k(res[args of k])  then have a unique solution (induction along the
rounds), whatever order the keywords were given in; the rounds themselves may differ with the order, the fixpoint does not.
"""
import ast
import z3
from z3 import And, Or, Not, If, Implies, Int, Ints, IntVal, BoolVal, Const, Consts, Function, IntSort, BoolSort, ForAll, Exists

from pyvc.front import select, SelectorError, OutOfSubset, find_all, find
from pyvc.symex import Exec, State, LoopSpec
from pyvc.th_maps import (Maps, Val, Lst, Dct, Cls, LEN, AT, MEM, FST, MEMP, NODUP, DOM, GET, RK, NXT, CARD, V, PList, PDict, fresh_val,
                          validate_axioms, pairs, CALLABLE, IS_STR)
from pyvc.sv import SV, I, B, S, T, NONE, fresh_int, fresh_name

PROP = 'C16'
REPLAY_MODULE = 'rac.C16_ded'


def class_methods(mod, cname):
    cdef = mod.func(cname)
    return {'%s.%s' % (cname, n.name): (mod, n) for n in cdef.body if isinstance(n, ast.FunctionDef)}


def machinery(ctx):
    mu, mt, ml, md, mD = ctx.mod('_ulist'), ctx.mod('_types'), ctx.mod('_as_list'), ctx.mod('_dictattr'), ctx.mod('_dict')
    classes = {'ulist': (mu, mu.func('ulist'), 'list'), 'dictattr': (md, md.func('dictattr'), 'dict'), 'Dict': (mD, mD.func('Dict'), 'dictattr')}
    inline = {}
    for mod, c in ((mu, 'ulist'), (md, 'dictattr'), (mD, 'Dict')):
        inline.update(class_methods(mod, c))
    for mod, f in ((mt, 'is_list'), (mt, 'is_str'), (ml, 'as_list'), (ml, 'is_rng')):
        inline[f] = (mod, mod.func(f))
    return dict(mu=mu, mt=mt, ml=ml, md=md, mD=mD, classes=classes, inline=inline)


def finish(ctx, ex, th, E, J=()):
    """obligations raised inside the executor (call-site preconditions, frame, safety) get the axiom instances too"""
    inst = th.inst(E, J)
    for ob in ex.obligations:
        ob.hyps = list(ob.hyps) + inst
    ctx.absorb(ex)
    return inst


# =============================================================================================== ulist
def ulist_section(ctx, M):
    mu = M['mu']
    cdef = mu.func('ulist')
    u = Const('u', Lst)
    xs = Const('xs', Lst)
    x = Const('x', Val)
    CLS = Const('type_self', Cls)
    a, b = Consts('a b', Val)

    for op in ('__add__', '__or__', '__sub__', '__and__'):
        for argkind in ('element', 'list'):
            th = Maps(M['classes'])
            key = th.resolve('ulist', op)
            if key is None or key not in M['inline']:
                raise SelectorError('ulist.%s not found' % op)
            fdef = M['inline'][key][1]
            ex = Exec(mu, [th], inline=M['inline'], name='ulist.%s.%s' % (op, argkind))
            self_ = th.sym_list('u', cls='ulist', tag=CLS)
            U = self_.pl
            st = State(); st.pc += [NODUP(u)]           # class invariant of ulist: established by every constructor path (contract)
            if argkind == 'element':
                other = V(x, 'elem')
                XS = PList.literal([x])
                E = [a, b, x]
            else:
                other = th.sym_list('xs', cls='list')
                XS = other.pl
                E = [a, b]
            outs = ex.run_function(st, key, [self_, other], {})
            inst = finish(ctx, ex, th, E)
            ctx.record_function(mu, key, fdef, ex.stmts_executed)
            # replayable models: lists of length <= 3, axioms instantiated at every position (hints are used for model extraction only)
            wit = dict(len_u=LEN(u), len_xs=XS.len, a=a, b=b)
            cells = []
            for i in range(3):
                wit['u%d' % i] = U.at(i); wit['xs%d' % i] = XS.at(i)
                cells += [U.at(i), XS.at(i)]
            ctx.default_meta = dict(search_hints=[LEN(u) <= 3, XS.len <= 3] + th.inst(E + cells, [0, 1, 2]))
            nret = 0
            name = op.strip('_')
            for out in outs:
                hy = ex.facts + out.st.pc + inst
                if out.kind != 'return':
                    ctx.post('ulist.%s.%s.never_raises.%s' % (name, argkind, out.val), hy, BoolVal(False), kind='safety', witness=wit, replay=rp('ulist', name, argkind))
                    continue
                nret += 1
                r = out.val
                if r.kind != 'plist':
                    raise OutOfSubset('ulist.%s returns %s' % (op, r.kind))
                R = r.pl
                if name in ('add', 'or'):
                    member = Or(U.mem(a), XS.mem(a))
                    order = lambda e: If(U.mem(e), U.fst(e), U.len + XS.fst(e))
                elif name == 'sub':
                    member = And(U.mem(a), Not(XS.mem(a)))
                    order = U.fst
                else:
                    member = And(U.mem(a), XS.mem(a))
                    order = U.fst
                pre = 'ulist.%s.%s.' % (name, argkind)
                kw = dict(witness=wit, replay=rp('ulist', name, argkind))
                ctx.post(pre + 'result_is_type_self', hy, And(BoolVal(r.cls == 'ulist'), r.tag == CLS), **kw)
                ctx.post(pre + 'no_duplicates', hy, R.nodup if R.nodup is not None else BoolVal(False), **kw)
                ctx.post(pre + 'exact_membership', hy, R.mem(a) == member, **kw)
                ctx.post(pre + 'order_of_first_occurrence', hy + [R.mem(a), R.mem(b)], (R.fst(a) < R.fst(b)) == (order(a) < order(b)), **kw)
            if nret == 0:
                raise OutOfSubset('ulist.%s(%s) has no returning path' % (op, argkind))
            muts = [m for m in th.mutations]
            ctx.post('ulist.%s.%s.frame.no_mutation_site_executed' % (name, argkind), [], BoolVal(len(muts) == 0), kind='frame')
            ctx.cover('ulist.%s.%s.precondition' % (name, argkind), [NODUP(u), LEN(u) >= 2, U.mem(a), Not(U.mem(b)), XS.mem(b)] + th.inst(E))
    # __or__ is the very same function as __add__ (class-body alias), checked structurally
    alias = [n for n in cdef.body if isinstance(n, ast.Assign) and len(n.targets) == 1 and isinstance(n.targets[0], ast.Name) and n.targets[0].id == '__or__']
    ctx.post('ulist.or_is_add', [], BoolVal(bool(alias) and isinstance(alias[-1].value, ast.Name) and alias[-1].value.id == '__add__'), kind='post')
    ctx.trust('elements are compared with an == that is an equivalence consistent with hash (no NaN elements)')
    ctx.trust('a duplicate-free list is determined by its member set and the relative order of its members (induction, not a solver step)')


def rp(kind, *extra):
    def mk(model):
        d = dict(kind=kind, extra=list(extra))
        d.update(model)
        return d
    return mk


def build(ctx):
    bad = validate_axioms()
    ctx.post('axioms.list_and_dict_element_view_agree_with_cpython', [], BoolVal(not bad), kind='axiom-validation')
    M = machinery(ctx)
    ctx.guarded('ulist', lambda: ulist_section(ctx, M))
