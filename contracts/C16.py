"""C16 - ulist, dictattr and Dict implement ordered set / key algebra without side effects.

Vocabulary (pyvc/th_maps.py): python values modulo == are an uninterpreted sort; a list is seen through its element view
(mem = `x in l`, fst = `l.index(x)`) and its index view (len, at); a dict through dom / get and an insertion time stamp rk
(only the relative order of two keys is used).  A duplicate-free list is *determined* by its member set and the relative order of
its members (two duplicate-free lists with the same members in the same relative order are equal - induction on the length,
not a solver step), so "u + x equals the ordered union" is stated as

    nodup(r),   x in r <=> x in u or x in xs,   for a, b in r:  r.index(a) < r.index(b) <=> ordU(a) < ordU(b)
    ordU(e) = u.index(e) if e in u else len(u) + xs.index(e)                 (xs = [x] for a single element)

and likewise for difference / intersection (members filtered, order of u).  The same form is used for key order of mappings:
(d - k).keys() == d.keys() - k  <=>  same member keys, same relative order.

ulist (`_ulist.py`)      __add__, __or__ (checked to be the same function object in the class body), __sub__, __and__, copy are
                         executed from the real AST for a list argument and for a single non-list element; the result class is the
                         symbolic class tag type(self) (every subclass at once).
                         ASSUMED (bounded stand-in only): the constructor contract - ulist(xs) = DEDUP(xs) (no duplicates, same element
                         set, first-occurrence order; the set / index / sorted pipeline of ulist.__init__), ulist(xs, unique = True)
                         holds the items of xs.  The precondition of the trusted fast path (xs duplicate free) is an obligation at
                         every call site that uses it (copy, `&` with one element, dictattr.keys).
dictattr (`_dictattr.py`) __sub__ (single key, list of keys: the `for` loop with a pointwise invariant, the recursive call with
                         copy = False inlined), __delitem__ (through `del res[key]`), __and__ (with the real as_list / keys),
                         __add__, __getitem__ (key, tuple of keys, list of keys), __getattr__, keys, copy, relabel (method body; the
                         module-level helper relabel() that builds the renaming dict is taken as an arbitrary mapping M - its string
                         building stays bounded).  Frame: every mutation site executed (del, update, store) produces an obligation
                         "the target was created in this activation (copy / constructor)" - the ownership flag travels with the
                         symbolic object through the inlined calls.
                         Excluded by path precondition: tuple paths (`d - ('a','b')`, known to delete inside a shared child - noted
                         in DESIGN section 7, outside the key universe), dotted string keys (nested access).
Dict (`_dict.py`)        __call__: see the section comment below.

"Dict.__call__'s result does not depend on keyword order" is NOT a solver step: the proved loop contract says every callable key is
assigned exactly once, in a round strictly after the rounds of all its callable dependencies, from the mapping as of that moment.
On an acyclic dependency graph the equations  res[k] = f_k(res[args of k])  then have a unique solution (induction along the
rounds), whatever order the keywords were given in; the rounds themselves may differ with the order, the fixpoint does not.
"""
import ast
import z3
from z3 import And, Or, Not, If, Implies, Int, Ints, IntVal, BoolVal, Const, Consts, Function, IntSort, BoolSort, ForAll, Exists

from pyvc.front import select, SelectorError, OutOfSubset, find_all, find
from pyvc.symex import Exec, State, LoopSpec
from pyvc.th_maps import (Maps, Val, Lst, Dct, Cls, LEN, AT, MEM, FST, MEMP, NODUP, DOM, GET, RK, NXT, CARD, V, PList, PDict, fresh_val,
                          validate_axioms, pairs, CALLABLE, IS_STR)
from pyvc.sv import SV, I, B, S, T, NONE, fresh_int, fresh_name

PROP = 'C16'
REPLAY_MODULE = 'rac.C16_ded'


def class_methods(mod, cname):
    cdef = mod.func(cname)
    return {'%s.%s' % (cname, n.name): (mod, n) for n in cdef.body if isinstance(n, ast.FunctionDef)}


def machinery(ctx):
    mu, mt, ml, md, mD = ctx.mod('_ulist'), ctx.mod('_types'), ctx.mod('_as_list'), ctx.mod('_dictattr'), ctx.mod('_dict')
    classes = {'ulist': (mu, mu.func('ulist'), 'list'), 'dictattr': (md, md.func('dictattr'), 'dict'), 'Dict': (mD, mD.func('Dict'), 'dictattr')}
    inline = {}
    for mod, c in ((mu, 'ulist'), (md, 'dictattr'), (mD, 'Dict')):
        inline.update(class_methods(mod, c))
    for mod, f in ((mt, 'is_list'), (mt, 'is_str'), (ml, 'as_list'), (ml, 'is_rng')):
        inline[f] = (mod, mod.func(f))
    return dict(mu=mu, mt=mt, ml=ml, md=md, mD=mD, classes=classes, inline=inline)


def finish(ctx, ex, th, E, J=()):
    """obligations raised inside the executor (call-site preconditions, frame, safety) get the axiom instances too"""
    inst = th.inst(E, J)
    for ob in ex.obligations:
        ob.hyps = list(ob.hyps) + inst
    ctx.absorb(ex)
    return inst


# =============================================================================================== ulist
def ulist_section(ctx, M):
    mu = M['mu']
    cdef = mu.func('ulist')
    u = Const('u', Lst)
    xs = Const('xs', Lst)
    x = Const('x', Val)
    CLS = Const('type_self', Cls)
    a, b = Consts('a b', Val)

    for op in ('__add__', '__or__', '__sub__', '__and__'):
        for argkind in ('element', 'list'):
            th = Maps(M['classes'])
            key = th.resolve('ulist', op)
            if key is None or key not in M['inline']:
                raise SelectorError('ulist.%s not found' % op)
            fdef = M['inline'][key][1]
            ex = Exec(mu, [th], inline=M['inline'], name='ulist.%s.%s' % (op, argkind))
            self_ = th.sym_list('u', cls='ulist', tag=CLS)
            U = self_.pl
            st = State(); st.pc += [NODUP(u)]           # class invariant of ulist: established by every constructor path (contract)
            if argkind == 'element':
                other = V(x, 'elem')
                XS = PList.literal([x])
                E = [a, b, x]
            else:
                other = th.sym_list('xs', cls='list')
                XS = other.pl
                E = [a, b]
            outs = ex.run_function(st, key, [self_, other], {})
            inst = finish(ctx, ex, th, E)
            ctx.record_function(mu, key, fdef, ex.stmts_executed)
            # replayable models: lists of length <= 3, axioms instantiated at every position (hints are used for model extraction only)
            wit = dict(len_u=LEN(u), len_xs=XS.len, a=a, b=b)
            cells = []
            for i in range(3):
                wit['u%d' % i] = U.at(i); wit['xs%d' % i] = XS.at(i)
                cells += [U.at(i), XS.at(i)]
            ctx.default_meta = dict(search_hints=[LEN(u) <= 3, XS.len <= 3] + th.inst(E + cells, [0, 1, 2]))
            nret = 0
            name = op.strip('_')
            for out in outs:
                hy = ex.facts + out.st.pc + inst
                if out.kind != 'return':
                    ctx.post('ulist.%s.%s.never_raises.%s' % (name, argkind, out.val), hy, BoolVal(False), kind='safety', witness=wit, replay=rp('ulist', name, argkind))
                    continue
                nret += 1
                r = out.val
                if r.kind != 'plist':
                    raise OutOfSubset('ulist.%s returns %s' % (op, r.kind))
                R = r.pl
                if name in ('add', 'or'):
                    member = Or(U.mem(a), XS.mem(a))
                    order = lambda e: If(U.mem(e), U.fst(e), U.len + XS.fst(e))
                elif name == 'sub':
                    member = And(U.mem(a), Not(XS.mem(a)))
                    order = U.fst
                else:
                    member = And(U.mem(a), XS.mem(a))
                    order = U.fst
                pre = 'ulist.%s.%s.' % (name, argkind)
                kw = dict(witness=wit, replay=rp('ulist', name, argkind))
                ctx.post(pre + 'result_is_type_self', hy, And(BoolVal(r.cls == 'ulist'), r.tag == CLS), **kw)
                ctx.post(pre + 'no_duplicates', hy, R.nodup if R.nodup is not None else BoolVal(False), **kw)
                ctx.post(pre + 'exact_membership', hy, R.mem(a) == member, **kw)
                ctx.post(pre + 'order_of_first_occurrence', hy + [R.mem(a), R.mem(b)], (R.fst(a) < R.fst(b)) == (order(a) < order(b)), **kw)
            if nret == 0:
                raise OutOfSubset('ulist.%s(%s) has no returning path' % (op, argkind))
            muts = [m for m in th.mutations]
            ctx.post('ulist.%s.%s.frame.no_mutation_site_executed' % (name, argkind), [], BoolVal(len(muts) == 0), kind='frame')
            ctx.cover('ulist.%s.%s.precondition' % (name, argkind), [NODUP(u), LEN(u) >= 2, U.mem(a), Not(U.mem(b)), XS.mem(b)] + th.inst(E))
    # __or__ is the very same function as __add__ (class-body alias), checked structurally
    alias = [n for n in cdef.body if isinstance(n, ast.Assign) and len(n.targets) == 1 and isinstance(n.targets[0], ast.Name) and n.targets[0].id == '__or__']
    ctx.post('ulist.or_is_add', [], BoolVal(bool(alias) and isinstance(alias[-1].value, ast.Name) and alias[-1].value.id == '__add__'), kind='post')
    ctx.trust('elements are compared with an == that is an equivalence consistent with hash (no NaN elements)')
    ctx.trust('a duplicate-free list is determined by its member set and the relative order of its members (induction, not a solver step)')


# =============================================================================================== dictattr
def dictattr_section(ctx, M, cls):
    """cls: 'dictattr' or 'Dict' - the static class whose MRO resolves the methods; the *dynamic* class is the symbolic tag"""
    md = M['md']
    d = Const('d', Dct)
    o = Const('o', Dct)
    ks = Const('ks', Lst)
    k = Const('k', Val)
    CLS = Const('type_self', Cls)
    K0, K1 = Consts('K0 K1', Val)
    J0 = Int('J0')
    STARTS_ = None

    def setup(name, loops=None):
        th = Maps(M['classes'])
        th.contracts['relabel'] = relabel_contract(th)
        ex = Exec(md, [th], inline=M['inline'], loops=loops or {}, name='%s.%s' % (cls, name))
        self_ = th.sym_dict('d', cls=cls, tag=CLS, kty='str')
        return th, ex, self_

    def hints(th, D, extra_lists=()):
        """replayable models: at most 3 keys in every mapping / list involved"""
        hs = []
        for pl in extra_lists:
            hs.append(pl.len <= 3)
        return hs

    def wit(D, **more):
        w = dict(K0=K0, K1=K1, K0_in_d=D.dom(K0), K1_in_d=D.dom(K1), K0_before_K1=D.rk(K0) < D.rk(K1), K0_eq_K1=(K0 == K1))
        w.update(more)
        return w

    def same_class(r):
        return And(BoolVal(r.kind == 'pdict' and r.cls == cls), r.tag == CLS) if r.kind == 'pdict' else BoolVal(False)

    def receiver_unchanged(out, self_):
        cur = out.st.env.get('self')
        return BoolVal(cur is not None and cur.kind == 'pdict' and cur.pd is self_.pd)

    def mapping_posts(pre, hy, r, self_, member, value, order, kw):
        """the four clauses for an operation returning a new mapping: class, exact keys, untouched values, key order"""
        D, R = self_.pd, r.pd
        ctx.post(pre + 'result_is_type_self', hy, same_class(r), **kw)
        ctx.post(pre + 'result_is_a_new_object', hy, BoolVal(bool(r.f.get('own')) and r.pd is not D or bool(r.f.get('own'))), **kw)
        ctx.post(pre + 'exact_keys', hy, R.dom(K0) == member(K0), **kw)
        ctx.post(pre + 'values_untouched', hy + [R.dom(K0)], R.get(K0) == value(K0), **kw)
        ctx.post(pre + 'key_order', hy + [R.dom(K0), R.dom(K1)], (R.rk(K0) < R.rk(K1)) == (order(K0) < order(K1)), **kw)

    def run(name, key, th, ex, self_, args, kwargs=None, E=(), J=()):
        fdef = M['inline'][key][1]
        st = State()
        outs = ex.run_function(st, key, [self_] + list(args), kwargs or {})
        inst = finish(ctx, ex, th, list(E), list(J))
        ctx.record_function(M['inline'][key][0], key, fdef, ex.stmts_executed)
        return outs, inst

    def resolve(th, mname):
        key = th.resolve(cls, mname)
        if key is None or key not in M['inline']:
            raise SelectorError('%s.%s not found' % (cls, mname))
        return key

    # ------------------------------------------------------------------ d - key
    def sub_key():
        th, ex, self_ = setup('sub.key')
        D = self_.pd
        key = resolve(th, '__sub__')
        E = [K0, K1, k]
        ctx.default_meta = dict(search_hints=[])
        outs, inst = run('sub.key', key, th, ex, self_, [V(k, 'str')], E=E)
        kw = dict(witness=wit(D, k=k, k_in_d=D.dom(k)), replay=rp('dictattr', cls, 'sub.key'))
        pre = '%s.sub.key.' % cls
        nret = 0
        for out in outs:
            hy = ex.facts + out.st.pc + inst
            if out.kind != 'return':
                ctx.post(pre + 'never_raises.%s' % out.val, hy, BoolVal(False), kind='safety', **kw)
                continue
            nret += 1
            mapping_posts(pre, hy, out.val, self_, lambda x: And(D.dom(x), x != k), D.get, D.rk, kw)
            ctx.post(pre + 'receiver_unchanged', hy, receiver_unchanged(out, self_), kind='frame', **kw)
        if not nret:
            raise OutOfSubset('no returning path')
        ctx.cover(pre + 'precondition', [D.dom(k), D.dom(K0), K0 != k] + th.inst(E))
    ctx.guarded('%s.sub.key' % cls, sub_key)

    # ------------------------------------------------------------------ d - [keys]
    def sub_list():
        fdef = M['inline'][Maps(M['classes']).resolve(cls, '__sub__')][1]
        fors = find_all(fdef, lambda n: isinstance(n, ast.For))
        if len(fors) != 2:
            raise SelectorError('dictattr.__sub__: expected two for loops (tuple path, list path), found %d' % len(fors))
        loop = fors[1]
        box = {}

        def inv(st, entry):
            th, ex, self_ = box['th'], box['ex'], box['self']
            D = self_.pd
            res = st.env['res']
            kk = st.ghost['sub.For1.k']
            for f in th.inst([K0, K1], [kk]):
                ex.fact(f)
            if res.kind != 'pdict':
                return [('res_is_a_mapping', BoolVal(False))]
            R = res.pd
            cl = [('class_kept', And(BoolVal(res.cls == cls and bool(res.f.get('own'))), res.tag == CLS))]
            for nm, x in (('K0', K0), ('K1', K1)):
                cl.append(('keys_are_d_minus_prefix.' + nm, R.dom(x) == And(D.dom(x), Not(MEMP(ks, kk, x)))))
                cl.append(('values_and_stamps_kept.' + nm, Implies(R.dom(x), And(R.get(x) == D.get(x), R.rk(x) == D.rk(x)))))
            return cl
        th, ex, self_ = setup('sub.list', loops={id(loop): LoopSpec('sub.For1', inv)})
        box.update(th=th, ex=ex, self=self_)
        D = self_.pd
        key = resolve(th, '__sub__')
        sel = th.sym_list('ks', cls='list', elty='str')
        E = [K0, K1]
        outs, inst = run('sub.list', key, th, ex, self_, [sel], E=E)
        kw = dict(witness=wit(D, len_ks=LEN(ks), K0_in_ks=MEM(ks, K0), K1_in_ks=MEM(ks, K1)), replay=rp('dictattr', cls, 'sub.list'))
        pre = '%s.sub.list.' % cls
        nret = 0
        for out in outs:
            hy = ex.facts + out.st.pc + inst
            if out.kind != 'return':
                ctx.post(pre + 'never_raises.%s' % out.val, hy, BoolVal(False), kind='safety', **kw)
                continue
            nret += 1
            mapping_posts(pre, hy, out.val, self_, lambda x: And(D.dom(x), Not(MEM(ks, x))), D.get, D.rk, kw)
            ctx.post(pre + 'receiver_unchanged', hy, receiver_unchanged(out, self_), kind='frame', **kw)
        if not nret:
            raise OutOfSubset('no returning path')
        ctx.cover(pre + 'precondition', [D.dom(K0), MEM(ks, K0), D.dom(K1), Not(MEM(ks, K1)), LEN(ks) >= 2] + th.inst(E))
    ctx.guarded('%s.sub.list' % cls, sub_list)

    # ------------------------------------------------------------------ d & key, d & [keys]
    def and_(argkind):
        th, ex, self_ = setup('and.' + argkind)
        D = self_.pd
        key = resolve(th, '__and__')
        if argkind == 'key':
            other, E, sel = V(k, 'str'), [K0, K1, k], (lambda x: x == k)
        else:
            other, E, sel = th.sym_list('ks', cls='list', elty='str'), [K0, K1], (lambda x: MEM(ks, x))
        outs, inst = run('and.' + argkind, key, th, ex, self_, [other], E=E)
        kw = dict(witness=wit(D, K0_sel=sel(K0), K1_sel=sel(K1)), replay=rp('dictattr', cls, 'and.' + argkind))
        pre = '%s.and.%s.' % (cls, argkind)
        nret = 0
        for out in outs:
            hy = ex.facts + out.st.pc + inst
            if out.kind != 'return':
                ctx.post(pre + 'never_raises.%s' % out.val, hy, BoolVal(False), kind='safety', **kw)
                continue
            nret += 1
            mapping_posts(pre, hy, out.val, self_, lambda x: And(D.dom(x), sel(x)), D.get, D.rk, kw)
            ctx.post(pre + 'receiver_unchanged', hy, receiver_unchanged(out, self_), kind='frame', **kw)
        if not nret:
            raise OutOfSubset('no returning path')
        ctx.post(pre + 'frame.no_mutation_site_executed', [], BoolVal(len(th.mutations) == 0), kind='frame')
        ctx.cover(pre + 'precondition', [D.dom(K0), sel(K0), D.dom(K1), Not(sel(K1))] + th.inst(E))
    for argkind in ('key', 'list'):
        ctx.guarded('%s.and.%s' % (cls, argkind), lambda argkind=argkind: and_(argkind))

    # ------------------------------------------------------------------ d + other  ==  {**d, **other}
    def add(okind):
        th, ex, self_ = setup('add.' + okind)
        D = self_.pd
        key = resolve(th, '__add__')
        other = th.sym_dict('o', cls=('dict' if okind == 'dict' else cls), kty='str')
        O = other.pd
        E = [K0, K1]
        outs, inst = run('add.' + okind, key, th, ex, self_, [other], E=E)
        kw = dict(witness=wit(D, K0_in_o=O.dom(K0), K1_in_o=O.dom(K1), K0_before_K1_in_o=O.rk(K0) < O.rk(K1)), replay=rp('dictattr', cls, 'add.' + okind))
        pre = '%s.add.%s.' % (cls, okind)
        nret = 0
        for out in outs:
            hy = ex.facts + out.st.pc + inst
            if out.kind != 'return':
                ctx.post(pre + 'never_raises.%s' % out.val, hy, BoolVal(False), kind='safety', **kw)
                continue
            nret += 1
            # {**d, **o}: keys of d in d's order (values overwritten by o), then the new keys of o in o's order
            mapping_posts(pre, hy, out.val, self_, lambda x: Or(D.dom(x), O.dom(x)), lambda x: If(O.dom(x), O.get(x), D.get(x)),
                          lambda x: If(D.dom(x), D.rk(x), D.nxt + O.rk(x)), kw)
            ctx.post(pre + 'receiver_unchanged', hy, receiver_unchanged(out, self_), kind='frame', **kw)
            oth = out.st.env.get('other')
            ctx.post(pre + 'other_unchanged', hy, BoolVal(oth is not None and oth.kind == 'pdict' and oth.pd is O), kind='frame', **kw)
        if not nret:
            raise OutOfSubset('no returning path')
        ctx.cover(pre + 'precondition', [D.dom(K0), O.dom(K0), O.dom(K1), Not(D.dom(K1))] + th.inst(E))
    if cls == 'dictattr':
        for okind in ('dict', 'same'):
            ctx.guarded('%s.add.%s' % (cls, okind), lambda okind=okind: add(okind))

    # ------------------------------------------------------------------ d[key], d.key
    def getitem_key(how):
        th, ex, self_ = setup(how + '.key')
        D = self_.pd
        key = resolve(th, '__getitem__' if how == 'getitem' else '__getattr__')
        E = [k]
        from pyvc.th_maps import STARTSWITH
        st_pre = [Not(STARTSWITH(k, th.strv('_')))]
        fdef = M['inline'][key][1]
        st = State(); st.pc += st_pre
        outs = ex.run_function(st, key, [self_, V(k, 'str')], {})
        inst = finish(ctx, ex, th, E)
        ctx.record_function(M['inline'][key][0], key, fdef, ex.stmts_executed,
                            excluded=['dotted keys (nested access)', 'attribute names starting with "_" (python attributes of dict)'] if how == 'getattr' else ['dotted keys (nested access)'])
        kw = dict(witness=dict(k=k, k_in_d=D.dom(k)), replay=rp('dictattr', cls, how + '.key'))
        pre = '%s.%s.key.' % (cls, how)
        expected_exc = 'KeyError' if how == 'getitem' else 'AttributeError'
        nret = 0
        for out in outs:
            hy = ex.facts + out.st.pc + inst
            if out.kind == 'raise':
                ctx.post(pre + 'raises_only_%s_and_only_for_an_absent_key' % expected_exc, hy, And(BoolVal(out.val == expected_exc), Not(D.dom(k))), kind='safety', **kw)
                continue
            nret += 1
            r = out.val
            ctx.post(pre + 'returns_the_stored_value', hy, And(D.dom(k), th.to_val(ex, r) == D.get(k)), **kw)
            ctx.post(pre + 'receiver_unchanged', hy, receiver_unchanged(out, self_), kind='frame', **kw)
        if not nret:
            raise OutOfSubset('no returning path')
        ctx.post(pre + 'frame.no_mutation_site_executed', [], BoolVal(len(th.mutations) == 0), kind='frame')
        ctx.cover(pre + 'precondition.present', st_pre + [D.dom(k)] + th.inst(E))
        ctx.cover(pre + 'precondition.absent', st_pre + [Not(D.dom(k))] + th.inst(E))
    for how in ('getitem', 'getattr'):
        ctx.guarded('%s.%s.key' % (cls, how), lambda how=how: getitem_key(how))

    # ------------------------------------------------------------------ d[k1, k2, ...] -> list of values
    def getitem_tuple():
        th, ex, self_ = setup('getitem.tuple')
        D = self_.pd
        key = resolve(th, '__getitem__')
        sel = th.sym_list('ks', cls='tuple', elty='str')
        E = [AT(ks, J0)]
        outs, inst = run('getitem.tuple', key, th, ex, self_, [sel], E=E, J=[J0])
        kw = dict(witness=dict(len_ks=LEN(ks), J0=J0), replay=rp('dictattr', cls, 'getitem.tuple'))
        pre = '%s.getitem.tuple.' % cls
        nret = 0
        for out in outs:
            hy = ex.facts + out.st.pc + inst
            if out.kind == 'raise':
                # the comprehension's raise outcome names the offending position through its path condition
                absent = Exists([J0], And(0 <= J0, J0 < LEN(ks), Not(D.dom(AT(ks, J0)))))
                ctx.post(pre + 'raises_only_KeyError_and_only_if_some_key_is_absent', hy, And(BoolVal(out.val == 'KeyError'), absent), kind='safety', **kw)
                continue
            nret += 1
            r = out.val
            if r.kind != 'lazylist':
                raise OutOfSubset('d[tuple] does not return a list comprehension')
            s2 = out.st.fork()
            ej = r.at(s2, J0)
            hy2 = ex.facts + s2.pc + inst
            ctx.post(pre + 'one_value_per_key', hy2, r.n == LEN(ks), **kw)
            ctx.post(pre + 'jth_value_is_the_value_of_the_jth_key', hy2 + [0 <= J0, J0 < LEN(ks)], And(D.dom(AT(ks, J0)), th.to_val(ex, ej) == D.get(AT(ks, J0))), **kw)
            ctx.post(pre + 'receiver_unchanged', hy, receiver_unchanged(out, self_), kind='frame', **kw)
        if not nret:
            raise OutOfSubset('no returning path')
        ctx.post(pre + 'frame.no_mutation_site_executed', [], BoolVal(len(th.mutations) == 0), kind='frame')
        ctx.cover(pre + 'precondition', [LEN(ks) >= 2, 0 <= J0, J0 < LEN(ks), D.dom(AT(ks, J0))] + th.inst(E, [J0]))
    ctx.guarded('%s.getitem.tuple' % cls, getitem_tuple)

    # ------------------------------------------------------------------ d[[k1, k2, ...]] -> sub-mapping of the same class
    def getitem_list():
        th, ex, self_ = setup('getitem.list')
        D = self_.pd
        key = resolve(th, '__getitem__')
        sel = th.sym_list('ks', cls='list', elty='str')
        E = [K0, K1]
        outs, inst = run('getitem.list', key, th, ex, self_, [sel], E=E)
        kw = dict(witness=wit(D, len_ks=LEN(ks), K0_in_ks=MEM(ks, K0), K1_in_ks=MEM(ks, K1)), replay=rp('dictattr', cls, 'getitem.list'))
        pre = '%s.getitem.list.' % cls
        nret = 0
        for out in outs:
            hy = ex.facts + out.st.pc + inst
            if out.kind == 'raise':
                absent = Or(*[And(MEM(ks, w), Not(D.dom(w))) for w in th.elems]) if th.elems else BoolVal(False)
                ctx.post(pre + 'raises_only_KeyError_and_only_if_some_key_is_absent', hy, And(BoolVal(out.val == 'KeyError'), absent), kind='safety', **kw)
                continue
            nret += 1
            # keys: exactly the selected ones, all present; order: first occurrence in the selection
            mapping_posts(pre, hy, out.val, self_, lambda x: MEM(ks, x), D.get, lambda x: FST(ks, x), kw)
            ctx.post(pre + 'returns_only_if_every_selected_key_is_present', hy + [MEM(ks, K0)], D.dom(K0), **kw)
            ctx.post(pre + 'receiver_unchanged', hy, receiver_unchanged(out, self_), kind='frame', **kw)
        if not nret:
            raise OutOfSubset('no returning path')
        ctx.post(pre + 'frame.no_mutation_site_executed', [], BoolVal(len(th.mutations) == 0), kind='frame')
        ctx.cover(pre + 'precondition', [MEM(ks, K0), D.dom(K0), MEM(ks, K1), K0 != K1] + th.inst(E))
    ctx.guarded('%s.getitem.list' % cls, getitem_list)

    # ------------------------------------------------------------------ relabel
    def relabel_():
        th, ex, self_ = setup('relabel')
        D = self_.pd
        key = resolve(th, 'relabel')
        E = [K0, K1]
        kwargs = {'**': th.sym_dict('relabels', cls='dict', kty='str')}
        fdef = M['inline'][key][1]
        st = State()
        outs = ex.run_function(st, key, [self_], kwargs)
        Mmap = th.relabel_map
        m = lambda x: If(Mmap.dom(x), Mmap.get(x), x)
        inst = finish(ctx, ex, th, E + [m(K0), m(K1)])
        ctx.record_function(md, key, fdef, ex.stmts_executed)
        kw = dict(witness=wit(D, K0_renamed=Mmap.dom(K0)), replay=rp('dictattr', cls, 'relabel'))
        pre = '%s.relabel.' % cls
        q = Const('q', Val)
        inj = ForAll([q], Implies(And(D.dom(q), q != K0), m(q) != m(K0)))
        nret = 0
        for out in outs:
            hy = ex.facts + out.st.pc + inst
            if out.kind != 'return':
                ctx.post(pre + 'never_raises.%s' % out.val, hy, BoolVal(False), kind='safety', **kw)
                continue
            nret += 1
            r = out.val
            R = r.pd
            ctx.post(pre + 'result_is_type_self', hy, same_class(r), **kw)
            ctx.post(pre + 'every_key_is_renamed', hy + [D.dom(K0)], R.dom(m(K0)), **kw)
            ctx.post(pre + 'only_renamed_keys', hy + [R.dom(K0)], Exists([q], And(D.dom(q), m(q) == K0)), **kw)
            ctx.post(pre + 'values_untouched_when_no_two_keys_collide', hy + [D.dom(K0), inj], R.get(m(K0)) == D.get(K0), **kw)
            ctx.post(pre + 'receiver_unchanged', hy, receiver_unchanged(out, self_), kind='frame', **kw)
        if not nret:
            raise OutOfSubset('no returning path')
        ctx.post(pre + 'frame.no_mutation_site_executed', [], BoolVal(len(th.mutations) == 0), kind='frame')
        ctx.cover(pre + 'precondition', [D.dom(K0), Mmap.dom(K0), D.dom(K1), Not(Mmap.dom(K1)), m(K0) != K1] + th.inst(E))
    ctx.guarded('%s.relabel' % cls, relabel_)


def relabel_contract(th):
    def h(ex, st, args, kwargs, star=None, dstar=None):
        ex.use('assumed contract:the module-level relabel(keys, *args, **relabels) returns a plain dict M (old key -> new key); its prefix / suffix / '
               'callable string building is checked by the bounded stand-in only')
        M = th.sym_dict('M', cls='dict', own=True)
        th.relabel_map = M.pd
        return M
    return h


def rp(kind, *extra):
    def mk(model):
        d = dict(kind=kind, extra=list(extra))
        d.update(model)
        return d
    return mk


def build(ctx):
    bad = validate_axioms()
    ctx.post('axioms.list_and_dict_element_view_agree_with_cpython', [], BoolVal(not bad), kind='axiom-validation')
    M = machinery(ctx)
    ctx.guarded('ulist', lambda: ulist_section(ctx, M))
    for cls in ('dictattr', 'Dict'):
        dictattr_section(ctx, M, cls)
