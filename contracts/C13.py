"""C13 - df_slice keeps exactly the rows in the interval; stitching switches at bounds.

pandas itself (what `df[mask]`, `df[lb:ub]`, `index >= lb`, `pd.concat`, `sort_index` compute) is outside the verifier's reach and stays
with the bounded stand-in (rac/C13.py).  Under deductive contract is the pure-Python decision logic of the wrappers - every pandas / numpy
operation is an uninterpreted function of its operands (pyvc/th_pandas.py), so an obligation says *which* operation is applied to *which*
operands with *which* comparison on *which* branch, for all inputs:

  _closed      bracket parsing: '(' ')' 'o' 'O' are open, '[' ']' 'c' 'C' closed, anything else raises ValueError
  _df_slice    the value returned is the two-step mask selection the statement prescribes - lower bound first, `>=` / `>` and `<=` / `<`
               chosen by the bracket booleans, a time-of-day bound compared with index.time, bounds of a timeseries normalised with dt() -
               or, only when the brackets make pandas' own slice equivalent (closed-closed label slice on a timeseries; for objects that are
               not timeseries - about which the statement says nothing - the closed-open guard is pinned as it is) and that slice does not
               raise, `df[lb:ub]`; non-pandas / empty / unbounded input passes through; ValueError only for
               unparseable brackets
  df_slice     (a) bound lists: lb-only / ub-only / both; for every position i the i-th call of _df_slice receives series pi(i) with its own
               bound and the neighbouring bound of the *sorted* order (pi = identity for non-decreasing bounds, reversal otherwise), the
               caller's openclose, and the results are concatenated in that order; direction mismatch raises ValueError; 0 / 1 series
               (b) a pair of time-of-day bounds with lb > ub (strictly) wraps past midnight: both halves are df_slice calls with the
               caller's openclose, concatenated pre-then-post and sorted; otherwise one _df_slice call with exactly the caller's arguments;
               a 2-tuple lb is unpacked into (lb, ub)
Callee contracts: _closed inside _df_slice (proved in its own section), _df_slice / df_slice (recursion) inside df_slice by name,
as_list, zipper and _is_non_decreasing assumed (stated below).  Excluded: n > 1 column stitching, non-pandas members of the series list
(constant series over the boundaries), df_unslice (dictable pipeline): bounded only.
"""
import ast
import z3
from z3 import And, Or, Not, If, Implies, Int, Ints, IntVal, BoolVal, Const, Select, Lambda

from pyvc.front import select, SelectorError, OutOfSubset, find, walk_no_defs
from pyvc.symex import Exec, State
from pyvc.theories import TypePreds, ConcreteStr
from pyvc.sv import SV, I, B, S, T, NONE, fresh_name
from pyvc import th_pandas as tp
from pyvc.th_pandas import (Pandas, PV, PArr, NONEPV, P, F, M, A, R, GETITEM, CMP, SLICE, TRUTH, LEN, ITEM, KEY, SCALAR, ISA, isa, MKLIST,
                            ASL_SEQ, RAISES, INTV, STR, base_facts, fresh_plist, plist, run_def, at as lat)

PROP = 'C13'
REPLAY_MODULE = 'rac.C13_ded'
OPEN, CLOSED = '()oO', '[]cC'

NONDECR = z3.Function('is_non_decreasing', PV, z3.BoolSort())
MONO_RAISES = z3.Function('is_non_decreasing_raises', PV, z3.BoolSort())


def in_set(c, chars):
    return Or(*[c == ord(x) for x in chars])


def closed_handler(th, ex, st, args, kwargs):
    """callee contract of _closed (proved in section `_closed`)"""
    if len(args) != 1 or kwargs:
        return NotImplemented
    a = args[0]
    if a.kind == 'str' and a.t is None and len(a.lit) == 1:
        c = IntVal(ord(a.lit))
    elif a.kind == 'chars' and len(a.codes) == 1:
        c = a.codes[0]
    elif a.kind in ('bool', 'int', 'none'):
        ex.raise_if(st, BoolVal(True), 'TypeError')          # `x in '()oO'` needs a string on the left
        return B(False)
    else:
        raise OutOfSubset('_closed(%s)' % a.kind)
    ex.use('callee contract:_closed(c) is False for ( ) o O, True for [ ] c C, ValueError otherwise (section _closed)')
    ex.raise_if(st, Not(Or(in_set(c, OPEN), in_set(c, CLOSED))), 'ValueError')
    return B(in_set(c, CLOSED))


def mono_handler(th, ex, st, args, kwargs):
    if len(args) != 1 or kwargs or args[0].kind not in ('plist', 'lazylist'):
        raise OutOfSubset('_is_non_decreasing(%s)' % [a.kind for a in args])
    ex.use('assumed contract:_is_non_decreasing(bounds) is an uninterpreted predicate of the bound list (True: non-decreasing, False: non-increasing, '
           'ValueError: neither); bounded-checked by rac/C13.py')
    t = tp.sv_pv(th.as_plist(ex, st, args[0]))
    ex.raise_if(st, MONO_RAISES(t), 'ValueError')
    return B(NONDECR(t))


def zipper_handler(th, ex, st, args, kwargs):
    """callee contract of pyg_base._zip.zipper for lists and scalar (non-iterable) arguments"""
    if kwargs or not args:
        return NotImplemented
    ex.use('assumed contract:zipper(a, b, ...) zips lists of one common length n, broadcasting scalars and one-element lists; ValueError when two '
           'lists have different lengths other than 1 (pyg_base._zip; C19 family)')
    cols = []
    for a in args:
        if a.kind in ('plist', 'lazylist'):
            cols.append(th.as_plist(ex, st, a))
        elif a.kind == 'none':
            cols.append(None)
        elif a.kind == 'pv':
            ex.oblige(st, 'zipper.scalar_argument_is_not_iterable', Or(a.t == NONEPV, Not(TRUTH(F('is_iterable', a.t)))), kind='pre')
            cols.append(a)
        else:
            raise OutOfSubset('zipper(%s)' % a.kind)
    lists = [c for c in cols if c is not None and c.kind == 'plist']
    for x in range(len(lists)):
        for y in range(x + 1, len(lists)):
            ex.raise_if(st, And(lists[x].n != 1, lists[y].n != 1, lists[x].n != lists[y].n), 'ValueError')
    n = IntVal(1)
    for c in reversed(lists):
        n = If(c.n != 1, c.n, n)

    def at(st2, j, cols=cols):
        out = []
        for c in cols:
            if c is None:
                out.append(NONE)
            elif c.kind == 'pv':
                out.append(c)
            else:
                out.append(P(z3.simplify(If(c.n == 1, Select(c.arr, 0), Select(c.arr, j)))))
        return T(out)
    return SV('lazylist', None, n=z3.simplify(n), at=at)


def build(ctx):
    m = ctx.mod('_pandas')
    # replays are fixed native batteries per obligation family (the counterexamples are interpretations of uninterpreted pandas operations)
    ctx.default_meta = dict(replay_without_model=True)
    bf = base_facts

    def theories(**kw):
        th = Pandas(m, repo=['_df_slice', 'df_slice'], **kw)
        return th, [th, ConcreteStr(m), TypePreds()]

    # =========================================================================================== _closed
    def closed_section():
        fdef = m.func('_closed')
        c = Int('C')
        th, ths = theories()
        ex = Exec(m, ths, name='_closed')
        outs = run_def(ex, State(), fdef, [SV('chars', None, codes=[c])])
        ctx.absorb(ex); ctx.record_function(m, '_closed', fdef, ex.stmts_executed)
        wit = dict(c=c)
        rp = replay_closed
        nret = 0
        for o in outs:
            hy = ex.facts + o.st.pc
            if o.kind == 'return':
                nret += 1
                if o.val.kind != 'bool':
                    ctx.post('_closed.returns_a_bool', hy, BoolVal(False), witness=wit, replay=rp)
                    continue
                ctx.post('_closed.returns_only_for_a_bracket_character', hy, Or(in_set(c, OPEN), in_set(c, CLOSED)), witness=wit, replay=rp)
                ctx.post('_closed.round_brackets_and_o_are_open', hy + [in_set(c, OPEN)], Not(o.val.t), witness=wit, replay=rp)
                ctx.post('_closed.square_brackets_and_c_are_closed', hy + [in_set(c, CLOSED)], o.val.t, witness=wit, replay=rp)
            else:
                ctx.post('_closed.raises_only_ValueError', hy, BoolVal(o.val == 'ValueError'), kind='safety', witness=wit, replay=rp)
                ctx.post('_closed.raises_only_for_an_unknown_character', hy, Not(Or(in_set(c, OPEN), in_set(c, CLOSED))), kind='safety', witness=wit, replay=rp)
        if nret == 0:
            raise OutOfSubset('_closed has no returning path')
        ctx.cover('_closed.each_class_reachable', [in_set(c, OPEN)])
    ctx.guarded('_closed', closed_section)

    # =========================================================================================== _df_slice
    DF, LB, UB = Const('DF', PV), Const('LB', PV), Const('UB', PV)

    def spec_df_slice(df, lb, ub, l, u):
        """the statement's reading of one slice, over the uninterpreted pandas operations: (value of the mask selection, lb', ub', fast-path
        admissible).  l / u: z3 Bools (lower / upper bracket closed)."""
        ts = TRUTH(F('is_ts', df))
        norm = lambda b: If(ts, If(Or(b == NONEPV, isa(b, 'datetime.time')), b, F('dt', b)), b)
        lb2, ub2 = norm(lb), norm(ub)
        ix = lambda d: If(isa(d, 'pd.Index'), d, A('index', d))
        idx = lambda d, b: If(isa(b, 'datetime.time'), A('time', ix(d)), ix(d))
        d1 = If(lb2 == NONEPV, df, GETITEM(df, If(l, CMP('GtE', idx(df, lb2), lb2), CMP('Gt', idx(df, lb2), lb2))))
        d2 = If(ub2 == NONEPV, d1, GETITEM(d1, If(u, CMP('LtE', idx(d1, ub2), ub2), CMP('Lt', idx(d1, ub2), ub2))))
        fast_ok = If(ts, And(Or(l, lb2 == NONEPV), Or(u, ub2 == NONEPV)), And(Or(l, lb2 == NONEPV), Or(ub2 == NONEPV, Not(u))))
        return d2, lb2, ub2, fast_ok

    def dfslice_section():
        fdef = m.func('_df_slice')
        c0, c1 = Ints('OC0 OC1')
        wit = dict(oc0=c0, oc1=c1)
        for label, ocv, codes in (('brackets', SV('chars', None, codes=[c0, c1]), (c0, c1)), ('default_brackets', None, None)):
            th, ths = theories(handlers={'_closed': closed_handler}, may_raise=['getitem_slice'])
            ex = Exec(m, ths, name='_df_slice.' + label)
            args = [P(DF), P(LB), P(UB)] + ([ocv] if ocv is not None else [])
            outs = run_def(ex, State(), fdef, args)
            ctx.absorb(ex); ctx.record_function(m, '_df_slice', fdef, ex.stmts_executed)
            if codes is None:
                dflt = fdef.args.defaults[-1]
                if not (isinstance(dflt, ast.Constant) and isinstance(dflt.value, str) and len(dflt.value) == 2):
                    raise SelectorError('_df_slice: openclose default is not a two-character literal')
                codes = (IntVal(ord(dflt.value[0])), IntVal(ord(dflt.value[1])))
            k0, k1 = codes
            parse_ok = And(Or(in_set(k0, OPEN), in_set(k0, CLOSED)), Or(in_set(k1, OPEN), in_set(k1, CLOSED)))
            l, u = in_set(k0, CLOSED), in_set(k1, CLOSED)
            active = And(isa(DF, 'pd.Index', 'pd.Series', 'pd.DataFrame'), LEN(DF) > 0, Or(UB != NONEPV, LB != NONEPV))
            masked, lb2, ub2, fast_ok = spec_df_slice(DF, LB, UB, l, u)
            sl = GETITEM(DF, SLICE(lb2, ub2, None))
            nret = 0
            for o in outs:
                hy = ex.facts + bf() + o.st.pc
                if o.kind == 'raise':
                    ctx.post('_df_slice.%s.raises_only_ValueError_for_unparseable_brackets' % label, hy, And(BoolVal(o.val == 'ValueError'), active, Not(parse_ok)),
                             kind='safety', witness=wit, replay=replay_dfslice)
                    continue
                nret += 1
                if o.val.kind != 'pv':
                    ctx.post('_df_slice.%s.returns_a_pandas_object' % label, hy, BoolVal(False), witness=wit, replay=replay_dfslice)
                    continue
                r = o.val.t
                ctx.post('_df_slice.%s.non_pandas_empty_or_unbounded_input_passes_through' % label, hy + [Not(active)], r == DF, witness=wit, replay=replay_dfslice)
                ctx.post('_df_slice.%s.result_is_the_prescribed_mask_selection_or_the_equivalent_label_slice' % label, hy + [active],
                         Or(r == masked, And(fast_ok, Not(RAISES('getitem', DF, SLICE(lb2, ub2, None))), r == sl)), witness=wit, replay=replay_dfslice)
                ctx.post('_df_slice.%s.returns_only_for_parseable_brackets' % label, hy + [active], parse_ok, witness=wit, replay=replay_dfslice)
            if nret == 0:
                raise OutOfSubset('_df_slice has no returning path')
        ctx.cover('_df_slice.mask_path_reachable', bf() + [isa(DF, 'pd.Series'), LEN(DF) > 0, LB != NONEPV, UB != NONEPV, Not(TRUTH(F('is_ts', DF)))])
    ctx.guarded('_df_slice', dfslice_section)

    # =========================================================================================== df_slice: lists of bounds
    N = Int('N')
    OC = Const('OPENCLOSE', PV)
    D = fresh_plist('SERIES', n=N)

    def list_scenario(label, which):
        fdef = m.func('df_slice')
        th, ths = theories(handlers={'_is_non_decreasing': mono_handler, 'zipper': zipper_handler})
        ex = Exec(m, ths, name='df_slice.' + label)
        LBl = fresh_plist('LBS', n=N) if which in ('lb', 'both') else None
        UBl = fresh_plist('UBS', n=N) if which in ('ub', 'both') else None
        for caller_list in (D, LBl, UBl):           # lists the caller hands in: an in-place method on one of them is a frame violation
            if caller_list is not None:
                caller_list.f['caller'] = True
        th.frame_replay = replay_lists(which)
        st = State()
        st.pc += [N >= 0]
        args = dict(df=D, lb=LBl if LBl is not None else NONE, ub=UBl if UBl is not None else NONE, openclose=P(OC))
        outs = run_def(ex, st, fdef, [], args)
        ctx.absorb(ex)
        ctx.record_function(m, 'df_slice', fdef, ex.stmts_executed,
                            excluded=['n > 1 (column stitching: concat of df[i:i+n], column renaming loop): bounded only',
                                      'members of the series list that are not pandas objects (constant series over the boundaries): path precondition is_pd(series[k])'])
        tlb = tp.sv_pv(LBl) if LBl is not None else None
        tub = tp.sv_pv(UBl) if UBl is not None else None
        mono = [t for t in (tlb, tub) if t is not None]
        no_mono_raise = [Not(MONO_RAISES(t)) for t in mono]
        inc = NONDECR(tlb if which in ('lb', 'both') else tub)
        same_dir = [NONDECR(tlb) == NONDECR(tub)] if which == 'both' else []
        i = Int('I')
        k = If(inc, i, N - 1 - i)                       # the series in position i of the sorted order
        kprev = If(inc, i - 1, N - i)
        knext = If(inc, i + 1, N - 2 - i)
        dk = lat(D, k)
        if which == 'ub':
            want_l, want_u = If(i == 0, NONEPV, lat(UBl, kprev)), lat(UBl, k)
        elif which == 'lb':
            want_l, want_u = lat(LBl, k), If(i == N - 1, NONEPV, lat(LBl, knext))
        else:
            want_l, want_u = lat(LBl, k), lat(UBl, k)
        want = R('_df_slice', dk, want_l, want_u, OC)
        wit = dict(n=N)
        rp = replay_lists(which)
        nret = 0
        for o in outs:
            hy = ex.facts + bf() + o.st.pc
            if o.kind == 'raise':
                if which == 'both':
                    ctx.post('df_slice.%s.raises_only_ValueError_for_a_direction_mismatch_or_unsortable_bounds' % label, hy,
                             And(BoolVal(o.val == 'ValueError'), Or(NONDECR(tlb) != NONDECR(tub), *[MONO_RAISES(t) for t in mono])), kind='safety', witness=wit, replay=rp)
                else:
                    ctx.post('df_slice.%s.raises_only_for_unsortable_bounds' % label, hy, And(BoolVal(o.val == 'ValueError'), Or(*[MONO_RAISES(t) for t in mono])),
                             kind='safety', witness=wit, replay=rp)
                continue
            nret += 1
            hy = hy + no_mono_raise
            if which == 'both':
                ctx.post('df_slice.%s.direction_mismatch_never_returns' % label, hy, NONDECR(tlb) == NONDECR(tub), witness=wit, replay=rp)
            v = o.val
            # N == 0: None;  N == 1: that slice;  N >= 2: pd.concat of the list of slices
            ctx.post('df_slice.%s.no_series_gives_None' % label, hy + [N == 0], BoolVal(v.kind == 'none'), witness=wit, replay=rp)
            if v.kind == 'none':
                ctx.post('df_slice.%s.None_only_without_series' % label, hy, N == 0, witness=wit, replay=rp)
                continue
            concats = [e for e in th.calls('pd.concat', 'fcall') if e['res'] is v]
            pd_k = TRUTH(F('is_pd', dk))
            if concats:
                lst = concats[0]['args'][0]
                if concats[0]['kwargs'] or len(concats[0]['args']) != 1 or lst.kind not in ('lazylist', 'plist'):
                    ctx.post('df_slice.%s.concatenates_the_list_of_slices' % label, hy, BoolVal(False), witness=wit, replay=rp)
                    continue
                n_l, at_l = ex.iterate(o.st, lst)
                s2 = o.st.fork()
                cell = at_l(s2, i)
                ctx.post('df_slice.%s.one_slice_per_series' % label, hy, n_l == N, witness=wit, replay=rp)
                ctx.post('df_slice.%s.several_series_are_concatenated' % label, hy, N >= 2, witness=wit, replay=rp)
                ctx.post('df_slice.%s.slice_i_is_series_pi_i_between_its_neighbouring_bounds_with_the_callers_brackets' % label,
                         ex.facts + bf() + s2.pc + no_mono_raise + same_dir + [0 <= i, i < N, pd_k], tp.sv_pv(cell) == want if cell.kind == 'pv' else BoolVal(False),
                         witness=dict(n=N, i=i), replay=rp)
            elif v.kind == 'pv':
                ctx.post('df_slice.%s.a_single_series_is_returned_sliced' % label, hy + same_dir + [i == 0, TRUTH(F('is_pd', lat(D, IntVal(0))))],
                         And(N == 1, v.t == want), witness=wit, replay=rp)
            else:
                ctx.post('df_slice.%s.returns_a_pandas_object' % label, hy, BoolVal(False), witness=wit, replay=rp)
        if nret == 0:
            raise OutOfSubset('df_slice (%s) has no returning path' % label)
        ctx.cover('df_slice.%s.decreasing_bounds_reachable' % label, bf() + [N == 3, Not(inc)] + no_mono_raise + same_dir)

    ctx.guarded('df_slice.upper_bounds', lambda: list_scenario('upper_bounds', 'ub'))
    ctx.guarded('df_slice.lower_bounds', lambda: list_scenario('lower_bounds', 'lb'))
    ctx.guarded('df_slice.both_bounds', lambda: list_scenario('both_bounds', 'both'))

    # =========================================================================================== df_slice: one series, wrap past midnight
    def scalar_section():
        fdef = m.func('df_slice')
        th, ths = theories(handlers={'_is_non_decreasing': mono_handler, 'zipper': zipper_handler})
        ex = Exec(m, ths, name='df_slice.single')
        st = State()
        tup = And(isa(LB, 'tuple'), LEN(LB) == 2, UB == NONEPV)
        lb1, ub1 = If(tup, ITEM(LB, IntVal(0)), LB), If(tup, ITEM(LB, IntVal(1)), UB)
        wrap = And(isa(ub1, 'datetime.time'), isa(lb1, 'datetime.time'), KEY(lb1) > KEY(ub1))
        scalars = [Or(b == NONEPV, Not(TRUTH(F('is_iterable', b)))) for b in (lb1, ub1)]
        pre = [DF != NONEPV, Not(ISA('list', DF)), Not(ASL_SEQ(DF))] + scalars      # one series, bounds are single values (after unpacking a 2-tuple lb)
        st.pc += pre
        outs = run_def(ex, st, fdef, [], dict(df=P(DF), lb=P(LB), ub=P(UB), openclose=P(OC)))
        ctx.absorb(ex); ctx.record_function(m, 'df_slice', fdef, ex.stmts_executed)
        axioms = [Implies(ISA('datetime.time', b), SCALAR(b)) for b in (lb1, ub1)]
        nparam = [p.arg for p in fdef.args.args]
        dflt = dict(zip(nparam[len(nparam) - len(fdef.args.defaults):], fdef.args.defaults))
        n_default = dflt.get('n')
        if not (isinstance(n_default, ast.Constant) and n_default.value == 1):
            raise SelectorError('df_slice: default of n is not 1')
        want_wrap = M('sort_index', F('pd.concat', [R('df_slice', DF, None, ub1, OC, 1), R('df_slice', DF, lb1, None, OC, 1)]))
        want_plain = R('_df_slice', DF, lb1, ub1, OC)
        wit = dict(key_lb=KEY(lb1), key_ub=KEY(ub1))
        nret = 0
        for o in outs:
            hy = ex.facts + bf() + axioms + o.st.pc + scalars
            if o.kind == 'raise':
                ctx.post('df_slice.single.never_raises', hy, BoolVal(False), kind='safety', witness=wit, replay=replay_wrap)
                continue
            nret += 1
            if o.val.kind != 'pv':
                ctx.post('df_slice.single.returns_a_pandas_object', hy, BoolVal(False), witness=wit, replay=replay_wrap)
                continue
            ctx.post('df_slice.single.window_starting_later_than_it_ends_wraps_past_midnight_with_the_callers_brackets', hy + [wrap], o.val.t == want_wrap,
                     witness=wit, replay=replay_wrap)
            ctx.post('df_slice.single.otherwise_one_slice_with_exactly_the_callers_bounds_and_brackets', hy + [Not(wrap)], o.val.t == want_plain,
                     witness=wit, replay=replay_wrap)
        if nret == 0:
            raise OutOfSubset('df_slice (single) has no returning path')
        ctx.cover('df_slice.single.wrap_reachable', bf() + pre + axioms + scalars + [wrap])
        ctx.cover('df_slice.single.equal_times_do_not_wrap', bf() + pre + axioms + scalars + [isa(ub1, 'datetime.time'), isa(lb1, 'datetime.time'), KEY(lb1) == KEY(ub1)])
    ctx.guarded('df_slice.single', scalar_section)

    # =========================================================================================== df_slice: n columns
    def columns_section():
        fdef = m.func('df_slice')
        guard = find(fdef, lambda x: isinstance(x, ast.If) and isinstance(x.test, ast.Compare) and ast.unparse(x.test.left) == 'n' and isinstance(x.test.ops[0], ast.Gt)
                     and ast.unparse(x.test.comparators[0]) == '1', 'the `if n > 1` block of df_slice')
        asg = [s for s in guard.body if isinstance(s, ast.Assign) and isinstance(s.value, ast.ListComp)]
        loops = [s for s in guard.body if isinstance(s, ast.For)]
        if len(asg) != 1 or len(loops) != 1 or len(guard.body) != 2 or not isinstance(asg[0].targets[0], ast.Name):
            raise SelectorError('df_slice: the n > 1 block is not one comprehension followed by the column renaming loop')
        dname = asg[0].targets[0].id
        NN = Int('NCOLS')
        th, ths = theories()
        ex = Exec(m, ths, name='df_slice.columns')
        st = State(env={dname: D, 'n': I(NN)})
        st.pc += [N >= 0, NN >= 2]
        outs = ex.run_block(st, [asg[0]])
        ctx.absorb(ex); ctx.record_function(m, 'df_slice', fdef, ex.stmts_executed)
        i, j = Int('I'), Int('J')
        width = If(i + NN <= N, NN, N - i)
        rp = replay_lists('columns')
        for o in outs:
            hy = ex.facts + bf() + o.st.pc
            if o.kind != 'next':
                ctx.post('df_slice.columns.never_raises', hy, BoolVal(False), kind='safety', witness=dict(n=N), replay=rp)
                continue
            v = o.st.env[dname]
            n_l, at_l = ex.iterate(o.st, v)
            s2 = o.st.fork()
            cell = at_l(s2, i)
            ctx.post('df_slice.columns.one_frame_per_series', hy, n_l == N, witness=dict(n=N), replay=rp)
            evs = [e for e in th.calls('pd.concat', 'fcall') if e['args'] and e['args'][0].kind in ('plist', 'lazylist')]
            ok = cell.kind == 'pv' and bool(evs)
            sub = th.as_plist(ex, s2, evs[-1]['args'][0]) if ok else None
            ctx.post('df_slice.columns.frame_i_puts_series_i_plus_j_into_column_j_and_is_sorted', ex.facts + bf() + s2.pc + [0 <= i, i < N, 0 <= j, j < width],
                     And(sub.n == width, lat(sub, j) == lat(D, i + j),
                         cell.t == M('sort_index', F('pd.concat', tp.sv_pv(sub), axis=1))) if ok else BoolVal(False), witness=dict(n=N, i=i, j=j), replay=rp)
        lp = loops[0]
        lv = lp.target.id if isinstance(lp.target, ast.Name) else None
        ok_loop = (lv is not None and isinstance(lp.iter, ast.Name) and lp.iter.id == dname and len(lp.body) == 1 and isinstance(lp.body[0], ast.Assign)
                   and ast.unparse(lp.body[0].targets[0]) == '%s.columns' % lv and ast.unparse(lp.body[0].value) == 'range(%s.shape[1])' % lv)
        ctx.post('df_slice.columns.columns_are_renumbered_from_zero', [], BoolVal(ok_loop), kind='syntactic')
        ctx.trust('df_slice n > 1: the column renumbering loop `for d in df: d.columns = range(d.shape[1])` is checked on the AST text only')
        ctx.cover('df_slice.columns.short_tail_reachable', [N == 4, NN == 3, i == 2])
    ctx.guarded('df_slice.columns', columns_section)

    # =========================================================================================== _is_non_decreasing
    def mono_section():
        fdef = m.func('_is_non_decreasing')
        V = fresh_plist('BOUNDS', n=N)
        th, ths = theories()
        ex = Exec(m, ths, name='_is_non_decreasing')
        st = State(); st.pc += [N >= 0]
        outs = run_def(ex, st, fdef, [V])
        ctx.absorb(ex); ctx.record_function(m, '_is_non_decreasing', fdef, ex.stmts_executed)
        # bounds with an open end (None first / last) are judged without it
        q = Int('Q')
        drop_last = lat(V, N - 1) == NONEPV
        n1 = If(drop_last, N - 1, N)
        drop_first = lat(V, 0) == NONEPV
        n2 = If(drop_first, n1 - 1, n1)
        off = If(drop_first, 1, 0)
        core = tp.MKLIST(n2, Lambda([q], z3.Select(V.arr, q + off)))
        rev = tp.MKLIST(n2, Lambda([q], z3.Select(V.arr, n2 - 1 - q + off)))
        srt = F('sorted', core)
        rp = replay_lists('mono')
        for o in outs:
            hy = ex.facts + bf() + o.st.pc
            w = dict(n=N)
            if o.kind == 'raise':
                ctx.post('_is_non_decreasing.raises_only_ValueError_for_bounds_in_neither_order', hy, And(BoolVal(o.val == 'ValueError'), N >= 2, srt != core, srt != rev),
                         kind='safety', witness=w, replay=rp)
                continue
            if o.val.kind != 'bool':
                ctx.post('_is_non_decreasing.returns_a_bool', hy, BoolVal(False), witness=w, replay=rp)
                continue
            ctx.post('_is_non_decreasing.fewer_than_two_bounds_count_as_increasing', hy + [N < 2], o.val.t, witness=w, replay=rp)
            ctx.post('_is_non_decreasing.true_iff_the_bounds_without_open_ends_equal_their_sorted_order', hy + [N >= 2], o.val.t == (srt == core), witness=w, replay=rp)
            ctx.post('_is_non_decreasing.false_only_for_the_reverse_of_the_sorted_order', hy + [N >= 2, Not(o.val.t)], srt == rev, witness=w, replay=rp)
        ctx.trust('sorted() is uninterpreted: that "equal to its sorted order" means non-decreasing is Python\'s, not proved here')
    ctx.guarded('_is_non_decreasing', mono_section)

    # =========================================================================================== df_unslice: the intervals it reads back
    def unslice_section():
        fdef = m.func('df_unslice')
        calls = [c for c in walk_no_defs(fdef) if isinstance(c, ast.Call) and ast.unparse(c.func) == 'dictable' and any(q.arg == 'lb' for q in c.keywords)
                 and any(q.arg == 'ub' for q in c.keywords)]
        lams = [l for l in ast.walk(fdef) if isinstance(l, ast.Lambda) and [a.arg for a in l.args.args] == ['lb', 'ub']]
        if len(calls) != 1 or len(lams) != 1:
            raise SelectorError('df_unslice: expected dictable(ub = ub, lb = ..., ...) and one lambda lb, ub: ...')
        UBl = fresh_plist('UBS', n=N)
        th, ths = theories()
        ex = Exec(m, ths, name='df_unslice')
        st = State(env=dict(ub=UBl, df=P(DF)))
        st.pc += [N >= 1]
        kw = {q.arg: q.value for q in calls[0].keywords}
        lbv = ex.eval(st, kw['lb'])
        ubv = ex.eval(st, kw['ub'])
        i = Int('I')
        rp = replay_lists('unslice')
        lbl, ubl = th.as_plist(ex, st, lbv), th.as_plist(ex, st, ubv)
        hy = ex.facts + bf() + st.pc
        ctx.post('df_unslice.interval_i_runs_from_the_previous_upper_bound_to_upper_bound_i', hy + [0 <= i, i < N],
                 And(lbl.n == N, ubl.n == N, lat(ubl, i) == lat(UBl, i), lat(lbl, i) == If(i == 0, NONEPV, lat(UBl, i - 1))), witness=dict(n=N, i=i), replay=rp)
        for pend in st.pending:
            ctx.post('df_unslice.interval_lists_never_raise', ex.facts + bf() + pend.st.pc, BoolVal(False), kind='safety', witness=dict(n=N), replay=rp)
        fn = ex.eval(State(env=dict(df=P(DF))), lams[0])
        s2 = State(env=dict(df=P(DF)))
        v = ex.call_func(s2, fn, [P(LB), P(UB)], {})
        ctx.absorb(ex)
        ctx.record_function(m, 'df_unslice', fdef, set(), how='the interval lists and the slicing lambda are symbolically executed',
                            excluded=['dictable pipeline (per-column split, concat per original bound, nona): bounded only'])
        ctx.post('df_unslice.each_interval_is_read_back_half_open_on_the_left', ex.facts + bf() + s2.pc,
                 v.t == R('df_slice', DF, LB, UB, '(]', 1) if v.kind == 'pv' else BoolVal(False), witness=dict(n=N), replay=rp)
    ctx.guarded('df_unslice', unslice_section)

    ctx.trust('pandas semantics (df[mask], df[lb:ub] closed-closed on a sorted datetime index and closed-open positionally otherwise, index >= bound, '
              'index.time, pd.concat, sort_index) are uninterpreted here and decided by the bounded stand-in rac/C13.py only')
    ctx.trust('that the concatenation of the slices (ub[i-1], ub[i]] covers each timestamp at most once follows from the per-slice bounds proved here and '
              'the sortedness of the bounds (_is_non_decreasing, assumed): an argument, not a solver step')


# ---------------------------------------------------------------------------------------------- replay descriptions
def replay_closed(model):
    return dict(kind='closed', c=model.get('c'))


def replay_dfslice(model):
    return dict(kind='dfslice', oc0=model.get('oc0'), oc1=model.get('oc1'))


def replay_lists(which):
    def mk(model):
        return dict(kind='lists', which=which, n=model.get('n'), i=model.get('i'))
    return mk


def replay_wrap(model):
    return dict(kind='wrap', key_lb=model.get('key_lb'), key_ub=model.get('key_ub'))
