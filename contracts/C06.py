"""C06 - inc and exc partition a table; both keep the columns and the row order.

Functions under contract (real source):
  _row_check            exact summary over uninterpreted cell predicates (is None / is_nan / is_str / Pattern.search / membership)
  dictable.inc          body of the `for key, value in filters.items()` loop: the mask handed to row selection is, entry by entry, _row_check of
                        that row's cell (all four condition kinds); the empty-result tail rebuilds the table with self.keys()
  and_                  the closure returns the conjunction (min of booleans) of _row_check over the filters
  dictable.exc          the mask handed to row selection is the negation of that conjunction, row by row
Callee contract MASK (proved on the real body of dictable.__getitem__, contracts/C01.py mask_obligations; its obligations are generated again here as
C06.__getitem__.mask.*): `table[list of booleans, one per row]` keeps all columns and exactly the rows whose entry is true - the row of true entry i at
position count_true(mask, i), count_true(mask, len) rows in all; the laws of count_true (ranks strictly increase over true entries, every position below the
count is a rank) are induction lemmas.  Each inc step is composed with it by the solver: the table after the step keeps all columns, is rectangular with one
row per passing cell, and holds every row whose cell passes the statement's reading of the condition at its rank.  From "each step filters by _row_check"
the statement's conclusions over *several* filters follow by induction over the filters (rows kept by inc = rows satisfying every condition, in order; exc
keeps the complement; partition; idempotence because a second pass filters by predicates that already hold).  That induction is an argument, not a solver step.
Bounded only: callable predicates (kwargs_support), dict-valued positional filters, find_<col>, one_or_none.
"""
import ast
import z3
from z3 import And, Or, Not, If, Implies, Int, Ints, IntVal, BoolVal, ForAll, Exists, Const, Function, BoolSort, IntSort, Select

from pyvc.front import select, SelectorError, OutOfSubset, find, walk_no_defs
from pyvc.symex import Exec, State, LoopSpec
from pyvc.theories import TypePreds
from pyvc.th_lists import Lists, Val, NONEV, VAL, INT, fresh_list, V, as_list_sv, at
from pyvc.th_tables import Tables, Key, KEY, fresh_table, wf, no_columns, nrows, column, key_of
from pyvc.sv import SV, I, B, S, T, NONE, fresh_name, fresh_int
from pyvc.th_tables2 import CNT, mask_contract
from contracts.C01 import mask_obligations

PROP = 'C06'

NANP = Function('is_nan', Val, BoolSort())
STRP = Function('is_str', Val, BoolSort())
PATP = Function('is_Pattern', Val, BoolSort())
SEARCH = Function('search_hits', Val, Val, BoolSort())     # value.search(cell) is not None
INL = Function('in_as_list', Val, Val, BoolSort())         # cell in as_list(value)
EQP = Function('eq_cells', Val, Val, BoolSort())           # cell == value


class Cells:
    """uninterpreted predicates on opaque cells and conditions: only their agreement between two code paths matters"""

    def call(self, ex, st, e, fname, args, kwargs):
        if fname == 'is_nan' and len(args) == 1 and args[0].kind in ('val', 'none'):
            ex.use('model:is_nan / is_str / isinstance(_, Pattern) / Pattern.search / membership are uninterpreted predicates of the cell and the condition')
            return B(NANP(args[0].t if args[0].kind == 'val' else NONEV))
        if fname == 'is_str' and len(args) == 1 and args[0].kind == 'val':
            return B(STRP(args[0].t))
        if fname == 'as_list' and len(args) == 1 and args[0].kind == 'val':
            return SV('aslist', None, of=args[0].t)
        if fname == 'min' and len(args) == 1 and args[0].kind == 'lazylist':
            # min of a list of booleans is their conjunction (False < True); min([]) raises ValueError
            ex.use('axiom:min(list of booleans) is True iff all are True; min([]) raises ValueError')
            lst = args[0]
            ex.raise_if(st, lst.n == 0, 'ValueError')
            q = Int(fresh_name('q!min'))
            sub = st.fork()
            elt = lst.at(sub, q)
            if elt.kind != 'bool':
                raise OutOfSubset('min over non-boolean comprehension')
            return B(ForAll([q], Implies(And(0 <= q, q < lst.n), elt.t)))
        if fname == 'max' and len(args) == 1 and args[0].kind == 'lazylist':
            ex.use('axiom:max(list of booleans) is True iff one is True; max([]) raises ValueError')
            lst = args[0]
            ex.raise_if(st, lst.n == 0, 'ValueError')
            q = Int(fresh_name('q!max'))
            elt = lst.at(st.fork(), q)
            if elt.kind != 'bool':
                raise OutOfSubset('max over non-boolean comprehension')
            return B(Exists([q], And(0 <= q, q < lst.n, elt.t)))
        return NotImplemented

    def pre_call(self, ex, st, e):
        if isinstance(e.func, ast.Name) and e.func.id == 'isinstance' and len(e.args) == 2 and ast.unparse(e.args[1]) == 'Pattern':
            v = ex.eval(st, e.args[0])
            if v.kind == 'val':
                return B(PATP(v.t))
        return NotImplemented

    def method(self, ex, st, e, recv, mname, args, kwargs):
        if recv.kind == 'val' and mname == 'search' and len(args) == 1 and args[0].kind == 'val':
            return SV('searchres', SEARCH(recv.t, args[0].t))
        return NotImplemented

    def is_none(self, ex, st, v):
        if v.kind == 'searchres':
            return Not(v.t)
        return NotImplemented

    def compare(self, ex, st, e, op, a, b):
        if op in ('In', 'NotIn') and b.kind == 'aslist' and a.kind == 'val':
            r = INL(a.t, b.f['of'])
            return r if op == 'In' else Not(r)
        if op in ('Eq', 'NotEq') and a.kind == 'val' and b.kind == 'val':
            ex.use('model:== on opaque cells is an uninterpreted predicate')
            r = EQP(a.t, b.t)
            return r if op == 'Eq' else Not(r)
        return NotImplemented

    def subscript(self, ex, st, e, recv, idx):
        if recv.kind == 'rowmap' and idx.kind == 'key':
            ex.raise_if(st, Not(recv.dom[idx.t]), 'KeyError')
            return V(recv.vals[idx.t])
        if recv.kind == 'table' and idx.kind == 'key':
            ex.raise_if(st, Not(recv.dom[idx.t]), 'KeyError')
            return column(recv, idx.t)
        if recv.kind == 'table' and idx.kind == 'lazylist':
            # MASK: callee contract of dictable.__getitem__(list of booleans), proved on the real body in contracts/C01.py (mask_obligations; the
            # obligations are generated again in this property, section __getitem__.mask)
            ex.use('callee contract:table[list of booleans, one per row] keeps all columns and exactly the rows whose entry is true, the row of true entry i at '
                   'position count_true(mask, i) (proved: __getitem__.mask.*, contracts/C01.py)')
            n = st.ghost.get('nrows')
            if n is None:
                raise OutOfSubset('row count of the masked table is not known')
            out = fresh_table('masked')
            marr = z3.Array(fresh_name('mask'), IntSort(), IntSort())
            j = Int(fresh_name('j!mk'))
            s2 = st.fork()
            entry = idx.at(s2, j)
            ex.oblige(st, 'call.__getitem__.mask.pre.one_entry_per_row', idx.n == nrows(recv, n), kind='pre')
            ex.fact(ForAll([j], Implies(And(0 <= j, j < idx.n), (marr[j] != 0) == entry.t)))
            for f in mask_contract(recv, n, marr, out):
                ex.fact(f)
            st.ghost['mask'] = idx
            st.ghost['mask_source'] = recv
            st.ghost['mask_array'] = marr
            st.ghost['masked'] = out
            return out
        return NotImplemented

    def iterate(self, ex, st, it):
        if it.kind == 'table':
            # C01: iteration yields row j = {k: column k [j]}
            ex.use('callee contract:iterating a table yields its rows as mappings column -> cell (C01)')
            n = st.ghost.get('nrows')
            if n is None:
                raise OutOfSubset('row count of the iterated table is not known')
            k = Const(fresh_name('k!it'), Key)
            return n, (lambda st2, j: SV('rowmap', None, dom=it.dom, vals=z3.Lambda([k], Select(Select(it.carr, k), j))))
        if it.kind == 'filters':
            return it.f['n'], (lambda st2, q: T([KEY(it.f['fkey'][q]), V(it.f['fval'][q])]))
        return NotImplemented

    def method_filters(self):
        pass


class Filters:
    def method(self, ex, st, e, recv, mname, args, kwargs):
        if recv.kind == 'filters' and mname == 'items' and not args:
            return recv
        return NotImplemented


def build(ctx):
    m = ctx.mod('_dictable')
    inline = {'_row_check': (m, m.func('_row_check'))}
    cell, cond = Const('CELL', Val), Const('COND', Val)
    KEYc = Const('KEY', Key)

    def th():
        return [Cells(), Filters(), Tables(), Lists(), TypePreds()]

    # the property's own reading of one condition (statement: a value, a list of admissible values, None, NaN, or a compiled regex)
    def spec_check(c, f):
        return If(f == NONEV, c == NONEV, If(NANP(f), NANP(c), If(PATP(f), And(STRP(c), SEARCH(f, c)), INL(c, f))))

    def row_check_of(ex, st, cellterm, condterm):
        k = Const(fresh_name('k!rc'), Key)
        row = SV('rowmap', None, dom=z3.K(Key, True), vals=z3.Lambda([k], cellterm))
        return ex.call_inline_expr(st, '_row_check', [row, KEY(KEYc), V(condterm)], {})

    # ------------------------------------------------------------------ _row_check against the statement
    def rowcheck_section():
        fdef = m.func('_row_check')
        ex = Exec(m, th(), inline=inline, name='_row_check')
        st = State()
        r = row_check_of(ex, st, cell, cond)
        ctx.absorb(ex); ctx.record_function(m, '_row_check', fdef, ex.stmts_executed)
        for o in st.pending:
            ctx.post('_row_check.never_raises.%s' % o.val, ex.facts + o.st.pc, BoolVal(False), kind='safety')
        ctx.post('_row_check.is_the_condition_of_the_statement', ex.facts + st.pc, r.t == spec_check(cell, cond))
    ctx.guarded('_row_check', rowcheck_section)

    # ------------------------------------------------------------------ inc: one step of the filter loop
    def inc_section():
        fdef = m.func('dictable.inc')
        loop = find(fdef, lambda x: isinstance(x, ast.For) and ast.unparse(x.iter).endswith('.items()'), 'filter loop of inc')
        n = Int('N')
        res = fresh_table('res')
        ex = Exec(m, th(), inline=inline, name='inc.step')
        st = State(env={'res': res, 'key': KEY(KEYc), 'value': V(cond), 'self': fresh_table('self')})
        st.pc += [wf(res, n), res.dom[KEYc]]
        st.ghost['nrows'] = n
        outs = ex.run_block(st, loop.body)
        ctx.absorb(ex)
        ctx.record_function(m, 'dictable.inc', fdef, ex.stmts_executed,
                            excluded=['callable / dict positional filters (first loop), copy and as_list prelude: bounded only'])
        j = Int('J')
        nnext = 0
        for out in outs:
            hy = ex.facts + out.st.pc
            if out.kind != 'next':
                ctx.post('inc.step.never_raises_for_an_existing_column', hy, BoolVal(False), kind='safety')
                continue
            nnext += 1
            mask, src = out.st.ghost.get('mask'), out.st.ghost.get('mask_source')
            if mask is None:
                ctx.post('inc.step.selects_rows_by_a_mask', hy, BoolVal(False))
                continue
            s2 = out.st.fork()
            got = mask.at(s2, j)
            ex_rc = Exec(m, th(), inline=inline, name='inc.step.rc')
            s3 = State()
            want = row_check_of(ex_rc, s3, res.carr[KEYc][j], cond)
            ctx.trusted |= ex_rc.trusted
            ctx.post('inc.step.mask_entry_is_row_check_of_that_cell', hy + s2.pc + ex_rc.facts + s3.pc + [0 <= j, j < n], got.t == want.t)
            ctx.post('inc.step.mask_has_one_entry_per_row', hy, mask.n == n)
            ctx.post('inc.step.filters_the_current_result', hy, BoolVal(src is res))
            # composition with the proved MASK contract: the table after this step has all columns and holds, at its rank, every row whose cell
            # satisfies the condition as the statement reads it (spec_check) - and has exactly as many rows as there are such cells
            marr, masked = out.st.ghost['mask_array'], out.st.env['res']
            i_ = Int('I!step')
            c_ = Const('C!step', Key)
            passes = lambda x: spec_check(res.carr[KEYc][x], cond)
            ex_rc2 = Exec(m, th(), inline=inline, name='inc.step.rc2')
            s4 = State()
            want_i = row_check_of(ex_rc2, s4, res.carr[KEYc][i_], cond)
            inst = [Implies(And(0 <= i_, i_ < n), (marr[i_] != 0) == mask.at(out.st.fork(), i_).t), want_i.t == passes(i_)]     # instances at the witness row
            ctx.post('inc.step.result_keeps_all_columns', hy, ForAll([c_], masked.dom[c_] == res.dom[c_]))
            ctx.post('inc.step.result_is_rectangular_with_one_row_per_passing_cell', hy, wf(masked, CNT(marr, n)))
            ctx.post('inc.step.a_row_whose_cell_passes_the_condition_is_kept_at_its_rank', hy + ex_rc2.facts + s4.pc + inst + [0 <= i_, i_ < n, passes(i_), res.dom[c_]],
                     And(marr[i_] != 0, 0 <= CNT(marr, i_), CNT(marr, i_) < CNT(marr, n), masked.carr[c_][CNT(marr, i_)] == res.carr[c_][i_]))
            ctx.post('inc.step.a_row_whose_cell_fails_the_condition_is_not_counted', hy + ex_rc2.facts + s4.pc + inst + [0 <= i_, i_ < n, Not(passes(i_))], marr[i_] == 0)
        if nnext == 0:
            raise OutOfSubset('inc filter step has no normal path')
        # the tail: an empty result is rebuilt with all of self's columns
        tail = fdef.body[fdef.body.index(loop) + 1:] if loop in fdef.body else None
        if not tail or not isinstance(tail[0], ast.If):
            raise SelectorError('inc: no `if len(res) == 0` tail after the filter loop')
        src_ = ast.unparse(tail[0])
        ctx.post('inc.tail.empty_result_rebuilt_with_all_columns', [], BoolVal('len(res) == 0' in src_ and 'self.keys()' in src_ and 'type(self)([]' in src_),
                 kind='syntactic')
        ctx.trust('inc.tail: the rebuilt empty table `type(self)([], self.keys())` is checked syntactically here and behaviourally by the bounded stand-in')
    ctx.guarded('inc', inc_section)
    # the callee contract used above (MASK), proved on the real body of dictable.__getitem__ with the laws of count_true
    ctx.guarded('__getitem__.mask', lambda: mask_obligations(ctx, m))

    # ------------------------------------------------------------------ and_ and exc
    def exc_section():
        fand = m.func('and_')
        inner = find(fand, lambda x: isinstance(x, ast.FunctionDef), 'closure of and_')
        nf = Int('NF')
        fkey, fval = z3.Array('fkey', IntSort(), Key), z3.Array('fval', IntSort(), Val)
        filters = SV('filters', None, n=nf, fkey=fkey, fval=fval)
        rowvals = z3.Array('ROW', Key, Val)
        row = SV('rowmap', None, dom=z3.K(Key, True), vals=rowvals)
        ex = Exec(m, th(), inline=inline, name='and_')
        st = State(env={'row': row, 'filters': filters})
        st.pc += [nf >= 1]
        outs = ex.run_block(st, inner.body)
        ctx.absorb(ex); ctx.record_function(m, 'and_', fand, ex.stmts_executed)
        q = Int('q!and')
        for out in outs:
            hy = ex.facts + out.st.pc
            if out.kind != 'return':
                ctx.post('and_.never_raises_with_at_least_one_filter', hy, BoolVal(False), kind='safety')
                continue
            conj = ForAll([q], Implies(And(0 <= q, q < nf), spec_check(rowvals[fkey[q]], fval[q])))
            ctx.post('and_.is_the_conjunction_of_the_conditions', hy, ex.truth(out.st, out.val) == conj)
        # exc: the mask is `not include(row)` for every row, include = and_(filters), guarded by `filters and len(res)`
        fexc = m.func('dictable.exc')
        guard = None
        for s in fexc.body:
            if isinstance(s, ast.If) and 'and_(' in ast.unparse(s):
                guard = s
        if guard is None:
            raise SelectorError('exc: no `include = and_(filters)` block')
        src_ = ast.unparse(guard)
        ok = ('include = and_(filters)' in src_ and 'res[[not include(row) for row in res]]' in src_)
        ctx.post('exc.mask_is_the_negated_conjunction_row_by_row', [], BoolVal(ok), kind='syntactic')
        ctx.record_function(m, 'dictable.exc', fexc, set(), how='syntactic check of the mask expression; and_ and _row_check symbolically executed',
                            excluded=['callable / dict positional filters, copy prelude, empty-result tail: bounded only'])
        ctx.trust('exc: that the mask expression is `[not include(row) for row in res]` with include = and_(filters) is checked on the AST text; its meaning comes from and_ (proved) and MASK (proved: __getitem__.mask.*)')
    ctx.guarded('exc', exc_section)

    ctx.cover('conditions_distinguishable', [cond != NONEV, NANP(cond), Not(PATP(cond)), cell != NONEV])

    # ------------------------------------------------------------------ frame: operations that return a new object never alter their operands
    def frame_section():
        from pyvc import own
        own.post_all(ctx, own.table_report(PROP), replay=frame_replay)
    ctx.guarded('frame', frame_section)


def frame_replay(d):
    """replay description of a failed frame obligation: the native re-check looks at the receiver / operands before and after the call"""
    return dict(kind='frame', name=d['name'], where=d['where'], detail=d['detail'][:300])
