"""C04 - dt() maps every supported spelling of an instant to the same datetime: the *arithmetic* part.

Functions under contract (real source of pyg_base/_dates.py, re-read on every run):
  ym, month (int branch)      symbolic execution, unbounded y and m
  _ymd                        symbolic execution (ym / month inlined); y in 1900..2299, |m| <= 1200, |d| <= 100000
  num2dt                      integer branches: year (1500 < i <= 3000), ordinal (300000 <= i < 1095000), yyyymmdd
                              (10000101 < i < 30001231); _ymd inlined
  dt                          the dispatcher for one integer (through num2dt), for (y, m), (y, m, d), (y, m, d, h[, mi[, s]]) integer
                              arguments and for a single tz-naive datetime; tz_replace / as_tz inlined
  ymd                         for a tz-naive datetime and for integer parts
Excluded by stated path precondition (listed per function in the evidence): strings (uk2dt / us2dt go through dateutil: bounded
stand-in rac/C04.py enumerates them exhaustively), numpy / pandas / datetime.date inputs, NaT, time zones, floats, the
"offset from today" (i <= 1500), excel (3000 < i < 300000) and timestamp branches of num2dt, dt() without arguments.
"""
import ast
import z3
from z3 import And, Or, Not, If, Implies, Int, Ints, IntVal, BoolVal

from pyvc.front import select, SelectorError, OutOfSubset
from pyvc.symex import Exec, State
from pyvc.contract import suffix
from pyvc.theories import Globals, TypePreds, Dates, ConcreteStr, civil, civil_of_dfc, TYPE_KINDS
from pyvc.th_seq import Lists, static, L_items
from pyvc.sv import SV, I, S, T, NONE, DT, TD, DAYUS, DFC, valid_ymd, next_month, dim, ym_spec, merge_sv
from contracts.C09 import LIN, NEXT

PROP = 'C04'
REPLAY_MODULE = 'rac.C04_ded'
MMAX, DMAX = 1200, 100000

# type names the dispatcher tests its first argument against: none of them is the type of a modelled value kind
for _n in ('np.datetime64', 'pd.DataFrame', 'pd.Series', 'tzfile', 'pytz.tzfile.DstTzInfo'):
    TYPE_KINDS.setdefault(_n, ())
TYPE_KINDS.setdefault('range', ('range',))


class DtHelpers:
    """callees of dt() taken by contract"""

    def name(self, ex, st, ident):
        if ident == 'dt_bump':
            return SV('func', None, name='dt_bump')
        return NotImplemented

    def call(self, ex, st, e, fname, args, kwargs):
        if fname == 'as_list' and len(args) == 1 and not kwargs and args[0].kind == 'tuple' \
                and all(a.kind in ('int', 'bool', 'dt', 'td', 'str') for a in args[0].items):
            ex.use('assumed contract:as_list(tuple of scalars) is the list of the same items (claimed by C19)')
            return static(args[0].items)
        if fname == 'today' and not args and not kwargs:
            ex.use('model:today() is some midnight (an unconstrained ordinal): nothing proved may depend on the clock')
            return DT(Int('TODAY'), 0)
        if fname == 'datetime.datetime.utcfromtimestamp' and len(args) == 1 and args[0].kind == 'int':
            ex.use('axiom:datetime.utcfromtimestamp(n) for an int n is 1970-01-01 plus n seconds')
            return DT(719163 + args[0].t / 86400, (args[0].t % 86400) * 10 ** 6)
        if fname == 'reduce' and len(args) == 3 and L_items(args[1]) == []:
            ex.use('axiom:functools.reduce(f, [], init) is init')
            return args[2]
        return NotImplemented


EXECUTED = set()


def machinery(ctx):
    EXECUTED.clear()
    md = ctx.mod('_dates')
    names = ('ym', 'month', '_ymd', 'num2dt', 'dt', 'ymd', 'tz_replace', 'as_tz')
    inline = {n: (md, md.func(n)) for n in names}
    theories = [DtHelpers(), Lists(), Globals(md, ['DAY']),
                TypePreds(extra={'is_tz': (), 'is_pd': (), 'is_nan': (), 'is_ts': ()}), Dates(), ConcreteStr(md, [])]
    return md, inline, theories


def merged_return(outs, base):
    """(value, [(cond, exc)]) of a loop-free run: ITE over the returning paths"""
    rets = [(suffix(o.st, base), o.val) for o in outs if o.kind == 'return']
    raises = [(suffix(o.st, base), o.val) for o in outs if o.kind == 'raise']
    if not rets:
        raise OutOfSubset('no returning path')
    val = rets[-1][1]
    for c, v in reversed(rets[:-1]):
        val = merge_sv(c, v, val)
        if val is None:
            raise OutOfSubset('return values of different shape')
    return val, raises, Or(*[c for c, _ in rets + raises])


def run(ctx, mach, fname, args, pre, name, kwargs=None, excluded=None):
    md, inline, theories = mach
    ex = Exec(md, theories, inline=inline, name=name)
    st = State(); st.pc += list(pre)
    base = len(st.pc)
    outs = ex.run_function(st, fname, args, kwargs or {})
    ctx.absorb(ex)
    EXECUTED.update(ex.stmts_executed)       # statements reached by any of the runs so far
    ctx.record_function(md, fname, md.func(fname), EXECUTED, excluded=excluded)
    for f in inline:
        if f != fname and any(id(s) in ex.stmts_executed for s in ast.walk(md.func(f)) if isinstance(s, ast.stmt)):
            ctx.record_function(md, f, md.func(f), EXECUTED, how='inlined into ' + fname)
    val, raises, total = merged_return(outs, base)
    return val, raises, total, list(pre) + ex.facts


def rp(kind):
    def mk(model):
        d = dict(kind=kind)
        d.update(model)
        return d
    return mk


DT_EXCLUDED = ['strings (uk2dt / us2dt: dateutil, bounded only)', 'np.datetime64 / pandas / datetime.date / NaT / list inputs',
               'time zones (tzinfo is None and no argument is a time zone)', 'dt() without arguments, None, NaN (the `none` callback)',
               'bump arguments after a datetime (reduce over dt_bump: C09)', 'a weekday name as fourth argument (nth_weekday_of_month)',
               'floats']


def build(ctx):
    mach = machinery(ctx)
    md, inline, theories = mach
    y, m, d, h, mi, s = Ints('Y M D H MI S')
    y2, m2 = ym_spec(y, m)
    y3, m3 = next_month(y2, m2)
    yp, mp = ym_spec(y, m - 1)
    dom_y = [1900 <= y, y < 2300]
    dom = dom_y + [-MMAX <= m, m <= MMAX, -DMAX <= d, d <= DMAX]
    valid = dom_y + [valid_ymd(y, m, d)]
    tod = [0 <= h, h < 24, 0 <= mi, mi < 60, 0 <= s, s < 60]
    us_of = h * 3600 * 10 ** 6 + mi * 60 * 10 ** 6 + s * 10 ** 6
    ctx.default_meta = dict(search_hints=[-36 <= m, m <= 48, -400 <= d, d <= 400])

    # ------------------------------------------------------------------ ym
    def ym_section():
        R, raises, total, hy = run(ctx, mach, 'ym', [I(y), I(m)], [], 'ym',
                                   excluded=['float years / months, month names and futures codes (month(): strings)'])
        if R.kind != 'tuple' or len(R.items) != 2:
            raise OutOfSubset('ym does not return a pair')
        yy, mm = R.items[0].t, R.items[1].t
        w = dict(y=y, m=m)
        ctx.post('ym.month_in_1_12', hy, And(1 <= mm, mm <= 12), witness=w, replay=rp('ym'))
        ctx.post('ym.same_month_count', hy, 12 * yy + mm - 1 == 12 * y + m - 1, witness=w, replay=rp('ym'))
        ctx.post('ym.paths_exhaustive', hy, total, witness=w, replay=rp('ym'))
        for k, (c, exc) in enumerate(raises):
            ctx.post('ym.never_raises.%s' % exc, hy, Not(c), kind='safety', witness=w, replay=rp('ym'))
        ctx.cover('ym.pre_satisfiable', hy + [m < -20])
    ctx.guarded('ym', ym_section)

    # ------------------------------------------------------------------ _ymd
    def ymd_spec_posts(prefix, R, hy, w, kind):
        """the statement's clauses for (y, m, d) with month / day outside the calendar range"""
        Ry, Rm, Rd, ax = civil(R.t)
        lem = [ax, LIN(y2, m2, d), civil_of_dfc(y2, m2, d), NEXT(y2, m2), LIN(y3, m3, d - dim(y2, m2)), civil_of_dfc(y3, m3, d - dim(y2, m2)),
               NEXT(yp, mp), LIN(yp, mp, dim(yp, mp) + d), civil_of_dfc(yp, mp, dim(yp, mp) + d),
               y3 == ym_spec(y, m + 1)[0], m3 == ym_spec(y, m + 1)[1], next_month(yp, mp)[0] == y2, next_month(yp, mp)[1] == m2]
        ctx.post(prefix + '.first_of_normalised_month_plus_d_minus_1', hy, And(R.t == DFC(y2, m2, 1) + d - 1, R.us == 0), witness=w, replay=rp(kind))
        ctx.post(prefix + '.keeps_the_day_when_it_exists', hy + lem + [1 <= d, d <= dim(y2, m2)], And(Ry == y2, Rm == m2, Rd == d), witness=w, replay=rp(kind))
        ctx.post(prefix + '.rolls_excess_into_following_month', hy + lem + [dim(y2, m2) < d, d <= dim(y2, m2) + dim(y3, m3)],
                 And(Ry == y3, Rm == m3, Rd == d - dim(y2, m2)), witness=w, replay=rp(kind))
        ctx.post(prefix + '.day_zero_or_negative_rolls_into_previous_month', hy + lem + [-dim(yp, mp) < d, d <= 0],
                 And(Ry == yp, Rm == mp, Rd == dim(yp, mp) + d), witness=w, replay=rp(kind))

    def ymd_section():
        R, raises, total, hy = run(ctx, mach, '_ymd', [I(y), I(m), I(d)], dom, '_ymd',
                                   excluded=['the (d, m, y) argument order (1500 < third argument < 3000 and first < 32): outside y in 1900..2299',
                                             'float day'])
        w = dict(y=y, m=m, d=d)
        ymd_spec_posts('_ymd', R, hy, w, '_ymd')
        ctx.post('_ymd.paths_exhaustive', hy, total, witness=w, replay=rp('_ymd'))
        for k, (c, exc) in enumerate(raises):
            ctx.post('_ymd.never_raises.%s' % exc, hy, Not(c), kind='safety', witness=w, replay=rp('_ymd'))
        ctx.cover('_ymd.month_overflow_reachable', hy + [m > 12, d > 31])
        ctx.cover('_ymd.negative_reachable', hy + [m < 0, d < 0])
    ctx.guarded('_ymd', ymd_section)

    # calendar lemmas used above are C09's (lemma.ordinal_linear_in_day, lemma.first_of_next_month); restated so that C04 stands alone
    ly, lm, ld = Ints('LY LM LD')
    ctx.post('lemma.ordinal_linear_in_day', [], LIN(ly, lm, ld), kind='lemma')
    ctx.post('lemma.first_of_next_month', [], NEXT(ly, lm), kind='lemma')
    l2y, l2m = ym_spec(ly, lm)
    ctx.post('lemma.ym_spec_normalises', [], And(1 <= l2m, l2m <= 12, 12 * l2y + l2m == 12 * ly + lm), kind='lemma')

    # ------------------------------------------------------------------ num2dt, integer branches
    NUM_EXCL = ['i <= 1500 (offset from today: reads the clock)', '3000 < i < 300000 (excel serial)', 'utc timestamps (i >= 30001231 or 1095000 <= i <= 10000101)',
                'floats (fractional day f)']
    i = Int('I')

    def num_section():
        w = dict(y=y, m=m, d=d, i=i)
        # yyyymmdd
        pre = valid + [i == 10000 * y + 100 * m + d]
        R, raises, total, hy = run(ctx, mach, 'num2dt', [I(i)], pre, 'num2dt.yyyymmdd', excluded=NUM_EXCL)
        ctx.post('num2dt.yyyymmdd.in_its_branch_range', pre, And(i > 3000, i >= 1095000, i > 10000101, i < 30001231), witness=w, replay=rp('num2dt'))
        ctx.post('num2dt.yyyymmdd.decodes_to_the_same_day', hy + [LIN(y, m, d)], And(R.t == DFC(y, m, d), R.us == 0), witness=w, replay=rp('num2dt'))
        ctx.post('num2dt.yyyymmdd.paths_exhaustive', hy, total, witness=w, replay=rp('num2dt'))
        for k, (c, exc) in enumerate(raises):
            ctx.post('num2dt.yyyymmdd.never_raises.%s' % exc, hy, Not(c), kind='safety', witness=w, replay=rp('num2dt'))
        ctx.cover('num2dt.yyyymmdd.pre_satisfiable', hy)
        # ordinal
        pre = valid + [i == DFC(y, m, d)]
        ctx.post('num2dt.ordinal.in_its_branch_range', pre, And(300000 <= i, i < 1095000), witness=w, replay=rp('num2dt'))
        R, raises, total, hy = run(ctx, mach, 'num2dt', [I(i)], pre + [300000 <= i, i < 1095000], 'num2dt.ordinal', excluded=NUM_EXCL)
        Ry, Rm, Rd, ax = civil(R.t)
        ctx.post('num2dt.ordinal.is_midnight_of_that_day', hy + [ax, civil_of_dfc(y, m, d)], And(R.t == i, R.us == 0, Ry == y, Rm == m, Rd == d),
                 witness=w, replay=rp('num2dt'))
        ctx.post('num2dt.ordinal.paths_exhaustive', hy, total, witness=w, replay=rp('num2dt'))
        for k, (c, exc) in enumerate(raises):
            ctx.post('num2dt.ordinal.never_raises.%s' % exc, hy, Not(c), kind='safety', witness=w, replay=rp('num2dt'))
        ctx.cover('num2dt.ordinal.pre_satisfiable', hy)
        # year
        pre = [1900 <= i, i < 2300]
        R, raises, total, hy = run(ctx, mach, 'num2dt', [I(i)], pre, 'num2dt.year', excluded=NUM_EXCL)
        ctx.post('num2dt.year.is_first_of_january', hy, And(R.t == DFC(i, 1, 1), R.us == 0), witness=dict(i=i), replay=rp('num2dt'))
        ctx.post('num2dt.year.paths_exhaustive', hy, total, witness=dict(i=i), replay=rp('num2dt'))
        for k, (c, exc) in enumerate(raises):
            ctx.post('num2dt.year.never_raises.%s' % exc, hy, Not(c), kind='safety', witness=dict(i=i), replay=rp('num2dt'))
    ctx.guarded('num2dt', num_section)

    # ------------------------------------------------------------------ dt: the dispatcher on integer arguments and on a datetime
    kw = dict(none=NONE)

    def safety(prefix, raises, total, hy, w, kind):
        ctx.post(prefix + '.paths_exhaustive', hy, total, witness=w, replay=rp(kind))
        for k, (c, exc) in enumerate(raises):
            ctx.post('%s.never_raises.%s' % (prefix, exc), hy, Not(c), kind='safety', witness=w, replay=rp(kind))

    def dt_section():
        w = dict(y=y, m=m, d=d, i=i)
        # one integer: the three spellings of a day / a year
        for label, pre, want in (('yyyymmdd', valid + [i == 10000 * y + 100 * m + d], DFC(y, m, d)),
                                 ('ordinal', valid + [i == DFC(y, m, d), 300000 <= i, i < 1095000], DFC(y, m, d)),
                                 ('year', dom_y + [i == y], DFC(y, 1, 1))):
            R, raises, total, hy = run(ctx, mach, 'dt', [I(i)], pre, 'dt.' + label, kwargs=kw, excluded=DT_EXCLUDED)
            ctx.post('dt.%s.equals_the_day' % label, hy + [LIN(y, m, d)], And(R.t == want, R.us == 0), witness=w, replay=rp('dt_int'))
            safety('dt.' + label, raises, total, hy, w, 'dt_int')
        # (y, m)
        w2 = dict(y=y, m=m)
        R, raises, total, hy = run(ctx, mach, 'dt', [I(y), I(m)], dom_y + [-MMAX <= m, m <= MMAX], 'dt.ym', kwargs=kw, excluded=DT_EXCLUDED)
        ctx.post('dt.ym.first_of_normalised_month', hy, And(R.t == DFC(y2, m2, 1), R.us == 0), witness=w2, replay=rp('dt_parts'))
        safety('dt.ym', raises, total, hy, w2, 'dt_parts')
        # (y, m, d): valid parts give that day, anything else the overflow law
        w3 = dict(y=y, m=m, d=d)
        R, raises, total, hy = run(ctx, mach, 'dt', [I(y), I(m), I(d)], dom, 'dt.ymd', kwargs=kw, excluded=DT_EXCLUDED)
        ctx.post('dt.ymd.valid_parts_give_that_day', hy + [valid_ymd(y, m, d), LIN(y, m, d)], And(R.t == DFC(y, m, d), R.us == 0), witness=w3, replay=rp('dt_parts'))
        ymd_spec_posts('dt.ymd', R, hy, w3, 'dt_parts')
        safety('dt.ymd', raises, total, hy, w3, 'dt_parts')
        ctx.cover('dt.ymd.pre_satisfiable', hy + [m == 14, d == -3])
        # (y, m, d, h[, mi[, s]])
        for n_extra in (1, 2, 3):
            extra = [h, mi, s][:n_extra]
            want_us = [h * 3600 * 10 ** 6, h * 3600 * 10 ** 6 + mi * 60 * 10 ** 6, us_of][n_extra - 1]
            w6 = dict(y=y, m=m, d=d, h=h, mi=mi, s=s)
            R, raises, total, hy = run(ctx, mach, 'dt', [I(y), I(m), I(d)] + [I(x) for x in extra], valid + tod, 'dt.parts%d' % (3 + n_extra),
                                       kwargs=kw, excluded=DT_EXCLUDED)
            ctx.post('dt.parts%d.equals_datetime_of_parts' % (3 + n_extra), hy + [LIN(y, m, d)], And(R.t == DFC(y, m, d), R.us == want_us),
                     witness=w6, replay=rp('dt_parts'))
            safety('dt.parts%d' % (3 + n_extra), raises, total, hy, w6, 'dt_parts')
        # a tz-naive datetime is returned unchanged
        o, us = Ints('O US')
        Y, M, D_, ax = civil(o)
        pre = [ax, 1900 <= Y, Y < 2300, 0 <= us, us < DAYUS]
        wt = dict(o=o, us=us)
        R, raises, total, hy = run(ctx, mach, 'dt', [DT(o, us)], pre, 'dt.datetime', kwargs=kw, excluded=DT_EXCLUDED)
        ctx.post('dt.datetime.returned_unchanged', hy, And(R.t == o, R.us == us), witness=wt, replay=rp('dt_datetime'))
        safety('dt.datetime', raises, total, hy, wt, 'dt_datetime')
        # ymd drops the time of day
        YMD_EXCL = ['list and timeseries results of dt()'] + DT_EXCLUDED
        R, raises, total, hy = run(ctx, mach, 'ymd', [DT(o, us)], pre, 'ymd.datetime', kwargs=kw, excluded=YMD_EXCL)
        ctx.post('ymd.datetime.drops_the_time_of_day', hy, And(R.t == o, R.us == 0), witness=wt, replay=rp('ymd_datetime'))
        safety('ymd.datetime', raises, total, hy, wt, 'ymd_datetime')
        R, raises, total, hy = run(ctx, mach, 'ymd', [I(y), I(m), I(d), I(h), I(mi), I(s)], valid + tod, 'ymd.parts', kwargs=kw, excluded=YMD_EXCL)
        ctx.post('ymd.parts.is_midnight_of_the_day', hy + [LIN(y, m, d), civil_of_dfc(y, m, d)], And(R.t == DFC(y, m, d), R.us == 0), witness=w6, replay=rp('ymd_parts'))
        safety('ymd.parts', raises, total, hy, w6, 'ymd_parts')
        ctx.cover('ymd.pre_satisfiable', hy)
    ctx.guarded('dt', dt_section)

    ctx.trust('type predicates by kind: is_tz / is_pd / is_ts / is_nan are False on ints and tz-naive datetimes')
    ctx.trust('results stay inside datetime.MINYEAR..MAXYEAR for y in 1900..2299, |m| <= %d, |d| <= %d; OverflowError is not modelled' % (MMAX, DMAX))
    ctx.trust('string spellings (ISO, yyyymmdd strings, d-m-y / m-d-y, month names, dt2str round trip) go through dateutil.parser and are NOT proved: '
              'bounded stand-in rac/C04.py enumerates them over all 146097 days (thorough tier)')
