"""C14 - eq is a NaN-aware, type-strict equivalence (deductive part: the numpy-free universe).

Universe (pyvc/th_values.py): None, bool, int, float (finite / NaN / +-inf), str, tz-naive datetime and tuples / lists of these
nested to any finite depth; objects are handles, so a structural copy holding *different* NaN objects is expressible.

Function under contract (real source, re-read on every run): pyg_base._eq:eq (whole body; _eq_attrs inlined) and in_.
Recursive specification EQ, unfolded one level by UNF (written from the property statement):
    scalars      EQ(x,y) <=> (x is NaN and y is NaN) or x == y
    tuple/list   EQ(x,y) <=> same type, same length and EQ element by element
    otherwise    False (a scalar never equals a container; list vs tuple differ)
Obligations: the body returns UNF(x,y) where its recursive calls return EQ (their own contract, on strictly smaller nesting
depth); it returns a bool and never raises; UNF is reflexive / symmetric / transitive given those laws for the elements
(structural induction, schema trusted); UNF agrees with Python's == on NaN-free values; a structural copy is EQ.
Excluded (bounded stand-in only): dict, numpy arrays / scalars, pandas objects, functools.partial.  In particular the known
finding `C14:transitivity:scalars-under-==` (datetime / Timestamp / datetime64) lies outside this universe and stays visible
in the bounded part.
"""
import ast
import z3
from z3 import And, Or, Not, If, Implies, Int, Ints, IntVal, BoolVal, ForAll, Exists, Function, IntSort, BoolSort, Bool, Bools

from pyvc.front import select, SelectorError, OutOfSubset, find_all
from pyvc.symex import Exec, State, LoopSpec
from pyvc.contract import suffix
from pyvc.sv import SV, I, B, T, fresh_int
from pyvc import th_values as tv
from pyvc.th_values import (V, Vals, tag, bv, iv, fk, rv, sk, do, du, ln, at, depth, inU, is_seq, is_scalar, is_num, is_nan,
                            NONE_T, BOOL_T, INT_T, FLOAT_T, STR_T, DT_T, TUPLE_T, LIST_T, FIN, NAN, PINF, NINF)

PROP = 'C14'
REPLAY_MODULE = 'rac.C14_ded'
TAGS = tv.SCALARS + tv.SEQS

EQ = Function('EQ', IntSort(), IntSort(), BoolSort())            # the recursive spec = eq's own contract on smaller arguments
NANFREE = Function('NANFREE', IntSort(), BoolSort())             # no NaN at any depth
COPY = Function('COPY', IntSort(), IntSort(), BoolSort())        # structural copy (same types and values; identities free)
D = Int('D')
TYPE_PREDICATES = ('is_nan', 'is_float', 'is_num', 'is_int', 'is_str', 'is_bool', 'is_none', 'is_date')


# ------------------------------------------------------------------------------------------------ specification
def _all(n, body):
    j = Int('j!spec')
    return ForAll([j], Implies(And(0 <= j, j < n), body(j)))


def SEQ(x, y):
    """NaN-aware equality of two scalars"""
    return Or(And(is_nan(x), is_nan(y)), tv.scalar_eq(x, y))


def UNF(x, y, rel=None):
    rel = rel or EQ
    return If(And(is_scalar(x), is_scalar(y)), SEQ(x, y),
              If(And(is_seq(x), is_seq(y)), And(tag(x) == tag(y), ln(x) == ln(y), _all(ln(x), lambda j: rel(at(x, j), at(y, j)))), False))


def NANFREE_unf(x):
    return If(is_scalar(x), Not(is_nan(x)), _all(ln(x), lambda j: NANFREE(at(x, j))))


def PYEQ_unf(x, y):
    """Python's == on the universe, one level unfolded: tuple / list __eq__ needs the same type and length and compares
    elements with `a is b or a == b` (trusted axiom about CPython)"""
    return If(And(is_scalar(x), is_scalar(y)), tv.scalar_eq(x, y),
              If(And(is_seq(x), is_seq(y)),
                 And(tag(x) == tag(y), ln(x) == ln(y), _all(ln(x), lambda j: Or(at(x, j) == at(y, j), tv.py_eq(at(x, j), at(y, j))))), False))


def same_scalar(x, y):
    """two scalar objects with the same type and value (a copy); identities unconstrained"""
    return And(tag(x) == tag(y),
               Implies(tag(x) == BOOL_T, bv(x) == bv(y)), Implies(tag(x) == INT_T, iv(x) == iv(y)),
               Implies(tag(x) == FLOAT_T, And(fk(x) == fk(y), Implies(fk(x) == FIN, rv(x) == rv(y)))),
               Implies(tag(x) == STR_T, sk(x) == sk(y)), Implies(tag(x) == DT_T, And(do(x) == do(y), du(x) == du(y))))


def COPY_unf(x, y):
    return If(And(is_scalar(x), is_scalar(y)), same_scalar(x, y),
              If(And(is_seq(x), is_seq(y)), And(tag(x) == tag(y), ln(x) == ln(y), _all(ln(x), lambda j: COPY(at(x, j), at(y, j)))), False))


def pre(*hs):
    out = tv.universe_axioms(TAGS)
    for h in hs:
        out += [inU(h), depth(h) <= D]
    return out


def small(h):
    return And(inU(h), depth(h) < D)


def IH_quantified():
    """induction hypotheses: the laws of EQ (= eq on smaller arguments) for all values of nesting depth < D"""
    a, b, c = Ints('a!ih b!ih c!ih')
    return dict(
        refl=ForAll([a], Implies(small(a), EQ(a, a)), patterns=[EQ(a, a)]),
        sym=ForAll([a, b], Implies(And(small(a), small(b)), EQ(a, b) == EQ(b, a)), patterns=[EQ(a, b)]),
        trans=ForAll([a, b, c], Implies(And(small(a), small(b), small(c), EQ(a, b), EQ(b, c)), EQ(a, c)),
                     patterns=[z3.MultiPattern(EQ(a, b), EQ(b, c))]),
        pyeq=ForAll([a, b], Implies(And(small(a), small(b), NANFREE(a), NANFREE(b)), EQ(a, b) == tv.py_eq(a, b)), patterns=[EQ(a, b)]),
        copy=ForAll([a, b], Implies(And(small(a), small(b), COPY(a, b)), EQ(a, b)), patterns=[COPY(a, b)]))


# ------------------------------------------------------------------------------------------------ contract of the recursive call
def eq_contract(ex, st, args, kwargs):
    a, b = args
    if a.kind != 'val' or b.kind != 'val':
        raise OutOfSubset('eq by contract on %s/%s' % (a.kind, b.kind))
    ex.oblige(st, 'call.eq.arguments_of_smaller_depth', And(inU(a.t), inU(b.t), depth(a.t) < D, depth(b.t) < D), kind='pre')
    ex.use('induction hypothesis:eq on values of nesting depth < D returns the boolean EQ(a,b) without raising (structural induction, schema trusted)')
    return B(EQ(a.t, b.t))


def run_eq(ctx, me, x, y, label):
    """symbolic execution of the real eq body on (x, y): the top-level call runs the body, calls of eq inside it are recursive
    and go through eq's own contract"""
    feq = me.func('eq')
    inline = {'eq': (me, feq), '_eq_attrs': (me, me.func('_eq_attrs'))}
    # type predicates of pyg_base._types are executed from their own source when eq calls one
    mt = ctx.mod('_types')
    for nm in TYPE_PREDICATES:
        try:
            inline[nm] = (mt, mt.func(nm))
        except SelectorError:
            pass
    ex = Exec(me, [Vals({'eq': eq_contract})], inline=inline, name=label)
    st = State(); st.pc += pre(x, y)
    base = len(st.pc)
    outs = ex.run_function(st, 'eq', [V(x), V(y)], {})
    rets = [(suffix(o.st, base), o.val) for o in outs if o.kind == 'return']
    raises = [(suffix(o.st, base), o.val) for o in outs if o.kind == 'raise']
    return rets, raises, ex


# ------------------------------------------------------------------------------------------------ build
def build(ctx):
    me = ctx.mod('_eq')
    feq = me.func('eq')
    x, y, z = Ints('x y z')
    wit2 = dict(D=D); wit2.update(tv.witness_fields('x', x)); wit2.update(tv.witness_fields('y', y))
    wit3 = dict(wit2); wit3.update(tv.witness_fields('z', z))
    for k in range(3):
        for nm, h in (('x', x), ('y', y), ('z', z)):
            if nm != 'z':
                wit2.update(tv.witness_fields('%s%d' % (nm, k), at(h, k)))
            wit3.update(tv.witness_fields('%s%d' % (nm, k), at(h, k)))
    hints = []
    for h in (x, y, z):
        hints += tv.small_hints(h)
        for k in range(3):
            hints += tv.small_hints(at(h, k)) + [is_scalar(at(h, k))]
    # counterexample search only: on the scalar elements the hints ask for, EQ is the scalar specification (keeps models replayable)
    for (u, v) in ((x, y), (y, x), (y, z), (x, z), (x, x), (y, y)):
        for k in range(3):
            hints.append(EQ(at(u, k), at(v, k)) == SEQ(at(u, k), at(v, k)))
        hints.append(Implies(And(is_seq(u), is_seq(v)), tv.PYEQC(u, v) == PYEQ_unf(u, v)))
    ctx.default_meta = dict(search_hints=hints)
    ih = IH_quantified()
    EXCL = ['np.ndarray branch (veq): numpy arrays are outside the deductive universe; bounded stand-in only',
            'pd.DataFrame / pd.Series branch (_eq_attrs on shape/index/columns, veq): bounded stand-in only',
            'dict branch (sorted items, recursive eq on keys and values): bounded stand-in only',
            'functools.partial branch: bounded stand-in only',
            'np.all(res.__array__()) arm of the == fallback and its `except Exception`: == on the universe returns a bool and does not raise',
            'numpy scalars, Timestamp, datetime64, datetime.date: bounded only (known finding C14:transitivity:scalars-under-== lives there)']

    # ------------------------------------------------------------------ the theory's comparison axioms against CPython, on every run
    def axiom_validation():
        probs = tv.validate_against_cpython()
        if probs:
            raise OutOfSubset('comparison axioms of the value universe disagree with CPython: %s' % '; '.join(probs[:5]))
        ctx.trust(tv.VALIDATION_NOTE)
    ctx.guarded('axiom validation', axiom_validation)

    # ------------------------------------------------------------------ eq body against the recursive spec
    def body_section():
        rets, raises, ex = run_eq(ctx, me, x, y, 'eq')
        ctx.absorb(ex)
        ctx.record_function(me, 'eq', feq, ex.stmts_executed, excluded=EXCL)
        ctx.record_function(me, '_eq_attrs', me.func('_eq_attrs'), ex.stmts_executed, how='inlined into eq',
                            excluded=['getattr comparison: no value of the universe has a __shape__ attribute'])
        hy = pre(x, y) + ex.facts
        ctx.post('eq.never_raises', hy, Not(Or(*[c for c, _ in raises])) if raises else BoolVal(True), kind='safety', witness=wit2,
                 replay=rp('eq.never_raises'))
        ctx.post('eq.returns_a_boolean', hy, Not(Or(*[c for c, v in rets if v.kind != 'bool'])) if any(v.kind != 'bool' for _, v in rets)
                 else BoolVal(True), witness=wit2, replay=rp('eq.returns_bool'))
        brets = [(c, v) for c, v in rets if v.kind == 'bool']
        if not brets:
            raise OutOfSubset('eq has no path returning a boolean')
        R = Bool('R')
        rel = lambda r: Or(*[And(c, r == v.t) for c, v in brets])
        ctx.post('eq.body_returns_the_unfolded_spec', hy + [rel(R), ih['refl']], R == UNF(x, y), witness=wit2, replay=rp('eq.spec'))
        # clauses of the statement, directly on the body's result
        ctx.post('eq.false_when_container_types_differ', hy + [rel(R), Or(is_seq(x), is_seq(y)), tag(x) != tag(y)], Not(R), witness=wit2,
                 replay=rp('eq.spec'))
        ctx.post('eq.nan_equals_nan', hy + [rel(R), is_nan(x), is_nan(y)], R, witness=wit2, replay=rp('eq.spec'))
        ctx.post('eq.identical_objects_are_equal', hy + [rel(R), x == y], R, witness=wit2, replay=rp('eq.spec'))
        ctx.post('eq.int_equals_numerically_equal_float', hy + [rel(R), tag(x) == INT_T, tag(y) == FLOAT_T, fk(y) == FIN, z3.ToReal(iv(x)) == rv(y)], R,
                 witness=wit2, replay=rp('eq.spec'))
        # symmetry directly on two executions of the body
        rets2, _, ex2 = run_eq(ctx, me, y, x, 'eq.yx')
        ctx.trusted |= ex2.trusted
        R2 = Bool('R2')
        rel2 = lambda r: Or(*[And(c, r == v.t) for c, v in rets2 if v.kind == 'bool'])
        ctx.post('eq.symmetric_on_the_body', pre(x, y) + ex.facts + ex2.facts + [rel(R), rel2(R2), ih['sym'], ih['refl']], R == R2, witness=wit2,
                 replay=rp('eq.symmetric'))
        ctx.cover('eq.pre_satisfiable.scalars', hy + [is_nan(x), is_nan(y), x != y, D == 0])
        ctx.cover('eq.pre_satisfiable.nested', hy + [tag(x) == LIST_T, tag(y) == LIST_T, ln(x) == 2, ln(y) == 2, tag(at(x, 1)) == TUPLE_T, x != y,
                                                     rel(R), R])
        ctx.cover('eq.element_branch_reachable', hy + [tag(x) == TUPLE_T, tag(y) == TUPLE_T, ln(x) == 2, ln(y) == 2, rel(R), Not(R),
                                                       EQ(at(x, 0), at(y, 0))])
    ctx.guarded('eq', body_section)

    # ------------------------------------------------------------------ laws of the spec by structural induction
    def laws_section():
        hy2, hy3 = pre(x, y), pre(x, y, z)
        ctx.post('spec.reflexive', pre(x) + [ih['refl']], UNF(x, x), kind='lemma', witness=wit2, replay=rp('eq.reflexive'))
        ctx.post('spec.symmetric', hy2 + [ih['sym']], UNF(x, y) == UNF(y, x), kind='lemma', witness=wit2, replay=rp('eq.symmetric'))
        ctx.post('spec.transitive', hy3 + [ih['trans'], UNF(x, y), UNF(y, z)], UNF(x, z), kind='lemma', witness=wit3, replay=rp('eq.transitive'))
        # agreement with == on NaN-free values (CPython's container == : identical or equal elements)
        ctx.post('spec.agrees_with_python_eq_on_nan_free_values',
                 hy2 + [ih['pyeq'], ih['refl'], NANFREE_unf(x), NANFREE_unf(y),
                        Implies(And(is_seq(x), is_seq(y)), tv.PYEQC(x, y) == PYEQ_unf(x, y))],
                 UNF(x, y) == tv.py_eq(x, y), kind='lemma', witness=wit2, replay=rp('eq.pyeq'))
        ctx.trust('axiom:tuple / list == requires the same type and length and compares elements with `a is b or a == b` (CPython)')
        # a structural copy (possibly holding different NaN objects) is equal
        ctx.post('spec.structural_copy_is_equal', hy2 + [ih['copy'], COPY_unf(x, y)], UNF(x, y), kind='lemma', witness=wit2, replay=rp('eq.copy'))
        ctx.cover('spec.copy_with_distinct_nan_objects', hy2 + [COPY_unf(x, y), tag(x) == LIST_T, ln(x) == 1, is_nan(at(x, 0)), at(x, 0) != at(y, 0)])
        ctx.cover('spec.transitive_premise_satisfiable', hy3 + [UNF(x, y), UNF(y, z), tag(x) == TUPLE_T, ln(x) == 2, x != y, y != z])
    ctx.guarded('spec', laws_section)

    # ------------------------------------------------------------------ in_: membership built on eq
    def in_section():
        fin = me.func('in_')
        loop = select(fin, 'For#0')
        s = Int('s')

        def inv(st, entry):
            k = st.ghost['For0.k']
            j = Int('j!in')
            return [('no_earlier_element_is_equal', ForAll([j], Implies(And(0 <= j, j < k), Not(EQ(x, at(s, j))))))]

        def eq_top(ex, st, args, kwargs):
            a, b = args
            ex.oblige(st, 'call.eq.arguments_in_the_universe', And(inU(a.t), inU(b.t)), kind='pre')
            ex.use('callee contract:eq(a,b) returns the boolean EQ(a,b) without raising (body verified in eq.*)')
            return B(EQ(a.t, b.t))
        ex = Exec(me, [Vals({'eq': eq_top})], loops={id(loop): LoopSpec('For0', inv)}, inline={'in_': (me, fin)}, name='in_')
        st = State(); st.pc += tv.universe_axioms(TAGS) + [inU(x), inU(s), is_seq(s)]
        hy0 = list(st.pc); base = len(st.pc)
        outs = ex.run_function(st, 'in_', [V(x), V(s)], {})
        ctx.absorb(ex)
        ctx.record_function(me, 'in_', fin, ex.stmts_executed)
        j = Int('j!post')
        member = Exists([j], And(0 <= j, j < ln(s), EQ(x, at(s, j))))
        bad = []
        for out in outs:
            if out.kind != 'return':
                bad.append(suffix(out.st, base))
                continue
            if out.val.kind != 'bool':
                raise OutOfSubset('in_ returns a %s' % out.val.kind)
            ctx.post('in_.is_membership_under_eq', ex.facts + out.st.pc, out.val.t == member, witness=dict(D=D), replay=None)
        ctx.post('in_.never_raises', ex.facts + hy0, Not(Or(*bad)) if bad else BoolVal(True), kind='safety')
    ctx.guarded('in_', in_section)
    ctx.trust('induction schema over the nesting depth (finite, acyclic nesting): hypotheses are the laws of EQ for all values of depth < D')
    ctx.trust('universe:handles model object identity; None / True / False are singletons; strings enter only through an order-embedding')


def rp(kind):
    def mk(model):
        d = dict(kind=kind)
        d.update(model)
        return d
    return mk
